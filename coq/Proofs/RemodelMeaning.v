(* C17: the documented MEANING of factor_column, remap_columns,
   merge_consecutive and split_rows, stated independently of the loop
   structure of the code and proved of Model/Remodel.v for ALL tables of the
   modelled fragment. *)
From Coq Require Import List NArith ZArith Arith Bool Lia Permutation Sorted.
From HV Require Import Base.Res Base.Str Model.RemodelJson Gen.RemodelParams Model.Remodel
  Proofs.RemodelProofs.
Import ListNotations.

(* ------------------------------------------------------------ generalities *)

Lemma nodupb_NoDup l : nodupb l = true <-> NoDup l.
Proof.
  induction l as [|x l IH]; cbn [nodupb]; [split; [constructor | reflexivity]|].
  rewrite andb_true_iff, negb_true_iff, IH. split.
  - intros [H1 H2]. constructor; [|exact H2]. intro Hin. apply mem_str_In in Hin. congruence.
  - intro H. inversion H as [|? ? Hn Hd]; subst. split; [|exact Hd].
    destruct (mem_str x l) eqn:E; [|reflexivity]. apply mem_str_In in E. contradiction.
Qed.

Lemma NoDup_app_r {A} (l l' : list A) : NoDup (l ++ l') -> NoDup l'.
Proof. induction l as [|x l IH]; cbn [app]; intro H; [exact H|]. inversion H; subst. auto. Qed.

Lemma NoDup_app_l {A} (l l' : list A) : NoDup (l ++ l') -> NoDup l.
Proof.
  induction l as [|x l IH]; cbn [app]; intro H; [constructor|]. inversion H as [|? ? Hn Hd]; subst.
  constructor; [|auto]. intro Hin. apply Hn. apply in_or_app. left. exact Hin.
Qed.

Lemma NoDup_app_disjoint {A} (l l' : list A) x : NoDup (l ++ l') -> In x l -> In x l' -> False.
Proof.
  induction l as [|y l IH]; cbn [app]; intros H H1 H2; [destruct H1|]. inversion H as [|? ? Hn Hd]; subst.
  destruct H1 as [->|H1]; [apply Hn; apply in_or_app; right; exact H2 | exact (IH Hd H1 H2)].
Qed.

Lemma NoDup_snoc {A} (l : list A) a : NoDup l -> ~ In a l -> NoDup (l ++ [a]).
Proof.
  induction l as [|x l IH]; cbn [app]; intros Hnd Hn; [constructor; [intros []|constructor]|].
  inversion Hnd as [|? ? Hx Hd]; subst. constructor.
  - intro Hin. apply in_app_or in Hin as [Hin|[<-|[]]]; [contradiction | apply Hn; left; reflexivity].
  - apply IH; [exact Hd | intro Hin; apply Hn; right; exact Hin].
Qed.

Lemma mem_str_false c l : mem_str c l = false <-> ~ In c l.
Proof.
  split.
  - intros H Hin. apply mem_str_In in Hin. congruence.
  - intro H. destruct (mem_str c l) eqn:E; [|reflexivity]. apply mem_str_In in E. contradiction.
Qed.

Lemma index_of_lt c cs i : index_of c cs = Some i -> i < length cs.
Proof.
  revert i. induction cs as [|x cs IH]; intros i H; cbn [index_of] in H; [discriminate|].
  destruct (str_eqb c x); [injection H as <-; cbn; lia|].
  destruct (index_of c cs) as [k|]; [|discriminate]. injection H as <-. specialize (IH k eq_refl). cbn. lia.
Qed.

Lemma index_of_nth c cs i : index_of c cs = Some i -> nth_error cs i = Some c.
Proof.
  revert i. induction cs as [|x cs IH]; intros i H; cbn [index_of] in H; [discriminate|].
  destruct (str_eqb c x) eqn:E.
  - injection H as <-. apply str_eqb_spec in E. subst. reflexivity.
  - destruct (index_of c cs) as [k|]; [|discriminate]. injection H as <-. exact (IH k eq_refl).
Qed.

Lemma index_of_app_r c l l' : mem_str c l = false ->
  index_of c (l ++ l') = option_map (fun i => length l + i) (index_of c l').
Proof.
  induction l as [|x l IH]; intro H; cbn [app length].
  - destruct (index_of c l'); reflexivity.
  - cbn [mem_str existsb] in H. apply orb_false_iff in H as [H1 H2]. cbn [index_of]. rewrite H1.
    fold (mem_str c l) in H2. rewrite (IH H2). destruct (index_of c l'); reflexivity.
Qed.

Lemma get_cell_app_l i (r x : list cell) : i < length r -> get_cell i (r ++ x) = get_cell i r.
Proof. intro H. unfold get_cell. apply app_nth1. exact H. Qed.

Lemma get_cell_app_r i (r x : list cell) : get_cell (length r + i) (r ++ x) = get_cell i x.
Proof. unfold get_cell. rewrite app_nth2; [|lia]. f_equal. lia. Qed.

Lemma length_set_nth {A} i (v : A) l : length (set_nth i v l) = length l.
Proof.
  revert i. induction l as [|x l IH]; intro i; [destruct i; reflexivity|].
  destruct i; cbn [set_nth length]; [reflexivity | rewrite IH; reflexivity].
Qed.

Lemma get_cell_set_nth_eq i v (l : list cell) : i < length l -> get_cell i (set_nth i v l) = v.
Proof.
  revert i. induction l as [|x l IH]; intros i H; [cbn in H; lia|].
  destruct i; cbn [set_nth]; unfold get_cell in *; cbn [nth]; [reflexivity|]. apply IH. cbn in H. lia.
Qed.

Lemma get_cell_set_nth_ne i j v (l : list cell) : i <> j -> get_cell j (set_nth i v l) = get_cell j l.
Proof.
  intro H. destruct (get_cell_set_nth j i v l) as [E|[E _]]; [exact E | congruence].
Qed.

Lemma zip_with_map_r {A B C D} (f : A -> B -> C) (g : D -> B) (l : list A) (h : A -> D) :
  zip_with f l (map g (map h l)) = map (fun a => f a (g (h a))) l.
Proof. induction l as [|x l IH]; cbn [map zip_with]; [reflexivity | rewrite IH; reflexivity]. Qed.

(* the cell of row [r] (a row of table [t]) in the column named [c] *)
Definition cell_at (t : table) (c : str) (r : list cell) : cell :=
  match index_of c (cols t) with Some i => get_cell i r | None => CNa end.

(* rows are as long as the header *)
Definition rect (t : table) : Prop := Forall (fun r => length r = length (cols t)) (rows t).

Lemma wfb_rect t : wfb t = true -> rect t.
Proof.
  unfold wfb, rect. intro H. apply andb_true_iff in H as [_ H]. rewrite forallb_forall in H.
  apply Forall_forall. intros r Hr. apply Nat.eqb_eq. apply H. exact Hr.
Qed.

Lemma wfb_nodup t : wfb t = true -> NoDup (cols t).
Proof. unfold wfb. intro H. apply andb_true_iff in H as [H _]. apply nodupb_NoDup. exact H. Qed.

(* ------------------------------------------------------------ factor_column *)

(* Documented: "Append to tabular file columns of factors based on column
   values": one new column per factor value, 1 where the cell -- printed as
   text -- equals the value and 0 elsewhere.  An n/a cell equals no value: it
   gets 0 in every factor column (since fix commit 67be5b4; before it an n/a
   cell printed as "nan" and so got 1 for the literal value "nan"). *)
Definition flag (v : str) (c : cell) : cell := if factor_hit all_fixes v c then CNum 1 else CNum 0.

Definition factor_spec (i : nat) (vs names : list str) (t : table) : table :=
  {| cols := cols t ++ names;
     rows := map (fun r => r ++ map (fun v => flag v (get_cell i r)) vs) (rows t) |}.

Lemma skipn_nth_error {A} (l : list A) i x : nth_error l i = Some x -> skipn i l = x :: skipn (S i) l.
Proof.
  revert i. induction l as [|y l IH]; intros i H; [destruct i; discriminate|].
  destruct i as [|i]; cbn [nth_error] in H; [injection H as ->; reflexivity|].
  cbn [skipn]. rewrite (IH i H). reflexivity.
Qed.

Lemma factor_loop_spec cn vs : forall ns idx t i,
  index_of cn (cols t) = Some i -> rect t ->
  length vs + idx <= length ns ->
  NoDup (cols t ++ firstn (length vs) (skipn idx ns)) ->
  factor_loop all_fixes cn vs (Some ns) idx t = Ok (factor_spec i vs (firstn (length vs) (skipn idx ns)) t).
Proof.
  induction vs as [|v vs IH]; intros ns idx t i Hi Hrect Hlen Hnd; cbn [factor_loop length firstn].
  - unfold factor_spec. cbn [map]. rewrite app_nil_r. destruct t as [cs rs]. cbn [cols rows] in *.
    f_equal. f_equal. symmetry. erewrite map_ext; [apply map_id|]. intro r. apply app_nil_r.
  - rewrite Hi. cbn [length] in Hlen.
    destruct (nth_error ns idx) as [n0|] eqn:En; [|apply nth_error_None in En; lia].
    rewrite (skipn_nth_error ns idx n0 En) in *. cbn [firstn length] in Hnd |- *.
    assert (Hfresh : mem_str n0 (cols t) = false).
    { apply mem_str_false. intro Hin. apply NoDup_remove_2 in Hnd. apply Hnd. apply in_or_app. left. exact Hin. }
    unfold set_col at 1. rewrite (index_of_none _ _ Hfresh).
    unfold col_cells. rewrite zip_with_map_r. cbv beta.
    change (fun a : list cell => a ++ [if factor_hit all_fixes v (get_cell i a) then CNum 1 else CNum 0])
      with (fun a : list cell => a ++ [flag v (get_cell i a)]).
    set (t1 := {| cols := cols t ++ [n0]; rows := map (fun a => a ++ [flag v (get_cell i a)]) (rows t) |}).
    assert (Hrect1 : rect t1).
    { unfold rect, t1. cbn [cols rows]. apply Forall_forall. intros r Hr. apply in_map_iff in Hr as [r0 [<- Hr0]].
      unfold rect in Hrect. rewrite Forall_forall in Hrect. rewrite !app_length, (Hrect r0 Hr0). reflexivity. }
    rewrite (IH ns (S idx) t1 i); [| | exact Hrect1 | lia |].
    + unfold factor_spec, t1. cbn [cols rows]. rewrite <- app_assoc. cbn [app]. f_equal. f_equal.
      rewrite map_map. apply map_ext_in. intros r Hr. rewrite <- app_assoc. cbn [app map].
      unfold rect in Hrect. rewrite Forall_forall in Hrect.
      rewrite get_cell_app_l; [reflexivity|]. rewrite (Hrect r Hr). exact (index_of_lt _ _ _ Hi).
    + unfold t1. cbn [cols]. apply index_of_app. exact Hi.
    + unfold t1. cbn [cols]. rewrite <- app_assoc. exact Hnd.
Qed.

(* the values and names the operation uses (current code, since 192568b): the given ones or,
   when absent, the distinct non-n/a values of the column in order of first
   appearance and  <column>.<value> *)
Definition factor_values_of (i : nat) (values : option (list str)) (t : table) : list str :=
  match values with
  | Some (v :: vs) => v :: vs
  | _ => uniq_strs (map cell_str (filter (fun c => negb (cell_eqb c CNa)) (col_cells i t)))
  end.
Definition factor_names_of (cn : str) (names : option (list str)) (vs : list str) : list str :=
  match names with
  | Some (n :: ns) => n :: ns
  | _ => map (dot_name cn) vs
  end.

Lemma factor_column_meaning cn values names t i :
  index_of cn (cols t) = Some i -> wfb t = true ->
  let vs := factor_values_of i values t in
  let ns := factor_names_of cn names vs in
  length ns = length vs ->
  NoDup (cols t ++ ns) ->
  do_factor_column all_fixes cn values names t = Ok (factor_spec i vs ns t).
Proof.
  intros Hi Hwf vs ns Hlen Hnd. unfold do_factor_column. cbn [all_fixes fx_factor].
  assert (E1 : match values with
               | Some (v :: vs0) => Ok (v :: vs0)
               | _ => match index_of cn (cols t) with
                      | None => Exn KeyError
                      | Some i0 => Ok (uniq_strs (map cell_str (filter (fun c => negb (cell_eqb c CNa)) (col_cells i0 t))))
                      end
               end = Ok vs).
  { unfold vs, factor_values_of. destruct values as [[|v vs0]|]; rewrite ?Hi; reflexivity. }
  rewrite E1. cbn [bind].
  assert (E2 : match names with Some (n :: ns0) => n :: ns0 | _ => map (dot_name cn) vs end = ns).
  { unfold ns, factor_names_of. destruct names as [[|n ns0]|]; reflexivity. }
  rewrite E2.
  pose proof (factor_loop_spec cn vs ns 0 t i Hi (wfb_rect t Hwf)) as H.
  cbn [skipn] in H. rewrite <- Hlen, firstn_all in H. apply H; [lia | exact Hnd].
Qed.

(* consequences in column form *)
Lemma factor_spec_old_column i vs ns t c :
  rect t -> has_col t c = true -> column c (factor_spec i vs ns t) = column c t.
Proof.
  intros Hrect Hc. unfold column, factor_spec. cbn [cols rows].
  destruct (index_of_some c (cols t) Hc) as [j Hj]. rewrite (index_of_app c (cols t) ns j Hj), Hj.
  cbn [option_map]. f_equal. rewrite map_map. apply map_ext_in. intros r Hr.
  unfold rect in Hrect. rewrite Forall_forall in Hrect.
  apply get_cell_app_l. rewrite (Hrect r Hr). exact (index_of_lt _ _ _ Hj).
Qed.

Lemma factor_spec_new_column i vs ns t k v n :
  rect t -> NoDup (cols t ++ ns) -> length ns = length vs ->
  nth_error vs k = Some v -> nth_error ns k = Some n ->
  column n (factor_spec i vs ns t) = Some (map (fun r => flag v (get_cell i r)) (rows t)).
Proof.
  intros Hrect Hnd Hlen Hv Hn. unfold column, factor_spec. cbn [cols rows].
  assert (Hfresh : mem_str n (cols t) = false).
  { apply mem_str_false. intro Hin. apply nth_error_In in Hn. exact (NoDup_app_disjoint _ _ n Hnd Hin Hn). }
  rewrite (index_of_app_r n (cols t) ns Hfresh).
  assert (Hidx : index_of n ns = Some k).
  { apply NoDup_app_r in Hnd. clear - Hnd Hn. revert k Hn. induction ns as [|x ns IH]; intros k Hn; [destruct k; discriminate|].
    inversion Hnd as [|? ? Hx Hd]; subst. destruct k as [|k]; cbn [nth_error] in Hn.
    - injection Hn as ->. cbn [index_of]. rewrite str_eqb_refl. reflexivity.
    - cbn [index_of]. destruct (str_eqb n x) eqn:E.
      + apply str_eqb_spec in E. subst. apply nth_error_In in Hn. contradiction.
      + rewrite (IH Hd k Hn). reflexivity. }
  rewrite Hidx. cbn [option_map]. f_equal. rewrite map_map. apply map_ext_in. intros r Hr.
  unfold rect in Hrect. rewrite Forall_forall in Hrect. rewrite <- (Hrect r Hr), get_cell_app_r.
  unfold get_cell at 1. apply nth_error_nth. exact (map_nth_error (fun v0 => flag v0 (get_cell i r)) k vs Hv).
Qed.

(* an n/a cell is flagged 0 for EVERY factor value (the code as it is, since
   fix commit 67be5b4) *)
Lemma flag_na v : flag v CNa = CNum 0.
Proof. reflexivity. Qed.

(* a present cell is flagged iff its text equals the value *)
Lemma flag_present v c : c <> CNa -> flag v c = if str_eqb (cell_str c) v then CNum 1 else CNum 0.
Proof. intro H. unfold flag, factor_hit. destruct c; [reflexivity | reflexivity | congruence]. Qed.

(* RECORD, behaviour before fix commit 67be5b4 (C17-F10): the factor value
   "nan" -- and only that value -- also hit every n/a cell *)
Lemma factor_hit_na_before_67be5b4 v : factor_hit no_fixes v CNa = true <-> v = s_nan.
Proof.
  cbn [factor_hit no_fixes fx_nan cell_str]. split; intro H.
  - apply str_eqb_spec in H. congruence.
  - subst. apply str_eqb_refl.
Qed.


(* ------------------------------------------------------------ split_rows *)

(* --- sort_values('onset'): a STABLE sort by onset, n/a last *)

Definition onset_key (io : nat) (r : list cell) : option Z :=
  match get_cell io r with CNum z => Some z | _ => None end.
(* numbers in increasing order, then everything without a number *)
Definition key_le (a b : option Z) : Prop :=
  match a, b with
  | Some x, Some y => (x <= y)%Z
  | Some _, None => True
  | None, Some _ => False
  | None, None => True
  end.

Lemma onset_leb_key io a b : onset_leb io a b = true <-> key_le (onset_key io a) (onset_key io b).
Proof.
  unfold onset_leb, onset_key, key_le.
  destruct (get_cell io a), (get_cell io b); try (split; [intros _; exact I | reflexivity]);
    try (split; [discriminate | intros []]).
  apply Z.leb_le.
Qed.

Lemma key_le_total a b : key_le a b \/ key_le b a.
Proof. destruct a, b; cbn; try tauto. lia. Qed.

Lemma key_le_trans a b c : key_le a b -> key_le b c -> key_le a c.
Proof. destruct a, b, c; cbn; try tauto. lia. Qed.

Lemma insert_row_perm io r l : Permutation (insert_row io r l) (r :: l).
Proof.
  induction l as [|x l IH]; cbn [insert_row]; [reflexivity|].
  destruct (onset_leb io r x); [reflexivity|]. rewrite IH. apply perm_swap.
Qed.

Lemma sort_rows_perm io l : Permutation (sort_rows io l) l.
Proof.
  unfold sort_rows. induction l as [|x l IH]; cbn [fold_right]; [reflexivity|].
  rewrite insert_row_perm. constructor. exact IH.
Qed.

Definition rows_sorted (io : nat) : list (list cell) -> Prop :=
  StronglySorted (fun a b => key_le (onset_key io a) (onset_key io b)).

Lemma insert_row_sorted io r l : rows_sorted io l -> rows_sorted io (insert_row io r l).
Proof.
  intro H. induction H as [|x l Hl IH Hx]; cbn [insert_row]; [repeat constructor|].
  destruct (onset_leb io r x) eqn:E.
  - apply onset_leb_key in E. constructor; [constructor; assumption|].
    constructor; [exact E|]. rewrite Forall_forall in *. intros y Hy. eapply key_le_trans; [exact E | apply Hx; exact Hy].
  - constructor; [exact IH|].
    assert (Hxr : key_le (onset_key io x) (onset_key io r)).
    { destruct (key_le_total (onset_key io x) (onset_key io r)) as [H|H]; [exact H|].
      apply onset_leb_key in H. congruence. }
    rewrite Forall_forall in *. intros y Hy.
    apply (Permutation_in _ (insert_row_perm io r l)) in Hy. destruct Hy as [<-|Hy]; [exact Hxr | apply Hx; exact Hy].
Qed.

Lemma sort_rows_sorted io l : rows_sorted io (sort_rows io l).
Proof.
  unfold sort_rows. induction l as [|x l IH]; cbn [fold_right]; [constructor | apply insert_row_sorted; exact IH].
Qed.

(* stability: rows with the same onset keep their relative order *)
Definition same_key (io : nat) (k : option Z) (r : list cell) : bool :=
  match k, onset_key io r with
  | Some x, Some y => Z.eqb x y
  | None, None => true
  | _, _ => false
  end.

Lemma insert_row_stable io k r l :
  rows_sorted io l ->
  filter (same_key io k) (insert_row io r l) = filter (same_key io k) (r :: l).
Proof.
  intro H. induction H as [|x l Hl IH Hx]; cbn [insert_row]; [reflexivity|].
  destruct (onset_leb io r x) eqn:E; [reflexivity|].
  cbn [filter]. rewrite IH. cbn [filter].
  destruct (same_key io k r) eqn:Er; [|reflexivity].
  destruct (same_key io k x) eqn:Ex; [|reflexivity].
  (* r and x have the same key, hence r <= x: contradiction with E *)
  exfalso. assert (X : onset_leb io r x = true).
  { apply onset_leb_key. unfold same_key in Er, Ex.
    destruct k, (onset_key io r), (onset_key io x); try discriminate; cbn; [|exact I].
    apply Z.eqb_eq in Er, Ex. lia. }
  congruence.
Qed.

Lemma sort_rows_stable io k l :
  filter (same_key io k) (sort_rows io l) = filter (same_key io k) l.
Proof.
  unfold sort_rows. induction l as [|x l IH]; cbn [fold_right]; [reflexivity|].
  rewrite insert_row_stable; [|apply sort_rows_sorted]. cbn [filter]. fold (sort_rows io l).
  unfold sort_rows in *. rewrite IH. reflexivity.
Qed.

(* --- the value added by the sources of an event *)

Definition src_val (t : table) (r : list cell) (s : pval) : option Z :=
  match s with
  | PNum z => Some z
  | PStr c => match index_of c (cols t) with Some i => to_num_coerce (get_cell i r) | None => None end
  end.

Lemma zip_with_map_l {A A' B C} (f : A' -> B -> C) (g : A -> A') l m :
  zip_with f (map g l) m = zip_with (fun a b => f (g a) b) l m.
Proof. revert m. induction l as [|x l IH]; intros [|y m]; cbn [map zip_with]; try reflexivity. rewrite IH. reflexivity. Qed.

Lemma zip_with_zip_with {A B C} (f : A -> B -> C) (g : C -> B -> C) (l : list A) (m : list B) :
  zip_with g (zip_with f l m) m = zip_with (fun a b => g (f a b) b) l m.
Proof. revert m. induction l as [|x l IH]; intros [|y m]; cbn [zip_with]; try reflexivity. rewrite IH. reflexivity. Qed.

Lemma zip_with_length {A B C} (f : A -> B -> C) l m : length l = length m -> length (zip_with f l m) = length l.
Proof. revert m. induction l as [|x l IH]; intros [|y m] H; cbn in *; try lia. rewrite IH; lia. Qed.

Lemma zip_with_fst {A B} (l : list A) (m : list B) : length l = length m -> zip_with (fun a _ => a) l m = l.
Proof. revert m. induction l as [|x l IH]; intros [|y m] H; cbn in *; try lia; [reflexivity|]. rewrite IH; [reflexivity | lia]. Qed.

(* per row: start value plus the sum of the sources (n/a if any term is n/a) *)
Lemma add_sources_spec t srcs : forall acc res,
  length acc = length (rows t) ->
  add_sources t srcs acc = Ok res ->
  res = zip_with (fun a r => fold_left opt_add (map (src_val t r) srcs) a) acc (rows t).
Proof.
  induction srcs as [|s srcs IH]; intros acc res Hl H; cbn [add_sources] in H.
  - injection H as <-. cbn [map fold_left]. symmetry. apply zip_with_fst. exact Hl.
  - destruct s as [c|z].
    + destruct (index_of c (cols t)) as [i|] eqn:Ei; [|discriminate].
      apply IH in H; [|rewrite zip_with_length; assumption]. rewrite H, zip_with_zip_with.
      cbn [map fold_left src_val]. rewrite Ei. reflexivity.
    + apply IH in H; [|rewrite map_length; exact Hl]. rewrite H, zip_with_map_l. reflexivity.
Qed.

(* --- the row created for one parent row and one new event *)

Definition cell_in (cs : list str) (c : str) (r : list cell) : cell :=
  match index_of c cs with Some i => get_cell i r | None => CNa end.

(* Column by column: copied columns carry the parent's cell; otherwise
   duration, anchor and onset carry the computed values; every other column is
   n/a.  (A copied column wins over a computed one, duration over anchor over
   onset, as assignments are made in that order.) *)
Definition child_row (t : table) (out : list str) (anchor name : str) (copy : list str)
           (on du : option Z) (r : list cell) : list cell :=
  map (fun c => if mem_str c copy then cell_at t c r
                else if str_eqb c s_duration then num_cell du
                else if str_eqb c anchor then CStr name
                else if str_eqb c s_onset then num_cell on
                else CNa) out.

Lemma fold_set_length (r0 : list cell) (cidx : list (nat * nat)) base :
  length (fold_left (fun a p => set_nth (snd p) (get_cell (fst p) r0) a) cidx base) = length base.
Proof.
  revert base. induction cidx as [|p cidx IH]; intro base; cbn [fold_left]; [reflexivity|].
  rewrite IH. apply length_set_nth.
Qed.

Lemma fold_set_none (r0 : list cell) (cidx : list (nat * nat)) base j :
  (forall p, In p cidx -> snd p <> j) ->
  get_cell j (fold_left (fun a p => set_nth (snd p) (get_cell (fst p) r0) a) cidx base) = get_cell j base.
Proof.
  revert base. induction cidx as [|p cidx IH]; intros base H; cbn [fold_left]; [reflexivity|].
  rewrite IH; [|intros q Hq; apply H; right; exact Hq].
  apply get_cell_set_nth_ne. apply H. left. reflexivity.
Qed.

Lemma fold_set_some (r0 : list cell) (cidx : list (nat * nat)) base j V :
  j < length base ->
  (exists p, In p cidx /\ snd p = j) ->
  (forall p, In p cidx -> snd p = j -> get_cell (fst p) r0 = V) ->
  get_cell j (fold_left (fun a p => set_nth (snd p) (get_cell (fst p) r0) a) cidx base) = V.
Proof.
  revert base. induction cidx as [|p cidx IH]; intros base Hj [q [Hq Hqj]] Hall; [destruct Hq|].
  cbn [fold_left].
  destruct (existsb (fun p' => Nat.eqb (snd p') j) cidx) eqn:Ex.
  - apply existsb_exists in Ex as [p' [Hp' Ep']]. apply Nat.eqb_eq in Ep'.
    apply IH; [rewrite length_set_nth; exact Hj | exists p'; split; assumption |].
    intros p2 Hp2. apply Hall. right. exact Hp2.
  - rewrite fold_set_none.
    + destruct Hq as [->|Hq].
      * rewrite Hqj. rewrite get_cell_set_nth_eq; [|exact Hj]. apply Hall; [left; reflexivity | exact Hqj].
      * exfalso. assert (X : existsb (fun p' => Nat.eqb (snd p') j) cidx = true).
        { apply existsb_exists. exists q. split; [exact Hq | apply Nat.eqb_eq; exact Hqj]. }
        congruence.
    + intros p2 Hp2 E2. assert (X : existsb (fun p' => Nat.eqb (snd p') j) cidx = true).
      { apply existsb_exists. exists p2. split; [exact Hp2 | apply Nat.eqb_eq; exact E2]. }
      congruence.
Qed.

Lemma mapM_In_fwd {A B} (f : A -> res B) l ys x :
  mapM f l = Ok ys -> In x l -> exists y, f x = Ok y /\ In y ys.
Proof.
  revert ys. induction l as [|a l IH]; intros ys H Hin; [destruct Hin|]. cbn [mapM] in H.
  destruct (f a) as [y|] eqn:Ea; cbn [bind] in H; [|discriminate].
  destruct (mapM f l) as [ys0|]; cbn [bind] in H; [|discriminate]. injection H as <-.
  destruct Hin as [->|Hin]; [exists y; split; [exact Ea | left; reflexivity]|].
  destruct (IH ys0 eq_refl Hin) as [y0 [H1 H2]]. exists y0. split; [exact H1 | right; exact H2].
Qed.

Lemma index_of_of_nth cs j c : NoDup cs -> nth_error cs j = Some c -> index_of c cs = Some j.
Proof.
  intros Hnd. revert j. induction Hnd as [|x cs Hx Hnd IH]; intros j H; [destruct j; discriminate|].
  destruct j as [|j]; cbn [nth_error] in H.
  - injection H as ->. cbn [index_of]. rewrite str_eqb_refl. reflexivity.
  - cbn [index_of]. destruct (str_eqb c x) eqn:E.
    + apply str_eqb_spec in E. subst. apply nth_error_In in H. contradiction.
    + rewrite (IH j H). reflexivity.
Qed.

Lemma list_eq_get (a b : list cell) :
  length a = length b -> (forall j, j < length a -> get_cell j a = get_cell j b) -> a = b.
Proof. intros Hl H. apply (nth_ext a b CNa CNa Hl). exact H. Qed.

Lemma get_cell_map_nth {A} (F : A -> cell) (l : list A) j x :
  nth_error l j = Some x -> get_cell j (map F l) = F x.
Proof. intro H. unfold get_cell. apply nth_error_nth. exact (map_nth_error F j l H). Qed.

Lemma mk_child_row t out anchor name copy cidx on du r oo oa od :
  NoDup out ->
  (forall c i, index_of c (cols t) = Some i -> index_of c out = Some i) ->
  index_of s_onset out = Some oo -> index_of anchor out = Some oa -> index_of s_duration out = Some od ->
  mapM (fun c => match index_of c (cols t), index_of c out with
                 | Some i, Some o => Ok (i, o)
                 | _, _ => Exn KeyError
                 end) copy = Ok cidx ->
  fold_left (fun acc p => set_nth (snd p) (get_cell (fst p) r) acc) cidx
    (set_nth od (num_cell du) (set_nth oa (CStr name) (set_nth oo (num_cell on) (map (fun _ => CNa) out))))
  = child_row t out anchor name copy on du r.
Proof.
  intros Hnd Hext Hoo Hoa Hod Hc.
  set (f := fun c => match index_of c (cols t), index_of c out with
                     | Some i, Some o => Ok (i, o)
                     | _, _ => Exn KeyError
                     end) in Hc.
  set (base := set_nth od (num_cell du) (set_nth oa (CStr name) (set_nth oo (num_cell on) (map (fun _ => CNa) out)))).
  assert (Hbl : length base = length out) by (unfold base; rewrite !length_set_nth, map_length; reflexivity).
  apply list_eq_get.
  - rewrite fold_set_length, Hbl. unfold child_row. rewrite map_length. reflexivity.
  - intros j Hj. rewrite fold_set_length, Hbl in Hj.
    destruct (nth_error out j) as [c|] eqn:En; [|apply nth_error_None in En; lia].
    pose proof (index_of_of_nth out j c Hnd En) as Hcj.
    unfold child_row. rewrite (get_cell_map_nth _ out j c En).
    assert (Hpairs : forall p, In p cidx -> snd p = j ->
                       mem_str c copy = true /\ get_cell (fst p) r = cell_at t c r).
    { intros p Hp Hpj. pose proof (mapM_Forall f copy cidx Hc) as HF. rewrite Forall_forall in HF.
      destruct (HF p Hp) as [c' [Hc' Hf]]. unfold f in Hf.
      destruct (index_of c' (cols t)) as [i|] eqn:Ei; [|discriminate].
      destruct (index_of c' out) as [o|] eqn:Eo; [|discriminate]. injection Hf as <-. cbn [fst snd] in *. subst o.
      pose proof (index_of_inj _ _ _ _ Eo Hcj) as ->. split; [apply mem_str_In; exact Hc'|].
      unfold cell_at. rewrite Ei. reflexivity. }
    destruct (mem_str c copy) eqn:Em.
    + apply mem_str_In in Em. destruct (mapM_In_fwd f copy cidx c Hc Em) as [p [Hf Hp]].
      unfold f in Hf. destruct (index_of c (cols t)) as [i|] eqn:Ei; [|discriminate].
      rewrite Hcj in Hf. injection Hf as <-.
      apply fold_set_some; [rewrite Hbl; exact Hj | exists (i, j); split; [exact Hp | reflexivity] |].
      intros p Hp' Hpj. apply (Hpairs p Hp' Hpj).
    + rewrite fold_set_none; [|intros p Hp Hpj; destruct (Hpairs p Hp Hpj); discriminate].
      unfold base.
      assert (Hcase : forall nm o, index_of nm out = Some o ->
                (str_eqb c nm = true -> j = o) /\ (str_eqb c nm = false -> o <> j)).
      { intros nm o Ho. split.
        - intro E. apply str_eqb_spec in E. subst. congruence.
        - intros E Eq. subst o. pose proof (index_of_inj _ _ _ _ Hcj Ho) as ->. rewrite str_eqb_refl in E. discriminate. }
      destruct (Hcase s_duration od Hod) as [Hd1 Hd2].
      destruct (str_eqb c s_duration) eqn:Ed.
      { rewrite (Hd1 eq_refl). apply get_cell_set_nth_eq. rewrite !length_set_nth, map_length. rewrite <- (Hd1 eq_refl). exact Hj. }
      rewrite (get_cell_set_nth_ne _ _ _ _ (Hd2 eq_refl)).
      destruct (Hcase anchor oa Hoa) as [Ha1 Ha2].
      destruct (str_eqb c anchor) eqn:Ea.
      { rewrite (Ha1 eq_refl). apply get_cell_set_nth_eq. rewrite !length_set_nth, map_length. rewrite <- (Ha1 eq_refl). exact Hj. }
      rewrite (get_cell_set_nth_ne _ _ _ _ (Ha2 eq_refl)).
      destruct (Hcase s_onset oo Hoo) as [Ho1 Ho2].
      destruct (str_eqb c s_onset) eqn:Eo.
      { rewrite (Ho1 eq_refl). apply get_cell_set_nth_eq. rewrite map_length. rewrite <- (Ho1 eq_refl). exact Hj. }
      rewrite (get_cell_set_nth_ne _ _ _ _ (Ho2 eq_refl)). apply get_cell_blank.
Qed.

(* --- all rows created for one new event: one per parent row whose new onset
   is a number *)
Definition event_children (t : table) (out : list str) (anchor : str) (ev : str * new_event)
  : list (list cell) :=
  let copy := match copy_columns (snd ev) with Some l => l | None => [] end in
  filter (fun row => negb (cell_eqb (cell_in out s_onset row) CNa))
    (map (fun r =>
            child_row t out anchor (fst ev) copy
              (fold_left opt_add (map (src_val t r) (onset_source (snd ev))) (to_num_coerce (cell_at t s_onset r)))
              (fold_left opt_add (map (src_val t r) (duration_source (snd ev))) (Some 0%Z))
              r)
         (rows t)).

Lemma zip_with_diag {A B} (f : A -> A -> B) l : zip_with f l l = map (fun a => f a a) l.
Proof. induction l as [|x l IH]; cbn [zip_with map]; [reflexivity | rewrite IH; reflexivity]. Qed.

Lemma combine3_map {A B C} (f : A -> B) (g : A -> C) l :
  combine (combine (map f l) (map g l)) l = map (fun a => (f a, g a, a)) l.
Proof. induction l as [|x l IH]; cbn [map combine]; [reflexivity | rewrite IH; reflexivity]. Qed.

Lemma split_event_spec anchor t out ev added :
  NoDup out ->
  (forall c i, index_of c (cols t) = Some i -> index_of c out = Some i) ->
  split_event all_fixes anchor t out ev = Ok added ->
  added = event_children t out anchor ev.
Proof.
  intros Hnd Hext H. destruct ev as [name e]. unfold split_event in H.
  destruct (index_of s_onset (cols t)) as [io|] eqn:Eio; [|discriminate].
  destruct (index_of s_onset out) as [oo|] eqn:Eoo; [|discriminate].
  destruct (index_of anchor out) as [oa|] eqn:Eoa; [|discriminate].
  destruct (index_of s_duration out) as [od|] eqn:Eod; [|discriminate].
  destruct (add_sources t (onset_source e) (map (fun r => to_num_coerce (get_cell io r)) (rows t))) as [onsets|] eqn:Eon;
    cbn [bind] in H; [|discriminate].
  destruct (add_sources t (duration_source e) (map (fun _ => Some 0%Z) (rows t))) as [durs|] eqn:Edu;
    cbn [bind] in H; [|discriminate].
  apply add_sources_spec in Eon; [|apply map_length]. apply add_sources_spec in Edu; [|apply map_length].
  rewrite zip_with_map_l, zip_with_diag in Eon, Edu.
  set (copy := match copy_columns e with Some l => l | None => [] end).
  assert (Ecopy : match copy_columns e with
                  | Some l => Ok l
                  | None => if fx_copy all_fixes then Ok [] else Exn KeyError
                  end = Ok copy) by (unfold copy; destruct (copy_columns e); reflexivity).
  rewrite Ecopy in H. cbn [bind] in H.
  match type of H with context [mapM ?f copy] => destruct (mapM f copy) as [cidx|] eqn:Ec end; cbn [bind] in H; [|discriminate].
  injection H as <-. unfold event_children. cbn [fst snd]. fold copy.
  rewrite Eon, Edu, combine3_map, map_map.
  assert (Efilt : forall rows', filter (fun r => negb (cell_eqb (get_cell oo r) CNa)) rows'
                              = filter (fun row => negb (cell_eqb (cell_in out s_onset row) CNa)) rows').
  { intro rows'. apply filter_ext. intro r. unfold cell_in. rewrite Eoo. reflexivity. }
  rewrite Efilt. f_equal. apply map_ext. intro r. cbv beta iota zeta.
  rewrite (mk_child_row t out anchor name copy cidx _ _ r oo oa od Hnd Hext Eoo Eoa Eod Ec).
  unfold cell_at. rewrite Eio. reflexivity.
Qed.

Lemma split_events_spec anchor t out evs added :
  NoDup out ->
  (forall c i, index_of c (cols t) = Some i -> index_of c out = Some i) ->
  split_events all_fixes anchor t out evs = Ok added ->
  added = flat_map (event_children t out anchor) evs.
Proof.
  intros Hnd Hext. revert added. induction evs as [|ev evs IH]; intros added H; cbn [split_events] in H.
  - injection H as <-. reflexivity.
  - destruct (split_event all_fixes anchor t out ev) as [a|] eqn:Ea; cbn [bind] in H; [|discriminate].
    destruct (split_events all_fixes anchor t out evs) as [b|] eqn:Eb; cbn [bind] in H; [|discriminate].
    injection H as <-. cbn [flat_map]. rewrite (split_event_spec _ _ _ _ _ Hnd Hext Ea), (IH b eq_refl). reflexivity.
Qed.

(* pd.to_numeric on the onset column: numeric-looking text becomes a number *)
Definition strict_num (c : cell) : cell :=
  match c with
  | CStr s => match parse_int s with Some z => CNum z | None => c end
  | _ => c
  end.

Lemma mapM_strict io all all1 :
  mapM (fun r => let* c := to_num_strict (get_cell io r) in Ok (set_nth io c r)) all = Ok all1 ->
  all1 = map (fun r => set_nth io (strict_num (get_cell io r)) r) all.
Proof.
  revert all1. induction all as [|r all IH]; intros all1 H; cbn [mapM] in H.
  - injection H as <-. reflexivity.
  - destruct (to_num_strict (get_cell io r)) as [c|] eqn:Ec; cbn [bind] in H; [|discriminate].
    match type of H with context [mapM ?f all] => destruct (mapM f all) as [rest|] eqn:Er end; cbn [bind] in H; [|discriminate].
    injection H as <-. cbn [map]. rewrite (IH rest eq_refl). f_equal. f_equal.
    unfold to_num_strict in Ec. unfold strict_num. destruct (get_cell io r) as [s| |]; try (injection Ec as <-; reflexivity).
    destruct (parse_int s); [injection Ec as <-; reflexivity | discriminate].
Qed.

(* The documented meaning: every row yields itself (unless remove_parent_row)
   plus one row per new event; the anchor column is added (n/a for the parents)
   when missing; the onset column is made numeric and the table is sorted by
   onset with a stable sort, rows without onset last. *)
Definition split_spec (anchor : str) (evs : list (str * new_event)) (rp : bool) (t : table) (io : nat) : table :=
  let fresh := negb (has_col t anchor) in
  let out := if fresh then cols t ++ [anchor] else cols t in
  let parents := if rp then [] else if fresh then map (fun r => r ++ [CNa]) (rows t) else rows t in
  let children := flat_map (event_children t out anchor) evs in
  {| cols := out;
     rows := sort_rows io (map (fun r => set_nth io (strict_num (get_cell io r)) r) (parents ++ children)) |}.

Lemma split_rows_meaning anchor evs rp t t' :
  wfb t = true ->
  do_split_rows all_fixes anchor evs rp t = Ok t' ->
  exists io, index_of s_onset (cols t) = Some io /\ has_col t s_duration = true /\
             t' = split_spec anchor evs rp t io.
Proof.
  intros Hwf H. unfold do_split_rows in H.
  destruct (has_col t s_onset) eqn:Eo; cbn [negb] in H; [|discriminate].
  destruct (has_col t s_duration) eqn:Ed; cbn [negb] in H; [|discriminate].
  destruct (index_of_some s_onset (cols t) Eo) as [io Hio]. exists io. split; [exact Hio|]. split; [reflexivity|].
  pose proof (wfb_nodup t Hwf) as Hnd.
  unfold split_spec. destruct (has_col t anchor) eqn:Ea; cbn [negb] in *.
  - destruct (split_events all_fixes anchor t (cols t) evs) as [added|] eqn:Es; cbn [bind] in H; [|discriminate].
    rewrite Hio in H.
    match type of H with context [mapM ?f ?l] => destruct (mapM f l) as [all1|] eqn:Em end; cbn [bind] in H; [|discriminate].
    injection H as <-. apply mapM_strict in Em.
    rewrite (split_events_spec anchor t (cols t) evs added Hnd (fun c i Hc => Hc) Es) in Em.
    rewrite Em. destruct rp; reflexivity.
  - cbn [cols rows] in H.
    assert (Hnd2 : NoDup (cols t ++ [anchor])).
    { apply NoDup_snoc; [exact Hnd | apply mem_str_false; exact Ea]. }
    destruct (split_events all_fixes anchor t (cols t ++ [anchor]) evs) as [added|] eqn:Es; cbn [bind] in H; [|discriminate].
    rewrite (index_of_app _ _ [anchor] _ Hio) in H.
    match type of H with context [mapM ?f ?l] => destruct (mapM f l) as [all1|] eqn:Em end; cbn [bind] in H; [|discriminate].
    injection H as <-. apply mapM_strict in Em.
    rewrite (split_events_spec anchor t (cols t ++ [anchor]) evs added Hnd2
               (fun c i Hc => index_of_app c (cols t) [anchor] i Hc) Es) in Em.
    rewrite Em. destruct rp; reflexivity.
Qed.

(* each new row: copied cells are the parent's (n/a stays n/a), everything that
   is not computed or copied is n/a *)
Lemma child_row_cell t out anchor name copy on du r j c :
  nth_error out j = Some c ->
  get_cell j (child_row t out anchor name copy on du r)
  = if mem_str c copy then cell_at t c r
    else if str_eqb c s_duration then num_cell du
    else if str_eqb c anchor then CStr name
    else if str_eqb c s_onset then num_cell on
    else CNa.
Proof. intro H. unfold child_row. rewrite (get_cell_map_nth _ out j c H). reflexivity. Qed.

(* ------------------------------------------------------------ remap_columns *)

Lemma list_str_eqb_spec a b : list_str_eqb a b = true <-> a = b.
Proof.
  revert b. induction a as [|x a IH]; destruct b as [|y b]; cbn [list_str_eqb]; split; intro H;
    try reflexivity; try discriminate.
  - apply andb_true_iff in H as [H1 H2]. apply str_eqb_spec in H1. apply IH in H2. congruence.
  - injection H as -> ->. rewrite str_eqb_refl. apply IH. reflexivity.
Qed.

Definition row_key (m : nat) (row : list pval) : list str := map pval_str (firstn m row).

(* first-wins lookup: the entry found is the FIRST map row with that key *)
Lemma map_find_spec m key ml :
  match map_find m key ml with
  | Some vals => exists pre row post, ml = pre ++ row :: post /\ row_key m row = key /\ vals = skipn m row
                                      /\ Forall (fun row' => row_key m row' <> key) pre
  | None => Forall (fun row' => row_key m row' <> key) ml
  end.
Proof.
  induction ml as [|row ml IH]; cbn [map_find]; [constructor|].
  destruct (list_str_eqb (map pval_str (firstn m row)) key) eqn:E.
  - apply list_str_eqb_spec in E. exists [], row, ml. repeat split; [exact E | constructor].
  - assert (Hne : row_key m row <> key).
    { intro H. apply list_str_eqb_spec in H. unfold row_key in H. congruence. }
    destruct (map_find m key ml) as [vals|].
    + destruct IH as [pre [row' [post [-> [H1 [H2 H3]]]]]]. exists (row :: pre), row', post.
      repeat split; try assumption. constructor; assumption.
    + constructor; assumption.
Qed.

Lemma length_set_cells idx vals (r : list cell) : length (set_cells idx vals r) = length r.
Proof.
  revert vals r. induction idx as [|i idx IH]; intros vals r; [reflexivity|].
  destruct vals as [|v vals]; cbn [set_cells]; [reflexivity|]. rewrite IH. apply length_set_nth.
Qed.

(* values that depend only on the position written *)
Lemma set_cells_fun (F : nat -> cell) idx (r : list cell) k :
  get_cell k (set_cells idx (map F idx) r)
  = if existsb (Nat.eqb k) idx && (k <? length r) then F k else get_cell k r.
Proof.
  revert r. induction idx as [|i idx IH]; intro r; cbn [map set_cells existsb]; [reflexivity|].
  rewrite IH, length_set_nth.
  destruct (existsb (Nat.eqb k) idx) eqn:Ex; cbn [andb orb].
  - rewrite orb_true_r. cbn [andb]. destruct (k <? length r) eqn:El; [reflexivity|].
    destruct (Nat.eq_dec i k) as [->|Hne]; [|apply get_cell_set_nth_ne; exact Hne].
    apply Nat.ltb_ge in El. unfold get_cell. rewrite !nth_overflow; [reflexivity | lia | rewrite length_set_nth; lia].
  - rewrite orb_false_r. destruct (Nat.eqb k i) eqn:E; cbn [andb].
    + apply Nat.eqb_eq in E. subst i. destruct (k <? length r) eqn:El.
      * apply Nat.ltb_lt in El. apply get_cell_set_nth_eq. exact El.
      * apply Nat.ltb_ge in El. unfold get_cell. rewrite !nth_overflow; [reflexivity | lia | rewrite length_set_nth; lia].
    + apply Nat.eqb_neq in E. apply get_cell_set_nth_ne. congruence.
Qed.

Lemma set_cells_other idx vals (r : list cell) k :
  ~ In k idx -> get_cell k (set_cells idx vals r) = get_cell k r.
Proof.
  revert vals r. induction idx as [|i idx IH]; intros vals r H; [reflexivity|].
  destruct vals as [|v vals]; cbn [set_cells]; [reflexivity|].
  rewrite IH; [|intro Hin; apply H; right; exact Hin].
  apply get_cell_set_nth_ne. intro E. apply H. left. exact E.
Qed.

Lemma set_cells_get idx vals (r : list cell) j k :
  NoDup idx -> length vals = length idx -> nth_error idx j = Some k -> k < length r ->
  get_cell k (set_cells idx vals r) = nth j vals CNa.
Proof.
  intro Hnd. revert vals r j. induction Hnd as [|i idx Hi Hnd IH]; intros vals r j Hl Hj Hk; [destruct j; discriminate|].
  destruct vals as [|v vals]; [discriminate|]. cbn [set_cells]. cbn [length] in Hl.
  destruct j as [|j]; cbn [nth_error nth] in *.
  - injection Hj as ->. rewrite set_cells_other; [|exact Hi]. apply get_cell_set_nth_eq. exact Hk.
  - apply IH; [lia | exact Hj | rewrite length_set_nth; exact Hk].
Qed.

Lemma zip_with_const {A B C} (f : A -> B -> C) (l : list A) (v : B) :
  zip_with f l (map (fun _ => v) l) = map (fun a => f a v) l.
Proof. induction l as [|x l IH]; cbn [map zip_with]; [reflexivity | rewrite IH; reflexivity]. Qed.

Lemma mem_str_app c l l' : mem_str c (l ++ l') = mem_str c l || mem_str c l'.
Proof. unfold mem_str. apply existsb_app. Qed.

(* df[d] = v  for a constant v *)
Lemma set_col_const_spec d v t0 :
  let ta := set_col d (map (fun _ => v) (rows t0)) t0 in
  cols ta = (if mem_str d (cols t0) then cols t0 else cols t0 ++ [d]) /\
  exists hd, rows ta = map hd (rows t0) /\
    forall r, length r = length (cols t0) ->
      length (hd r) = length (cols ta) /\
      cell_in (cols ta) d (hd r) = v /\
      (forall c, mem_str c (cols t0) = true -> c <> d -> cell_in (cols ta) c (hd r) = cell_in (cols t0) c r).
Proof.
  cbv zeta. unfold set_col. destruct (index_of d (cols t0)) as [i|] eqn:Ei.
  - rewrite (index_of_mem _ _ _ Ei). cbn [cols rows]. split; [reflexivity|].
    exists (fun r => set_nth i v r). split; [exact (zip_with_const (fun r x => set_nth i x r) (rows t0) v)|].
    intros r Hr. split; [rewrite length_set_nth; exact Hr|]. unfold cell_in. rewrite Ei. split.
    + apply get_cell_set_nth_eq. rewrite Hr. exact (index_of_lt _ _ _ Ei).
    + intros c Hc Hne. destruct (index_of c (cols t0)) as [k|] eqn:Ek; [|reflexivity].
      apply get_cell_set_nth_ne. intro E. subst k. apply Hne. symmetry. exact (index_of_inj _ _ _ _ Ei Ek).
  - assert (Hm : mem_str d (cols t0) = false).
    { destruct (mem_str d (cols t0)) eqn:E; [|reflexivity]. destruct (index_of_some _ _ E) as [k Hk]. congruence. }
    rewrite Hm. cbn [cols rows]. split; [reflexivity|].
    exists (fun r => r ++ [v]). split; [exact (zip_with_const (fun r x => r ++ [x]) (rows t0) v)|].
    intros r Hr. split; [rewrite !app_length, Hr; reflexivity|]. unfold cell_in. split.
    + rewrite (index_of_app_r d (cols t0) [d] Hm). cbn [index_of]. rewrite str_eqb_refl. cbn [option_map].
      rewrite <- Hr. rewrite get_cell_app_r. reflexivity.
    + intros c Hc Hne. destruct (index_of_some c (cols t0) Hc) as [k Hk].
      rewrite (index_of_app c (cols t0) [d] k Hk), Hk. apply get_cell_app_l. rewrite Hr. exact (index_of_lt _ _ _ Hk).
Qed.

(* df[dst] = v : existing columns are overwritten in place, new ones appended in order *)
Lemma fill_spec v dst : forall t0, NoDup dst ->
  let t1 := fold_left (fun tt d => set_col d (map (fun _ => v) (rows tt)) tt) dst t0 in
  cols t1 = cols t0 ++ filter (fun d => negb (mem_str d (cols t0))) dst /\
  exists h, rows t1 = map h (rows t0) /\
    forall r, length r = length (cols t0) ->
      length (h r) = length (cols t1) /\
      (forall d, In d dst -> cell_in (cols t1) d (h r) = v) /\
      (forall c, mem_str c (cols t0) = true -> ~ In c dst -> cell_in (cols t1) c (h r) = cell_in (cols t0) c r).
Proof.
  induction dst as [|d dst IH]; intros t0 Hnd; cbv zeta; cbn [fold_left filter].
  - split; [rewrite app_nil_r; reflexivity|]. exists (fun r => r). split; [symmetry; apply map_id|].
    intros r Hr. split; [exact Hr|]. split; [intros d []|]. reflexivity.
  - inversion Hnd as [|? ? Hd Hnd']; subst.
    destruct (set_col_const_spec d v t0) as [Hca [hd [Hra Hpa]]].
    set (ta := set_col d (map (fun _ => v) (rows t0)) t0) in *.
    destruct (IH ta Hnd') as [Hc1 [h [Hr1 Hp1]]]. cbv zeta in Hc1, Hr1, Hp1.
    set (t1 := fold_left (fun tt d0 => set_col d0 (map (fun _ => v) (rows tt)) tt) dst ta) in *.
    split.
    + rewrite Hc1, Hca. destruct (mem_str d (cols t0)) eqn:Em; cbn [negb]; [reflexivity|].
      rewrite <- app_assoc. cbn [app]. f_equal. f_equal. apply filter_ext_in'. intros x Hx.
      rewrite mem_str_app. cbn [mem_str existsb]. rewrite orb_false_r.
      destruct (str_eqb x d) eqn:E; [|rewrite orb_false_r; reflexivity].
      apply str_eqb_spec in E. subst. contradiction.
    + exists (fun r => h (hd r)). split; [rewrite Hr1, Hra, map_map; reflexivity|].
      intros r Hr. destruct (Hpa r Hr) as [Hla [Hda Hoa]]. destruct (Hp1 (hd r) Hla) as [Hl1 [Hd1 Ho1]].
      split; [exact Hl1|].
      assert (Hsub : forall c, mem_str c (cols t0) = true -> mem_str c (cols ta) = true).
      { intros c Hc. rewrite Hca. destruct (mem_str d (cols t0)); [exact Hc|]. rewrite mem_str_app, Hc. reflexivity. }
      assert (Hdta : mem_str d (cols ta) = true).
      { rewrite Hca. destruct (mem_str d (cols t0)) eqn:Em; [exact Em|]. rewrite mem_str_app. cbn [mem_str existsb].
        rewrite str_eqb_refl. rewrite orb_true_r. reflexivity. }
      split.
      * intros x [<-|Hx]; [|apply Hd1; exact Hx]. rewrite (Ho1 d Hdta Hd). exact Hda.
      * intros c Hc Hn. rewrite (Ho1 c (Hsub c Hc)); [|intro Hin; apply Hn; right; exact Hin].
        apply Hoa; [exact Hc | intro E; apply Hn; left; symmetry; exact E].
Qed.

Lemma mapM_index_Forall2 (cs : list str) (names : list str) idx :
  mapM (fun c => match index_of c cs with Some i => Ok i | None => Exn KeyError end) names = Ok idx ->
  Forall2 (fun c i => index_of c cs = Some i) names idx.
Proof.
  revert idx. induction names as [|c names IH]; intros idx H; cbn [mapM] in H.
  - injection H as <-. constructor.
  - destruct (index_of c cs) as [i|] eqn:Ei; cbn [bind] in H; [|discriminate].
    match type of H with context [mapM ?f names] => destruct (mapM f names) as [rest|] eqn:Er end; cbn [bind] in H; [|discriminate].
    injection H as <-. constructor; [exact Ei | apply IH; reflexivity].
Qed.

Lemma flat_map_index_Forall2 (cs : list str) (names : list str) :
  (forall c, In c names -> mem_str c cs = true) ->
  Forall2 (fun c i => index_of c cs = Some i) names
          (flat_map (fun c => match index_of c cs with Some i => [i] | None => [] end) names).
Proof.
  induction names as [|c names IH]; intro H; cbn [flat_map]; [constructor|].
  destruct (index_of_some c cs (H c (or_introl eq_refl))) as [i Hi]. rewrite Hi. cbn [app].
  constructor; [exact Hi | apply IH; intros x Hx; apply H; right; exact Hx].
Qed.

Lemma Forall2_index_nodup (cs names : list str) idx :
  Forall2 (fun c i => index_of c cs = Some i) names idx -> NoDup names -> NoDup idx.
Proof.
  intro HF. induction HF as [|c i names idx Hci HF IH]; intro Hnd; [constructor|].
  inversion Hnd as [|? ? Hc Hnd']; subst. constructor; [|apply IH; exact Hnd'].
  intro Hin. apply Hc. clear - HF Hin Hci. induction HF as [|c' i' names idx Hc' HF IH]; [destruct Hin|].
  destruct Hin as [->|Hin]; [left; exact (index_of_inj _ _ _ _ Hc' Hci) | right; apply IH; exact Hin].
Qed.

Lemma Forall2_index_in (cs names : list str) idx k :
  Forall2 (fun c i => index_of c cs = Some i) names idx -> In k idx -> exists c, In c names /\ index_of c cs = Some k.
Proof.
  intro HF. induction HF as [|c i names idx Hci HF IH]; intro Hin; [destruct Hin|].
  destruct Hin as [->|Hin]; [exists c; split; [left; reflexivity | exact Hci]|].
  destruct (IH Hin) as [c' [H1 H2]]. exists c'. split; [right; exact H1 | exact H2].
Qed.

Lemma Forall2_index_nth (cs names : list str) idx j c :
  Forall2 (fun c i => index_of c cs = Some i) names idx -> nth_error names j = Some c ->
  exists k, nth_error idx j = Some k /\ index_of c cs = Some k.
Proof.
  intro HF. revert j. induction HF as [|c' i names idx Hci HF IH]; intros j Hj; [destruct j; discriminate|].
  destruct j as [|j]; cbn [nth_error] in *; [injection Hj as ->; exists i; split; [reflexivity | exact Hci]|].
  apply IH. exact Hj.
Qed.

Lemma Forall2_len {A B} (R : A -> B -> Prop) l m : Forall2 R l m -> length l = length m.
Proof. intro H. induction H; cbn [length]; [reflexivity | f_equal; assumption]. Qed.

Lemma Forall2_map_eq {A B C} (R : A -> B -> Prop) (f : A -> C) (g : B -> C) l m :
  Forall2 R l m -> (forall a b, In a l -> R a b -> f a = g b) -> map f l = map g m.
Proof.
  intros HF. induction HF as [|a b l m Hab HF IH]; intro H; cbn [map]; [reflexivity|].
  f_equal; [apply H; [left; reflexivity | exact Hab] | apply IH; intros a' b' Hin; apply H; right; exact Hin].
Qed.

(* Documented: "Map values in m columns into new combinations in n columns":
   per row, the source cells are written as text (n/a as the text n/a), the
   destination cells take the values of the FIRST map_list entry whose key
   equals the row's source texts, or n/a when there is none (an error unless
   ignore_missing); every other cell is untouched; destination columns that
   do not exist yet are appended in the order given. *)
Lemma remap_columns_meaning src dst ml ig ints t t' :
  wfb t = true -> NoDup (src ++ dst) ->
  Forall (fun row => length row = length src + length dst) ml ->
  do_remap_columns src dst ml ig ints t = Ok t' ->
  cols t' = cols t ++ filter (fun d => negb (has_col t d)) dst /\
  exists g, rows t' = map g (rows t) /\
    (forall r, length r = length (cols t) ->
       let found := map_find (length src) (map (fun c => src_str (cell_at t c r)) src) ml in
       length (g r) = length (cols t') /\
       (forall c, In c src -> cell_at t' c (g r) = CStr (src_str (cell_at t c r))) /\
       (forall j d, nth_error dst j = Some d ->
          cell_at t' d (g r) = match found with
                               | Some vals => pval_cell (nth j vals (PStr s_na))
                               | None => CStr s_na
                               end) /\
       (forall c, has_col t c = true -> ~ In c src -> ~ In c dst -> cell_at t' c (g r) = cell_at t c r)) /\
    (ig = false -> forall r, In r (rows t) ->
       map_find (length src) (map (fun c => src_str (cell_at t c r)) src) ml <> None).
Proof.
  intros Hwf Hnd Hml H. unfold do_remap_columns in H.
  match type of H with context [mapM ?f src] => destruct (mapM f src) as [sidx|] eqn:Es end; cbn [bind] in H; [|discriminate].
  match type of H with (if ?b then _ else _) = _ => destruct b; [discriminate|] end.
  cbv zeta in H.
  pose proof (mapM_index_Forall2 (cols t) src sidx Es) as HFs.
  pose proof (NoDup_app_r _ _ Hnd) as Hndd.
  pose proof (wfb_rect t Hwf) as Hrect.
  set (gs := fun r : list cell => set_cells sidx (map (fun i => CStr (src_str (get_cell i r))) sidx) r) in H.
  set (t0 := {| cols := cols t; rows := map gs (rows t) |}) in H.
  destruct (fill_spec (CStr s_na) dst t0 Hndd) as [Hc1 [h [Hr1 Hp1]]]. cbv zeta in Hc1, Hr1, Hp1.
  set (t1 := fold_left (fun tt d => set_col d (map (fun _ => CStr s_na) (rows tt)) tt) dst t0) in *.
  set (didx := flat_map (fun c => match index_of c (cols t1) with Some i => [i] | None => [] end) dst) in H.
  set (look := fun r : list cell => map_find (length src) (map (fun i => src_str (get_cell i r)) sidx) ml) in H.
  change (cols t0) with (cols t) in Hc1, Hp1. change (rows t0) with (map gs (rows t)) in Hr1.
  assert (Hdst_in : forall d, In d dst -> mem_str d (cols t1) = true).
  { intros d Hd. rewrite Hc1, mem_str_app. destruct (mem_str d (cols t)) eqn:E; [reflexivity|].
    cbn [orb]. apply mem_str_In. apply filter_In. split; [exact Hd | rewrite E; reflexivity]. }
  pose proof (flat_map_index_Forall2 (cols t1) dst Hdst_in) as HFd. fold didx in HFd.
  pose proof (Forall2_index_nodup _ _ _ HFd Hndd) as Hndi.
  assert (Hidx1 : forall c k, index_of c (cols t) = Some k -> index_of c (cols t1) = Some k).
  { intros c k Hk. rewrite Hc1. apply index_of_app. exact Hk. }
  (* the source step, row by row *)
  assert (Hgs : forall r, length r = length (cols t) ->
            length (gs r) = length (cols t) /\
            (forall c, In c src -> cell_in (cols t) c (gs r) = CStr (src_str (cell_in (cols t) c r))) /\
            (forall c, ~ In c src -> cell_in (cols t) c (gs r) = cell_in (cols t) c r)).
  { intros r Hr. unfold gs. split; [rewrite length_set_cells; exact Hr|]. split.
    - intros c Hc. apply In_nth_error in Hc as [j Hj].
      destruct (Forall2_index_nth _ _ _ j c HFs Hj) as [k [Hk Hck]]. unfold cell_in. rewrite Hck.
      rewrite (set_cells_fun (fun i => CStr (src_str (get_cell i r))) sidx r k).
      assert (E1 : existsb (Nat.eqb k) sidx = true).
      { apply existsb_exists. exists k. split; [apply nth_error_In in Hk; exact Hk | apply Nat.eqb_refl]. }
      assert (E2 : (k <? length r) = true) by (apply Nat.ltb_lt; rewrite Hr; exact (index_of_lt _ _ _ Hck)).
      rewrite E1, E2. reflexivity.
    - intros c Hc. unfold cell_in. destruct (index_of c (cols t)) as [k|] eqn:Ek; [|reflexivity].
      apply set_cells_other. intro Hin. destruct (Forall2_index_in _ _ _ k HFs Hin) as [c' [H1 H2]].
      apply Hc. rewrite (index_of_inj _ _ _ _ Ek H2). exact H1. }
  (* facts about the row of t1 that comes from r *)
  assert (Hr1facts : forall r, length r = length (cols t) ->
            length (h (gs r)) = length (cols t1) /\
            (forall c k, In c src -> index_of c (cols t) = Some k ->
               get_cell k (h (gs r)) = CStr (src_str (cell_at t c r))) /\
            (forall d, In d dst -> cell_in (cols t1) d (h (gs r)) = CStr s_na) /\
            (forall c, has_col t c = true -> ~ In c src -> ~ In c dst ->
               cell_in (cols t1) c (h (gs r)) = cell_at t c r)).
  { intros r Hr. destruct (Hgs r Hr) as [Hl0 [Hs0 Hn0]]. destruct (Hp1 (gs r) Hl0) as [Hl1 [Hd1 Ho1]].
    split; [exact Hl1|]. split; [|split; [exact Hd1|]].
    - intros c k Hc Hk.
      assert (Hnd_c : ~ In c dst) by (intro Hin; exact (NoDup_app_disjoint _ _ c Hnd Hc Hin)).
      pose proof (Ho1 c (index_of_mem _ _ _ Hk) Hnd_c) as E. unfold cell_in at 1 in E. rewrite (Hidx1 c k Hk) in E.
      rewrite E, (Hs0 c Hc). reflexivity.
    - intros c Hc Hns Hnd_c. rewrite (Ho1 c Hc Hnd_c). apply Hn0. exact Hns. }
  assert (Hkey : forall r, length r = length (cols t) ->
            look (h (gs r)) = map_find (length src) (map (fun c => src_str (cell_at t c r)) src) ml).
  { intros r Hr. destruct (Hr1facts r Hr) as [_ [Hsrc _]]. unfold look. f_equal.
    symmetry. apply (Forall2_map_eq _ _ _ _ _ HFs). intros c k Hc Hk. rewrite (Hsrc c k Hc Hk). reflexivity. }
  match type of H with (if ?b then _ else _) = _ => destruct b eqn:Emiss; [discriminate|] end.
  injection H as <-. cbn [cols rows].
  split; [exact Hc1|].
  exists (fun r => match look (h (gs r)) with
                   | Some vals => set_cells didx (map pval_cell vals) (h (gs r))
                   | None => h (gs r)
                   end).
  split; [rewrite Hr1, !map_map; reflexivity|]. split.
  - intros r Hr. cbv zeta. destruct (Hr1facts r Hr) as [Hl1 [Hsrc [Hdna Hoth]]].
    rewrite (Hkey r Hr).
    pose proof (map_find_spec (length src) (map (fun c => src_str (cell_at t c r)) src) ml) as Hspec.
    destruct (map_find (length src) (map (fun c => src_str (cell_at t c r)) src) ml) as [vals|] eqn:Ef.
    + destruct Hspec as [pre [row [post [Hmleq [_ [Hvals _]]]]]].
      assert (Hlv : length vals = length dst).
      { rewrite Forall_forall in Hml. assert (Hrow : In row ml) by (rewrite Hmleq; apply in_or_app; right; left; reflexivity).
        rewrite Hvals, skipn_length, (Hml row Hrow). lia. }
      assert (Hld : length didx = length dst) by (symmetry; exact (Forall2_len _ _ _ HFd)).
      assert (Hnotin : forall c k, index_of c (cols t1) = Some k -> ~ In c dst -> ~ In k didx).
      { intros c k Hk Hn Hin. destruct (Forall2_index_in _ _ _ k HFd Hin) as [d [Hd1' Hd2]].
        apply Hn. rewrite (index_of_inj _ _ _ _ Hk Hd2). exact Hd1'. }
      split; [rewrite length_set_cells; exact Hl1|]. split; [|split].
      * intros c Hc. destruct (In_nth_error _ _ Hc) as [j Hj].
        destruct (Forall2_index_nth _ _ _ j c HFs Hj) as [k [_ Hck]].
        unfold cell_at. cbn [cols]. rewrite (Hidx1 c k Hck).
        rewrite set_cells_other; [exact (Hsrc c k Hc Hck)|].
        apply (Hnotin c k (Hidx1 c k Hck)). intro Hin. exact (NoDup_app_disjoint _ _ c Hnd Hc Hin).
      * intros j d Hj. destruct (Forall2_index_nth _ _ _ j d HFd Hj) as [k [Hkj Hdk]].
        unfold cell_at. cbn [cols]. rewrite Hdk.
        rewrite (set_cells_get didx (map pval_cell vals) (h (gs r)) j k Hndi);
          [| rewrite map_length; lia | exact Hkj | rewrite Hl1; exact (index_of_lt _ _ _ Hdk)].
        assert (Hjl : j < length vals) by (rewrite Hlv; apply nth_error_Some; congruence).
        rewrite (nth_indep _ CNa (pval_cell (PStr s_na))); [|rewrite map_length; exact Hjl].
        apply map_nth.
      * intros c Hc Hns Hnd_c. destruct (index_of_some c (cols t) Hc) as [k Hk].
        unfold cell_at at 1. cbn [cols]. rewrite (Hidx1 c k Hk).
        rewrite set_cells_other; [|exact (Hnotin c k (Hidx1 c k Hk) Hnd_c)].
        pose proof (Hoth c Hc Hns Hnd_c) as E. unfold cell_in in E. rewrite (Hidx1 c k Hk) in E. exact E.
    + split; [exact Hl1|]. split; [|split].
      * intros c Hc. destruct (In_nth_error _ _ Hc) as [j Hj].
        destruct (Forall2_index_nth _ _ _ j c HFs Hj) as [k [_ Hck]].
        unfold cell_at. cbn [cols]. rewrite (Hidx1 c k Hck). exact (Hsrc c k Hc Hck).
      * intros j d Hj. apply nth_error_In in Hj. exact (Hdna d Hj).
      * intros c Hc Hns Hnd_c. exact (Hoth c Hc Hns Hnd_c).
  - intros -> r Hr Hnone. cbn [negb] in Emiss. rewrite andb_true_r in Emiss.
    unfold rect in Hrect. rewrite Forall_forall in Hrect.
    rewrite <- (Hkey r (Hrect r Hr)) in Hnone.
    assert (X : existsb (fun r0 => match look r0 with Some _ => false | None => true end) (rows t1) = true).
    { apply existsb_exists. exists (h (gs r)). split; [|rewrite Hnone; reflexivity].
      rewrite Hr1, map_map. apply in_map_iff. exists r. split; [reflexivity | exact Hr]. }
    pose proof (eq_trans (eq_sym X) Emiss) as Y. discriminate Y.
Qed.

(* integer_sources only guards the fragment (no text in those columns): it has
   no other effect on the result *)
Lemma remap_integer_sources_irrelevant src dst ml ig ints t t' :
  do_remap_columns src dst ml ig ints t = Ok t' -> do_remap_columns src dst ml ig [] t = Ok t'.
Proof.
  unfold do_remap_columns. intro H.
  match type of H with context [mapM ?f src] => destruct (mapM f src) as [sidx|] end; cbn [bind] in *; [|discriminate].
  match type of H with (if ?b then _ else _) = _ => destruct b; [discriminate|] end.
  cbn [flat_map]. 
  assert (E : forall l : list (list cell),
             existsb (fun r : list cell => existsb (fun i => match get_cell i r with CStr _ => true | _ => false end) []) l = false).
  { intro l. induction l as [|r l IH]; cbn [existsb]; [reflexivity | exact IH]. }
  rewrite E. exact H.
Qed.

(* ------------------------------------------------------------ merge_consecutive *)

(* Documented: "Merge consecutive rows with same column value": a row is
   merged into (removed after) the row before it iff both have the event code
   in column_name and agree on all match columns (n/a equals n/a); so every
   maximal run of such rows collapses into its first row. *)
Fixpoint adj_removed (code : list cell -> bool) (keq : list cell -> list cell -> bool)
         (prev : option (list cell)) (rs : list (list cell)) : list bool :=
  match rs with
  | [] => []
  | r :: rest =>
      (match prev with Some p => code p && code r && keq r p | None => false end)
        :: adj_removed code keq (Some r) rest
  end.

Definition keq_of (key : list cell -> list cell) (r p : list cell) : bool :=
  forallb (fun q => cell_eqb (fst q) (snd q)) (combine (key r) (key p)).

Lemma remove_groups_flags key code : forall rs prev ig c popt,
  match popt with Some p => p = prev /\ ig = code p | None => ig = false end ->
  (ig = true -> 1 <= c) ->
  map (fun g => negb (Nat.eqb 0 g)) (remove_groups_loop key code prev ig c rs)
  = adj_removed code (keq_of key) popt rs.
Proof.
  induction rs as [|r rs IH]; intros prev ig c popt Hp Hc; cbn [remove_groups_loop adj_removed map]; [reflexivity|].
  destruct (code r) eqn:Er; cbn [negb].
  - destruct ig eqn:Eig; cbn [negb].
    + destruct popt as [p|]; [|discriminate]. destruct Hp as [-> Hcp]. rewrite <- Hcp. cbn [andb].
      fold (keq_of key r prev). destruct (keq_of key r prev) eqn:Ek; cbn [map].
      * f_equal; [destruct c; [specialize (Hc eq_refl); lia | reflexivity]|].
        apply IH; [split; [reflexivity | symmetry; exact Er] | exact Hc].
      * f_equal. apply IH; [split; [reflexivity | symmetry; exact Er] | intros _; lia].
    + cbn [map]. f_equal.
      * destruct popt as [p|]; [|reflexivity]. destruct Hp as [_ Hcp]. rewrite <- Hcp. reflexivity.
      * apply IH; [split; [reflexivity | symmetry; exact Er] | intros _; lia].
  - cbn [map]. f_equal.
    + destruct popt as [p|]; [|reflexivity]. rewrite andb_false_r. reflexivity.
    + apply IH; [split; [reflexivity | symmetry; exact Er] | discriminate].
Qed.

(* the rows compared by name: the present match columns and the column itself *)
Definition same_on (t : table) (names : list str) (a b : list cell) : bool :=
  forallb (fun c => cell_eqb (cell_at t c a) (cell_at t c b)) names.

Lemma keq_names t (names : list str) (a b : list cell) :
  (forall c, In c names -> has_col t c = true) ->
  keq_of (fun r => map (fun i => get_cell i r)
                       (flat_map (fun c => match index_of c (cols t) with Some i => [i] | None => [] end) names)) a b
  = same_on t names a b.
Proof.
  intro H. unfold keq_of, same_on. induction names as [|c names IH]; cbn [flat_map map combine forallb]; [reflexivity|].
  destruct (index_of_some c (cols t) (H c (or_introl eq_refl))) as [i Hi]. unfold cell_at at 1 2. rewrite Hi.
  cbn [app map combine forallb fst snd]. f_equal. apply IH. intros x Hx. apply H. right. exact Hx.
Qed.

Lemma flat_map_index_filter t (names : list str) :
  flat_map (fun c => match index_of c (cols t) with Some i => [i] | None => [] end) names
  = flat_map (fun c => match index_of c (cols t) with Some i => [i] | None => [] end) (filter (has_col t) names).
Proof.
  induction names as [|c names IH]; cbn [flat_map filter]; [reflexivity|].
  destruct (has_col t c) eqn:E.
  - cbn [flat_map]. rewrite IH. reflexivity.
  - rewrite (index_of_none _ _ E). cbn [app]. exact IH.
Qed.

Definition merge_names (t : table) (cn : str) (mc : option (list str)) : list str :=
  filter (has_col t) (match mc with Some l => l | None => [] end) ++ [cn].

Definition merge_flags (t : table) (cn : str) (code : pval) (mc : option (list str)) : list bool :=
  adj_removed (fun r => cell_eq_pval (cell_at t cn r) code) (same_on t (merge_names t cn mc)) None (rows t).

Lemma adj_removed_no_code code keq : forall rs prev,
  existsb code rs = false -> adj_removed code keq prev rs = map (fun _ => false) rs.
Proof.
  induction rs as [|r rs IH]; intros prev H; cbn [adj_removed map]; [reflexivity|].
  cbn [existsb] in H. apply orb_false_iff in H as [H1 H2]. rewrite H1, (IH (Some r) H2).
  f_equal. destruct prev; [rewrite andb_false_r|]; reflexivity.
Qed.

Lemma existsb_ext' {A} (f g : A -> bool) l : (forall x, f x = g x) -> existsb f l = existsb g l.
Proof. intro H. induction l as [|x l IH]; cbn [existsb]; [reflexivity | rewrite H, IH; reflexivity]. Qed.

Lemma filter_mask_all_true {A} (l : list A) : filter_mask (map (fun _ => true) l) l = l.
Proof. induction l as [|x l IH]; cbn [map filter_mask]; [reflexivity | rewrite IH; reflexivity]. Qed.

Lemma adj_removed_ext code code' keq keq' prev rs :
  (forall r, code r = code' r) -> (forall a b, keq a b = keq' a b) ->
  adj_removed code keq prev rs = adj_removed code' keq' prev rs.
Proof.
  intros H1 H2. revert prev. induction rs as [|r rs IH]; intro prev; cbn [adj_removed]; [reflexivity|].
  rewrite IH. f_equal. destruct prev as [p|]; [rewrite !H1, H2|]; reflexivity.
Qed.

(* the group numbers computed by the code mark exactly the rows of [merge_flags] *)
Lemma merge_groups_flags t cn code mcols ic :
  index_of cn (cols t) = Some ic ->
  let kidx := flat_map (fun c => match index_of c (cols t) with Some i => [i] | None => [] end) mcols ++ [ic] in
  map (fun g => negb (Nat.eqb 0 g))
      (remove_groups_loop (fun r => map (fun i => get_cell i r) kidx)
                          (fun r => cell_eq_pval (get_cell ic r) code) [] false 0 (rows t))
  = merge_flags t cn code (Some mcols).
Proof.
  intros Hic kidx. rewrite (remove_groups_flags _ _ (rows t) [] false 0 None eq_refl); [|discriminate].
  unfold merge_flags, merge_names. apply adj_removed_ext.
  - intro r. unfold cell_at. rewrite Hic. reflexivity.
  - intros a b. rewrite <- keq_names.
    + unfold kidx. rewrite flat_map_app, <- flat_map_index_filter. cbn [flat_map]. rewrite Hic. rewrite app_nil_r. reflexivity.
    + intros c Hc. apply in_app_or in Hc as [Hc|[<-|[]]]; [apply filter_In in Hc; tauto | exact (index_of_mem _ _ _ Hic)].
Qed.

(* without set_durations: the result is the table without the merged rows;
   every other row is untouched and the order is kept *)
Lemma merge_consecutive_meaning cn code ig mc t t' :
  do_merge_consecutive all_fixes cn code false ig mc t = Ok t' ->
  has_col t cn = true /\
  (ig = false -> forall c, In c (match mc with Some l => l | None => [] end) -> has_col t c = true) /\
  t' = {| cols := cols t; rows := filter_mask (map negb (merge_flags t cn code mc)) (rows t) |}.
Proof.
  intro H. unfold do_merge_consecutive in H. cbn [andb] in H.
  destruct (negb ig && negb (has_col t cn)) eqn:E1; [discriminate|].
  set (mcols := match mc with Some l => l | None => [] end).
  assert (Emc : match mc with Some l => Ok l | None => if fx_match all_fixes then Ok [] else Exn TypeError end = Ok mcols)
    by (unfold mcols; destruct mc; reflexivity).
  rewrite Emc in H. cbn [bind] in H.
  destruct (negb ig && existsb (fun c => negb (has_col t c)) mcols) eqn:E2; [discriminate|].
  destruct (index_of cn (cols t)) as [ic|] eqn:Eic; [|discriminate].
  split; [exact (index_of_mem _ _ _ Eic)|]. split.
  { intros -> c Hc. cbn [negb andb] in E2. destruct (has_col t c) eqn:Ec; [reflexivity|].
    assert (X : existsb (fun c0 => negb (has_col t c0)) mcols = true).
    { apply existsb_exists. exists c. split; [exact Hc | rewrite Ec; reflexivity]. }
    congruence. }
  assert (Hflags : merge_flags t cn code mc = merge_flags t cn code (Some mcols)).
  { unfold merge_flags, merge_names, mcols. destruct mc; reflexivity. }
  cbv zeta in H.
  destruct (negb (existsb (fun r => cell_eq_pval (get_cell ic r) code) (rows t))) eqn:Ex.
  - injection H as <-. apply negb_true_iff in Ex.
    unfold merge_flags. rewrite adj_removed_no_code.
    + rewrite map_map. cbn [negb]. rewrite filter_mask_all_true. destruct t; reflexivity.
    + rewrite <- Ex. apply existsb_ext'. intro r. unfold cell_at. rewrite Eic. reflexivity.
  - cbn [bind] in H. injection H as <-. f_equal.
    rewrite Hflags, <- (merge_groups_flags t cn code mcols ic Eic). rewrite map_map.
    f_equal. apply map_ext. intro g. rewrite negb_involutive. reflexivity.
Qed.

(* --- set_durations: the first row of a merged run spans to the latest end of
   the run *)

Definition num0 (c : cell) : Z := match c with CNum z => z | _ => 0%Z end.
(* end of a row: onset + duration, n/a counted as 0 *)
Definition ext0 (io id : nat) (r : list cell) : Z := (num0 (get_cell io r) + num0 (get_cell id r))%Z.
(* duration := end - onset (n/a when the row has no onset) *)
Definition set_dur (io id : nat) (r : list cell) (e : Z) : list cell :=
  set_nth id (match get_cell io r with CNum o => CNum (e - o) | _ => CNa end) r.

(* the rows merged into the row just before [rs]: the leading flagged rows *)
Fixpoint block (rs : list (list cell)) (fl : list bool) : list (list cell) :=
  match rs, fl with
  | r :: rs', true :: fl' => r :: block rs' fl'
  | _, _ => []
  end.

(* every row that is followed by merged rows gets the latest end of itself and
   those rows; nothing else changes *)
Fixpoint upd (io id : nat) (rs : list (list cell)) (fl : list bool) : list (list cell) :=
  match rs, fl with
  | r :: rs', f :: fl' =>
      (if f then r
       else match block rs' fl' with
            | [] => r
            | b :: B => set_dur io id r (Z.max (fold_left Z.max (map (ext0 io id) (b :: B)) (ext0 io id b)) (ext0 io id r))
            end) :: upd io id rs' fl'
  | _, _ => rs
  end.

Fixpoint relabel (code : list cell -> bool) (c : nat) (rs : list (list cell)) (fl : list bool) : list nat :=
  match rs, fl with
  | r :: rs', f :: fl' =>
      if f then c :: relabel code c rs' fl'
      else 0 :: relabel code (if code r then S c else c) rs' fl'
  | _, _ => []
  end.

(* a flagged row follows a row with the code and has the code itself *)
Fixpoint consistent (code : list cell -> bool) (ig : bool) (rs : list (list cell)) (fl : list bool) : Prop :=
  match rs, fl with
  | r :: rs', f :: fl' => (f = true -> ig = true /\ code r = true) /\ consistent code (code r) rs' fl'
  | [], [] => True
  | _, _ => False
  end.

Lemma loop_relabel key code : forall rs prev ig c popt,
  match popt with Some p => p = prev /\ ig = code p | None => ig = false end ->
  remove_groups_loop key code prev ig c rs = relabel code c rs (adj_removed code (keq_of key) popt rs)
  /\ consistent code ig rs (adj_removed code (keq_of key) popt rs).
Proof.
  induction rs as [|r rs IH]; intros prev ig c popt Hp; cbn [remove_groups_loop adj_removed relabel consistent];
    [split; [reflexivity | exact I]|].
  destruct (code r) eqn:Er; cbn [negb].
  - destruct ig eqn:Eig; cbn [negb].
    + destruct popt as [p|]; [|discriminate]. destruct Hp as [-> Hcp]. rewrite <- Hcp. cbn [andb].
      fold (keq_of key r prev). destruct (keq_of key r prev) eqn:Ek.
      * destruct (IH r true c (Some r) (conj eq_refl (eq_sym Er))) as [E1 E2]. rewrite E1. split; [reflexivity|].
        split; [intros _; split; reflexivity | exact E2].
      * destruct (IH r true (S c) (Some r) (conj eq_refl (eq_sym Er))) as [E1 E2]. rewrite E1. split; [reflexivity|].
        split; [discriminate | exact E2].
    + assert (Ef : match popt with Some p => code p && true && keq_of key r p | None => false end = false).
      { destruct popt as [p|]; [|reflexivity]. destruct Hp as [_ Hcp]. rewrite <- Hcp. reflexivity. }
      rewrite Ef. destruct (IH r true (S c) (Some r) (conj eq_refl (eq_sym Er))) as [E1 E2]. rewrite E1.
      split; [reflexivity|]. split; [discriminate | exact E2].
  - assert (Ef : match popt with Some p => code p && false && keq_of key r p | None => false end = false).
    { destruct popt as [p|]; [rewrite andb_false_r|]; reflexivity. }
    rewrite Ef. destruct (IH r false c (Some r) (conj eq_refl (eq_sym Er))) as [E1 E2]. rewrite E1.
    split; [reflexivity|]. split; [discriminate | exact E2].
Qed.

Lemma relabel_bound code : forall rs fl c ig,
  consistent code ig rs fl ->
  Forall (fun l => l = 0 \/ (if ig then c else S c) <= l) (relabel code c rs fl).
Proof.
  induction rs as [|r rs IH]; intros fl c ig H; destruct fl as [|f fl]; cbn [relabel]; try constructor.
  cbn [consistent] in H. destruct H as [Hf Hc]. destruct f.
  - destruct (Hf eq_refl) as [-> Er]. constructor; [right; lia|].
    specialize (IH fl c (code r) Hc). rewrite Er in IH. exact IH.
  - constructor; [left; reflexivity|].
    specialize (IH fl (if code r then S c else c) (code r) Hc).
    eapply Forall_impl; [|exact IH]. intros l [Hl|Hl]; [left; exact Hl | right].
    destruct (code r), ig; lia.
Qed.

Lemma row_extent_num io id r : numrow io id r -> row_extent io id r = Ok (ext0 io id r).
Proof.
  intros [H1 H2]. unfold row_extent, num_or_zero, ext0, num0.
  destruct (get_cell io r); try discriminate; destruct (get_cell id r); try discriminate; reflexivity.
Qed.

Lemma mapM_row_extent io id rs : Forall (numrow io id) rs -> mapM (row_extent io id) rs = Ok (map (ext0 io id) rs).
Proof.
  intro H. induction H as [|r rs Hr Hrs IH]; cbn [mapM map]; [reflexivity|].
  rewrite (row_extent_num io id r Hr), IH. reflexivity.
Qed.

Lemma numrow_set_dur io id r e : numrow io id r -> numrow io id (set_dur io id r e).
Proof.
  intros [H1 H2]. unfold set_dur.
  set (nd := match get_cell io r with CNum o => CNum (e - o) | _ => CNa end).
  assert (Hnd : numeric_cell nd = true) by (unfold nd; destruct (get_cell io r); reflexivity).
  split.
  - destruct (get_cell_set_nth io id nd r) as [E|[_ E]]; rewrite E; assumption.
  - destruct (get_cell_set_nth id id nd r) as [E|[_ E]]; rewrite E; assumption.
Qed.

(* one iteration of _update_durations, computed *)
Lemma update_group_value io id L g rs a :
  first_index g L = Some (S a) -> Forall (numrow io id) rs ->
  let exts := map (ext0 io id) (filter_mask (map (Nat.eqb g) L) rs) in
  update_group io id L g rs
  = Ok (set_nth a (set_dur io id (nth a rs []) (Z.max (fold_left Z.max exts (hd 0%Z exts)) (ext0 io id (nth a rs [])))) rs).
Proof.
  intros Ha HP exts. unfold update_group. rewrite Ha.
  rewrite (mapM_row_extent io id _ (Forall_filter_mask _ _ _ HP)). cbn [bind]. cbv zeta.
  assert (Hnil : numrow io id []) by (split; rewrite get_cell_nil; reflexivity).
  pose proof (Forall_nth_default (numrow io id) rs [] a HP Hnil) as Harow.
  rewrite (row_extent_num io id _ Harow). cbn [bind]. fold exts.
  unfold set_dur. destruct Harow as [H1 _].
  destruct (get_cell io (nth a rs [])) eqn:Ec; [discriminate H1 | reflexivity | reflexivity].
Qed.

Lemma update_group_cons io id l0 L g r rs :
  l0 <> g -> match L with x :: _ => x <> g | [] => True end ->
  update_group io id (l0 :: L) g (r :: rs) = (let* X := update_group io id L g rs in Ok (r :: X)).
Proof.
  intros Hl0 Hhd. unfold update_group. cbn [first_index].
  destruct (Nat.eqb l0 g) eqn:E; [apply Nat.eqb_eq in E; contradiction|].
  destruct (first_index g L) as [[|a]|] eqn:Ef; cbn [option_map bind].
  - exfalso. destruct L as [|x L]; [discriminate|]. cbn [first_index] in Ef.
    destruct (Nat.eqb x g) eqn:Ex; [apply Nat.eqb_eq in Ex; contradiction|].
    destruct (first_index g L); discriminate.
  - cbn [map filter_mask]. rewrite Nat.eqb_sym, E. cbn [nth].
    destruct (mapM (row_extent io id) (filter_mask (map (Nat.eqb g) L) rs)) as [exts|]; cbn [bind]; [|reflexivity].
    destruct (row_extent io id (nth a rs [])) as [za|]; cbn [bind]; [|reflexivity].
    destruct (get_cell io (nth a rs [])); reflexivity.
  - reflexivity.
Qed.

Lemma update_durations_cons io id l0 L gs r rs :
  Forall (fun g => l0 <> g /\ match L with x :: _ => x <> g | [] => True end) gs ->
  update_durations io id (l0 :: L) gs (r :: rs) = (let* X := update_durations io id L gs rs in Ok (r :: X)).
Proof.
  intro H. revert rs. induction H as [|g gs [Hg1 Hg2] Hgs IH]; intro rs; cbn [update_durations bind]; [reflexivity|].
  rewrite (update_group_cons io id l0 L g r rs Hg1 Hg2).
  destruct (update_group io id L g rs) as [X|]; cbn [bind]; [apply IH | reflexivity].
Qed.

(* the rows carrying the label of a leading block are that block *)
Lemma filter_none {A} (L : list nat) (rs : list A) g :
  Forall (fun l => l <> g) L -> filter_mask (map (Nat.eqb g) L) rs = [].
Proof.
  intro H. revert rs. induction H as [|l L Hl HL IH]; intros [|r rs]; cbn [map filter_mask]; try reflexivity.
  destruct (Nat.eqb g l) eqn:E; [apply Nat.eqb_eq in E; congruence | apply IH].
Qed.

Lemma lead_block code : forall rs fl c,
  consistent code true rs fl -> 1 <= c ->
  filter_mask (map (Nat.eqb c) (relabel code c rs fl)) rs = block rs fl.
Proof.
  induction rs as [|r rs IH]; intros fl c H Hc; destruct fl as [|f fl]; cbn [relabel block map filter_mask]; try reflexivity.
  cbn [consistent] in H. destruct H as [Hf Hcons]. destruct f; cbn [map filter_mask].
  - rewrite Nat.eqb_refl. destruct (Hf eq_refl) as [_ Er]. rewrite Er in Hcons. rewrite (IH fl c Hcons Hc). reflexivity.
  - destruct (Nat.eqb c 0) eqn:E; [apply Nat.eqb_eq in E; lia|].
    apply filter_none. pose proof (relabel_bound code rs fl (if code r then S c else c) (code r) Hcons) as HB.
    eapply Forall_impl; [|exact HB]. intros l [Hl|Hl]; [lia|]. destruct (code r); lia.
Qed.

Definition good_gs (lead : option nat) (L : list nat) (gs : list nat) : Prop :=
  StronglySorted lt gs /\ forall g, In g gs <-> (g <> 0 /\ In g L /\ lead <> Some g).

Lemma sorted_head_min g gs :
  StronglySorted lt gs -> In g gs -> (forall x, In x gs -> g <= x) -> exists gs', gs = g :: gs'.
Proof.
  intros Hs Hin Hmin. destruct gs as [|x gs']; [destruct Hin|]. exists gs'. f_equal.
  destruct Hin as [->|Hin]; [reflexivity|]. inversion Hs as [|? ? _ Hx]; subst. rewrite Forall_forall in Hx.
  specialize (Hx g Hin). specialize (Hmin x (or_introl eq_refl)). lia.
Qed.

Lemma upd_equiv io id code : forall rs fl c ig gs,
  consistent code ig rs fl -> (ig = true -> 1 <= c) -> Forall (numrow io id) rs ->
  good_gs (match fl with true :: _ => Some c | _ => None end) (relabel code c rs fl) gs ->
  update_durations io id (relabel code c rs fl) gs rs = Ok (upd io id rs fl).
Proof.
  induction rs as [|r rs IH]; intros fl c ig gs Hcons Hc HP Hgs.
  - destruct fl; cbn [relabel upd] in *; destruct Hgs as [_ Hmem];
      (destruct gs as [|g gs]; [reflexivity | destruct (proj1 (Hmem g) (or_introl eq_refl)) as [_ [[] _]]]).
  - destruct fl as [|f fl]; [destruct Hcons|]. cbn [consistent] in Hcons. destruct Hcons as [Hf Hcons].
    inversion HP as [|? ? Hr HP']; subst.
    destruct f; cbn [relabel upd] in Hgs |- *.
    + (* a merged row: unchanged; its label is not processed here *)
      destruct (Hf eq_refl) as [-> Er]. specialize (Hc eq_refl). rewrite Er in Hcons.
      pose proof (relabel_bound code rs fl c true Hcons) as HB.
      rewrite update_durations_cons.
      * rewrite (IH fl c true gs Hcons (fun _ => Hc) HP'); [reflexivity|].
        destruct Hgs as [Hs Hmem]. split; [exact Hs|]. intro g. rewrite (Hmem g). cbn [In].
        split.
        -- intros [H0 [[Heq|Hin] Hl]]; [congruence|]. split; [exact H0|]. split; [exact Hin|].
           destruct fl as [|[] fl]; [discriminate | exact Hl | discriminate].
        -- intros [H0 [Hin Hl]]. split; [exact H0|]. split; [right; exact Hin|].
           intro E. injection E as <-.
           destruct rs as [|r2 rs]; [destruct fl; destruct Hin|]. destruct fl as [|[] fl]; cbn [relabel] in Hin.
           ++ destruct Hin.
           ++ apply Hl. reflexivity.
           ++ destruct Hin as [Hin|Hin]; [congruence|]. cbn [consistent] in Hcons. destruct Hcons as [_ Hc2].
              pose proof (relabel_bound code rs fl (if code r2 then S c else c) (code r2) Hc2) as HB2.
              rewrite Forall_forall in HB2. destruct (HB2 c Hin) as [E|E]; [lia|]. destruct (code r2); lia.
      * destruct Hgs as [_ Hmem]. apply Forall_forall. intros g Hg. destruct (proj1 (Hmem g) Hg) as [H0 [Hin Hl]].
        split; [intro E; apply Hl; rewrite E; reflexivity|].
        destruct rs as [|r2 rs]; [destruct fl; exact I|]. destruct fl as [|[] fl]; cbn [relabel]; try exact I.
        -- intro E. apply Hl. rewrite E. reflexivity.
        -- congruence.
    + (* a kept row *)
      set (c' := if code r then S c else c) in *.
      destruct rs as [|r2 rs].
      { destruct fl; cbn [relabel block upd] in *; destruct Hgs as [_ Hmem];
          (destruct gs as [|g gs]; [reflexivity|]; destruct (proj1 (Hmem g) (or_introl eq_refl)) as [H0 [[E|[]] _]]; congruence). }
      destruct fl as [|f2 fl]; [destruct Hcons|].
      destruct f2.
      * (* r is followed by a merged run *)
        cbn [consistent] in Hcons. destruct Hcons as [Hf2 Hcons2]. destruct (Hf2 eq_refl) as [Ecr Er2].
        assert (Ec' : c' = S c) by (unfold c'; rewrite Ecr; reflexivity).
        assert (Hcons' : consistent code true (r2 :: rs) (true :: fl)).
        { cbn [consistent]. split; [intros _; split; [reflexivity | exact Er2] | exact Hcons2]. }
        pose proof (relabel_bound code (r2 :: rs) (true :: fl) c' true Hcons') as HB.
        set (L' := relabel code c' (r2 :: rs) (true :: fl)) in *.
        assert (HL' : exists Lt, L' = c' :: Lt) by (unfold L'; cbn [relabel]; eexists; reflexivity).
        destruct HL' as [Lt HLt].
        destruct Hgs as [Hs Hmem].
        assert (Hin0 : In c' gs).
        { apply Hmem. split; [lia|]. split; [right; rewrite HLt; left; reflexivity | discriminate]. }
        destruct (sorted_head_min c' gs Hs Hin0) as [gs' ->].
        { intros x Hx. destruct (proj1 (Hmem x) Hx) as [H0 [[E|Hin] _]]; [congruence|].
          rewrite Forall_forall in HB. destruct (HB x Hin) as [E|E]; [congruence | exact E]. }
        cbn [update_durations].
        assert (Hfi : first_index c' (0 :: L') = Some 1).
        { cbn [first_index]. destruct (Nat.eqb 0 c') eqn:E; [apply Nat.eqb_eq in E; lia|]. rewrite HLt. cbn [first_index].
          rewrite Nat.eqb_refl. reflexivity. }
        rewrite (update_group_value io id (0 :: L') c' (r :: r2 :: rs) 0 Hfi HP). cbv zeta. cbn [bind nth set_nth].
        assert (Hblk : filter_mask (map (Nat.eqb c') (0 :: L')) (r :: r2 :: rs) = block (r2 :: rs) (true :: fl)).
        { cbn [map filter_mask]. destruct (Nat.eqb c' 0) eqn:E; [apply Nat.eqb_eq in E; lia|].
          unfold L'. apply (lead_block code (r2 :: rs) (true :: fl) c' Hcons'). lia. }
        rewrite Hblk. cbn [block map hd].
        set (r' := set_dur io id r _).
        rewrite update_durations_cons.
        -- unfold L'. rewrite (IH (true :: fl) c' true gs' Hcons' (fun _ => ltac:(lia)) HP'); [reflexivity|].
           fold L'.
           inversion Hs as [|? ? Hs' Hlt]; subst. split; [exact Hs'|]. intro g. split.
           ++ intro Hg. destruct (proj1 (Hmem g) (or_intror Hg)) as [H0 [[E|Hin] _]]; [congruence|].
              split; [exact H0|]. split; [exact Hin|]. rewrite Forall_forall in Hlt. specialize (Hlt g Hg).
              intro E. injection E as <-. lia.
           ++ intros [H0 [Hin Hl]]. destruct (proj2 (Hmem g)) as [E|Hg];
                [split; [exact H0|]; split; [right; exact Hin | discriminate] | congruence | exact Hg].
        -- inversion Hs as [|? ? _ Hlt]; subst. apply Forall_forall. intros g Hg.
           destruct (proj1 (Hmem g) (or_intror Hg)) as [H0 _]. split; [lia|].
           rewrite HLt. rewrite Forall_forall in Hlt. specialize (Hlt g Hg). lia.
      * (* r is followed by another kept row: unchanged *)
        cbn [block].
        assert (Hcons' : consistent code (code r) (r2 :: rs) (false :: fl)) by exact Hcons.
        rewrite update_durations_cons.
        -- rewrite (IH (false :: fl) c' (code r) gs Hcons'); [reflexivity | | exact HP' |].
           ++ intro E. unfold c'. rewrite E. lia.
           ++ destruct Hgs as [Hs Hmem]. split; [exact Hs|]. intro g. rewrite (Hmem g). cbn [In]. split.
              ** intros [H0 [[E|Hin] Hl]]; [congruence|]. repeat split; [exact H0 | exact Hin | discriminate].
              ** intros [H0 [Hin _]]. repeat split; [exact H0 | right; exact Hin | discriminate].
        -- destruct Hgs as [_ Hmem]. apply Forall_forall. intros g Hg. destruct (proj1 (Hmem g) Hg) as [H0 _].
           split; [congruence|]. cbn [relabel]. congruence.
Qed.

Lemma merge_flags_eq t cn code mcols ic :
  index_of cn (cols t) = Some ic ->
  adj_removed (fun r => cell_eq_pval (get_cell ic r) code)
    (keq_of (fun r => map (fun i => get_cell i r)
                          (flat_map (fun c => match index_of c (cols t) with Some i => [i] | None => [] end) mcols ++ [ic])))
    None (rows t)
  = merge_flags t cn code (Some mcols).
Proof.
  intro Hic. unfold merge_flags, merge_names. apply adj_removed_ext.
  - intro r. unfold cell_at. rewrite Hic. reflexivity.
  - intros a b. rewrite <- keq_names.
    + rewrite flat_map_app, <- flat_map_index_filter. cbn [flat_map]. rewrite Hic, app_nil_r. reflexivity.
    + intros c Hc. apply in_app_or in Hc as [Hc|[<-|[]]]; [apply filter_In in Hc; tauto | exact (index_of_mem _ _ _ Hic)].
Qed.

Lemma upd_all_false io id rs : upd io id rs (map (fun _ => false) rs) = rs.
Proof.
  induction rs as [|r rs IH]; cbn [map upd]; [reflexivity|]. rewrite IH.
  destruct rs; reflexivity.
Qed.

Lemma fold_max_ge_init l : forall a, a <= fold_left Nat.max l a.
Proof. induction l as [|x l IH]; intro a; cbn [fold_left]; [lia|]. specialize (IH (Nat.max a x)). lia. Qed.

Lemma fold_max_ge l : forall a g, In g l -> g <= fold_left Nat.max l a.
Proof.
  induction l as [|x l IH]; intros a g H; [destruct H|]. cbn [fold_left]. destruct H as [->|H].
  - pose proof (fold_max_ge_init l (Nat.max a g)). lia.
  - apply IH. exact H.
Qed.

Lemma seq_sorted a n : StronglySorted lt (seq a n).
Proof.
  revert a. induction n as [|n IH]; intro a; cbn [seq]; constructor; [apply IH|].
  apply Forall_forall. intros x Hx. apply in_seq in Hx. lia.
Qed.

Lemma filter_sorted {A} (R : A -> A -> Prop) p l : StronglySorted R l -> StronglySorted R (filter p l).
Proof.
  intro H. induction H as [|x l Hl IH Hx]; cbn [filter]; [constructor|].
  destruct (p x); [|exact IH]. constructor; [exact IH|]. rewrite Forall_forall in *. intros y Hy.
  apply filter_In in Hy. apply Hx. tauto.
Qed.

(* with set_durations: the merged rows disappear as before, and every row
   that absorbs a run gets duration = (latest end of itself and the run) - onset;
   no other cell of any row changes and the order is kept *)
Lemma merge_consecutive_durations_meaning cn code ig mc t t' :
  do_merge_consecutive all_fixes cn code true ig mc t = Ok t' ->
  col_all numeric_cell s_onset t = true -> col_all numeric_cell s_duration t = true ->
  exists io id, index_of s_onset (cols t) = Some io /\ index_of s_duration (cols t) = Some id /\
    has_col t cn = true /\
    t' = {| cols := cols t;
            rows := filter_mask (map negb (merge_flags t cn code mc))
                                (upd io id (rows t) (merge_flags t cn code mc)) |}.
Proof.
  intros H Hon Hdu. unfold col_all in Hon, Hdu.
  destruct (index_of s_onset (cols t)) as [io|] eqn:Eio; [|discriminate].
  destruct (index_of s_duration (cols t)) as [id|] eqn:Eid; [|discriminate].
  exists io, id. split; [reflexivity|]. split; [reflexivity|].
  assert (HP : Forall (numrow io id) (rows t)).
  { apply Forall_forall. intros r Hr. rewrite forallb_forall in Hon, Hdu. split; auto. }
  unfold do_merge_consecutive in H. rewrite Eio, Eid in H. cbn [andb] in H.
  destruct (negb ig && negb (has_col t cn)) eqn:E1; [discriminate|].
  destruct (negb (has_col t s_onset)); [discriminate|]. destruct (negb (has_col t s_duration)); [discriminate|].
  set (mcols := match mc with Some l => l | None => [] end).
  assert (Emc : match mc with Some l => Ok l | None => if fx_match all_fixes then Ok [] else Exn TypeError end = Ok mcols)
    by (unfold mcols; destruct mc; reflexivity).
  rewrite Emc in H. cbn [bind] in H.
  destruct (negb ig && existsb (fun c => negb (has_col t c)) mcols) eqn:E2; [discriminate|].
  destruct (index_of cn (cols t)) as [ic|] eqn:Eic; [|discriminate].
  split; [exact (index_of_mem _ _ _ Eic)|].
  assert (Hflags : merge_flags t cn code mc = merge_flags t cn code (Some mcols)).
  { unfold merge_flags, merge_names, mcols. destruct mc; reflexivity. }
  rewrite Hflags. cbv zeta in H.
  destruct (negb (existsb (fun r => cell_eq_pval (get_cell ic r) code) (rows t))) eqn:Ex.
  - injection H as <-. apply negb_true_iff in Ex.
    unfold merge_flags. rewrite adj_removed_no_code.
    + rewrite upd_all_false, map_map. cbn [negb]. rewrite filter_mask_all_true. destruct t; reflexivity.
    + rewrite <- Ex. apply existsb_ext'. intro r. unfold cell_at. rewrite Eic. reflexivity.
  - set (key := fun r : list cell => map (fun i => get_cell i r)
                 (flat_map (fun c => match index_of c (cols t) with Some i => [i] | None => [] end) mcols ++ [ic])) in H.
    set (codef := fun r : list cell => cell_eq_pval (get_cell ic r) code) in H.
    destruct (loop_relabel key codef (rows t) [] false 0 None eq_refl) as [EL Hcons].
    pose proof (merge_flags_eq t cn code mcols ic Eic) as Efl. fold key codef in Efl. rewrite Efl in EL, Hcons.
    set (fl := merge_flags t cn code (Some mcols)) in *.
    set (L := remove_groups_loop key codef [] false 0 (rows t)) in *.
    set (gs := filter (fun g => existsb (Nat.eqb g) L) (seq 1 (fold_left Nat.max L 0))).
    assert (Hrows1 : exists rows1, update_durations io id L gs (rows t) = Ok rows1 /\
                       t' = {| cols := cols t; rows := filter_mask (map (Nat.eqb 0) L) rows1 |}).
    { cbn [all_fixes fx_gaps] in H. fold gs in H.
      destruct (Nat.ltb 0 (fold_left Nat.max L 0)) eqn:Elt.
      - destruct (update_durations io id L gs (rows t)) as [rows1|]; cbn [bind] in H; [|discriminate].
        injection H as <-. exists rows1. split; reflexivity.
      - cbn [bind] in H. injection H as <-. exists (rows t). split; [|reflexivity].
        apply Nat.ltb_ge in Elt. unfold gs. replace (fold_left Nat.max L 0) with 0 by lia. reflexivity. }
    destruct Hrows1 as [rows1 [Eu ->]].
    assert (Hgood : good_gs (match fl with true :: _ => Some 0 | _ => None end) L gs).
    { assert (Hlead : match fl with true :: _ => Some 0 | _ => None end = None).
      { unfold fl, merge_flags. destruct (rows t); reflexivity. }
      rewrite Hlead. split; [apply filter_sorted; apply seq_sorted|].
      intro g. unfold gs. rewrite filter_In, in_seq. split.
      - intros [Hr Hex]. apply existsb_exists in Hex as [x [Hx Ex2]]. apply Nat.eqb_eq in Ex2. subst x.
        repeat split; [lia | exact Hx | discriminate].
      - intros [H0 [Hin _]]. split; [pose proof (fold_max_ge L 0 g Hin); lia|].
        apply existsb_exists. exists g. split; [exact Hin | apply Nat.eqb_refl]. }
    rewrite EL in Hgood, Eu.
    rewrite (upd_equiv io id codef (rows t) fl 0 false gs Hcons ltac:(discriminate) HP Hgood) in Eu.
    injection Eu as <-. f_equal. f_equal.
    pose proof (merge_groups_flags t cn code mcols ic Eic) as Eg. cbv zeta in Eg. fold key codef L fl in Eg.
    rewrite <- Eg, map_map. apply map_ext. intro g. rewrite negb_involutive. reflexivity.
Qed.

(* in [upd] every row keeps all its cells except, possibly, duration *)
Lemma upd_other_cells io id : forall rs fl,
  length (upd io id rs fl) = length rs /\
  forall k j, j <> id -> get_cell j (nth k (upd io id rs fl) []) = get_cell j (nth k rs []).
Proof.
  induction rs as [|r rs IH]; intro fl; [destruct fl; split; reflexivity|].
  destruct fl as [|f fl]; [split; reflexivity|]. cbn [upd length]. destruct (IH fl) as [Hl Hc].
  split; [rewrite Hl; reflexivity|]. intros k j Hj. destruct k as [|k]; cbn [nth]; [|apply Hc; exact Hj].
  destruct f; [reflexivity|]. destruct (block rs fl); [reflexivity|].
  unfold set_dur. apply get_cell_set_nth_ne. congruence.
Qed.

(* ------------------------------------------------------------ n/a, input *)

(* remap_columns: an n/a source cell is matched and written as the text n/a
   (which the dispatcher reads back as n/a) *)
Lemma src_str_na : src_str CNa = s_na.
Proof. reflexivity. Qed.

(* split_rows: a parent row without onset keeps its n/a onset *)
Lemma strict_num_na : strict_num CNa = CNa.
Proof. reflexivity. Qed.

(* merge_consecutive/set_durations: a row without onset gets an n/a duration *)
Lemma set_dur_no_onset io id r e :
  get_cell io r = CNa -> id < length r -> get_cell id (set_dur io id r e) = CNa.
Proof. intros H Hl. unfold set_dur. rewrite H. apply get_cell_set_nth_eq. exact Hl. Qed.

(* The Dispatcher works on a copy (get_data_file: df.copy()) and no operation
   writes to the frame it is given: in the model the caller's table after the
   call is the value it passed. *)
Definition run_on_input (fx : fixes) (sts : list opstate) (input : table)
  : table * (list opstate * res table) := (input, run_operations fx sts input).

Lemma input_unchanged fx sts input : fst (run_on_input fx sts input) = input.
Proof. reflexivity. Qed.

(* ------------------------------------------------------------ operation lists *)

(* A list is run strictly left to right and every operation sees nothing but the
   table its predecessor returned (tables are positional: columns and rows in
   order, no row labels): the result of  ops1 ++ ops2  is the result of ops2 on
   the result of ops1, and a failure of ops1 is the failure of the whole list. *)
Lemma run_operations_app fx : forall s1 s2 t,
  snd (run_operations fx (s1 ++ s2) t)
  = match snd (run_operations fx s1 t) with
    | Ok t1 => snd (run_operations fx s2 t1)
    | Exn e => Exn e
    end.
Proof.
  induction s1 as [|st s1 IH]; intros s2 t; cbn [app run_operations snd]; [reflexivity|].
  destruct (do_op fx st (prep_data t)) as [st' o]. destruct o as [t1|e]; [|reflexivity].
  destruct (wfb (post_proc_data t1)); [|reflexivity].
  specialize (IH s2 (post_proc_data t1)).
  destruct (run_operations fx (s1 ++ s2) (post_proc_data t1)) as [r1 o1].
  destruct (run_operations fx s1 (post_proc_data t1)) as [r2 o2]. cbn [snd] in *. exact IH.
Qed.

(* one operation through the dispatcher = n/a -> NaN, the operation, NaN -> n/a *)
Lemma run_operations_one fx st t :
  snd (run_operations fx [st] t)
  = match snd (do_op fx st (prep_data t)) with
    | Ok t1 => if wfb (post_proc_data t1) then Ok (post_proc_data t1) else Exn Unmodelled
    | Exn e => Exn e
    end.
Proof.
  cbn [run_operations]. destruct (do_op fx st (prep_data t)) as [st' o]. cbn [snd].
  destruct o as [t1|e]; [|reflexivity]. destruct (wfb (post_proc_data t1)); reflexivity.
Qed.

(* ------------------------------------------------------------ repeated map keys *)

(* the converse of map_find_spec: the first entry with the key is the answer,
   whatever follows it (later entries with the same key are dead) *)
Lemma map_find_first m key pre row post :
  Forall (fun row' => row_key m row' <> key) pre -> row_key m row = key ->
  map_find m key (pre ++ row :: post) = Some (skipn m row).
Proof.
  intros Hpre Hrow. induction Hpre as [|r pre Hr Hpre IH]; cbn [app map_find].
  - fold (row_key m row). rewrite Hrow. rewrite (proj2 (list_str_eqb_spec key key) eq_refl). reflexivity.
  - destruct (list_str_eqb (map pval_str (firstn m r)) key) eqn:E; [|exact IH].
    apply list_str_eqb_spec in E. unfold row_key in Hr. contradiction.
Qed.

(* KeyMap keeps a de-duplicated lookup table (col_map): the entries of map_list
   without those whose key was already listed *)
Fixpoint dedup_keys (m : nat) (seen : list (list str)) (ml : list (list pval)) : list (list pval) :=
  match ml with
  | [] => []
  | row :: r =>
      if existsb (list_str_eqb (row_key m row)) seen then dedup_keys m seen r
      else row :: dedup_keys m (row_key m row :: seen) r
  end.

(* for EVERY key the de-duplicated table answers like first-wins on map_list:
   repeating a key changes neither its own answer nor that of any other key *)
Lemma map_find_dedup m key : forall ml seen,
  (forall s, In s seen -> s <> key) ->
  map_find m key (dedup_keys m seen ml) = map_find m key ml.
Proof.
  induction ml as [|row ml IH]; intros seen Hseen; cbn [dedup_keys map_find]; [reflexivity|].
  fold (row_key m row).
  destruct (existsb (list_str_eqb (row_key m row)) seen) eqn:Ex.
  - apply existsb_exists in Ex as [s [Hs Es]]. apply list_str_eqb_spec in Es.
    destruct (list_str_eqb (row_key m row) key) eqn:Ek.
    + apply list_str_eqb_spec in Ek. exfalso. apply (Hseen s Hs). congruence.
    + apply IH. exact Hseen.
  - cbn [map_find]. fold (row_key m row). destruct (list_str_eqb (row_key m row) key) eqn:Ek; [reflexivity|].
    apply IH. intros s [<-|Hs]; [|apply Hseen; exact Hs].
    intro E. rewrite E in Ek. rewrite (proj2 (list_str_eqb_spec key key) eq_refl) in Ek. discriminate.
Qed.

(* 1 and "1" are the same key *)
Lemma row_key_numeric_text z rest :
  row_key 1 (PNum z :: rest) = row_key 1 (PStr (str_of_Z z) :: rest).
Proof. reflexivity. Qed.

(* ------------------------------------------------------------ table given as a file path *)

(* Reading a tsv file never produces a missing value: every cell is a number or
   the text that stands in the file (None, NA, null, nan, NULL, the empty cell
   ... are ordinary text). *)
Lemma read_cell_not_na b s : read_cell b s <> CNa.
Proof. unfold read_cell. destruct b; [destruct (parse_int s)|]; discriminate. Qed.

Lemma zip_with_Forall {A B C} (P : C -> Prop) (f : A -> B -> C) l m :
  (forall a b, P (f a b)) -> Forall P (zip_with f l m).
Proof. intro H. revert m. induction l as [|x l IH]; intros [|y m]; cbn [zip_with]; constructor; auto. Qed.

Lemma read_table_no_nan cs rs : no_nan (read_table cs rs).
Proof.
  unfold no_nan, read_table. cbn [rows]. apply Forall_forall. intros r Hr.
  apply in_map_iff in Hr as [r0 [<- _]]. apply zip_with_Forall. intros b s. apply read_cell_not_na.
Qed.

Lemma nth_zip_with {A B C} (f : A -> B -> C) l m j da db dc :
  j < length l -> j < length m -> nth j (zip_with f l m) dc = f (nth j l da) (nth j m db).
Proof.
  revert m j. induction l as [|x l IH]; intros [|y m] j Hl Hm; cbn in *; try lia.
  destruct j; [reflexivity|]. apply IH; lia.
Qed.

Lemma nth_map_some {A B} (F : A -> B) l k x d : nth_error l k = Some x -> nth k (map F l) d = F x.
Proof. intro H. apply nth_error_nth. apply map_nth_error. exact H. Qed.

(* a column that holds anything but integers keeps the text of every cell *)
Lemma read_table_text cs rs r j :
  In r rs -> length r = length cs -> j < length cs ->
  forallb (fun r0 => is_int_text (nth j r0 [])) rs = false ->
  forall k, nth_error rs k = Some r ->
  get_cell j (nth k (rows (read_table cs rs)) []) = CStr (nth j r []).
Proof.
  intros Hin Hlen Hj Hnum k Hk. unfold read_table. cbn [rows].
  set (numeric := map (fun j0 => forallb (fun r0 => is_int_text (nth j0 r0 [])) rs) (seq 0 (length cs))).
  rewrite (nth_map_some _ rs k r _ Hk). unfold get_cell.
  rewrite (nth_zip_with read_cell numeric r j false [] CNa);
    [| unfold numeric; rewrite map_length, seq_length; exact Hj | exact (eq_ind_r (fun n => j < n) Hj Hlen)].
  unfold numeric.
  rewrite (nth_indep _ false ((fun j0 => forallb (fun r0 => is_int_text (nth j0 r0 [])) rs) 0));
    [|rewrite map_length, seq_length; exact Hj].
  rewrite (map_nth (fun j0 => forallb (fun r0 => is_int_text (nth j0 r0 [])) rs) (seq 0 (length cs)) 0 j).
  rewrite seq_nth; [|exact Hj]. cbn [plus]. rewrite Hnum. reflexivity.
Qed.

(* the only text that the dispatcher treats as missing is n/a *)
Lemma prep_cell_na_iff s : prep_cell (CStr s) = CNa <-> s = s_na.
Proof.
  cbn [prep_cell]. destruct (str_eqb s s_na) eqn:E; split; intro H; try discriminate; try reflexivity.
  - apply str_eqb_spec. exact E.
  - subst. rewrite str_eqb_refl in E. discriminate.
Qed.

Lemma prep_post_text s : post_cell (prep_cell (CStr s)) = CStr s.
Proof. apply post_prep_cell. discriminate. Qed.

(* Dispatcher.run_operations on a path = on the frame read from it *)
Definition run_path (fx : fixes) (sts : list opstate) (cs : list str) (rs : list (list str))
  : list opstate * res table := run_operations fx sts (read_table cs rs).

Lemma run_path_is_frame fx sts cs rs : run_path fx sts cs rs = run_operations fx sts (read_table cs rs).
Proof. reflexivity. Qed.

(* ------------------------------------------------------------ validation never raises *)

Definition only_unmodelled {A} (r : res A) : Prop := forall e, r = Exn e -> e = Unmodelled.

Lemma ou_ok {A} (a : A) : only_unmodelled (Ok a).
Proof. intros e H. discriminate. Qed.
Lemma ou_exn {A} : only_unmodelled (@Exn A Unmodelled).
Proof. intros e H. injection H as <-. reflexivity. Qed.
Lemma ou_bind {A B} (r : res A) (f : A -> res B) :
  only_unmodelled r -> (forall a, only_unmodelled (f a)) -> only_unmodelled (bind r f).
Proof.
  intros Hr Hf e H. destruct r as [a|e0]; cbn [bind] in H; [exact (Hf a e H)|].
  injection H as <-. apply (Hr e0). reflexivity.
Qed.
Lemma ou_mapM {A B} (f : A -> res B) l : (forall x, only_unmodelled (f x)) -> only_unmodelled (mapM f l).
Proof.
  intro H. induction l as [|x l IH]; cbn [mapM]; [apply ou_ok|].
  apply ou_bind; [apply H|]. intro y. apply ou_bind; [exact IH|]. intro ys. apply ou_ok.
Qed.

Lemma ou_attr k a : only_unmodelled (attr k a).
Proof. unfold attr. destruct (lookup k a); [apply ou_ok | apply ou_exn]. Qed.
Lemma ou_as_str j : only_unmodelled (as_str j).
Proof. destruct j; try apply ou_exn. apply ou_ok. Qed.
Lemma ou_as_bool j : only_unmodelled (as_bool j).
Proof. destruct j; try apply ou_exn. apply ou_ok. Qed.
Lemma ou_as_pval j : only_unmodelled (as_pval j).
Proof. destruct j; try apply ou_exn; apply ou_ok. Qed.
Lemma ou_as_list {A} (f : json -> res A) j : (forall x, only_unmodelled (f x)) -> only_unmodelled (as_list f j).
Proof. intro H. destruct j; try apply ou_exn. cbn [as_list]. apply ou_mapM. exact H. Qed.
Lemma ou_as_opt_list {A} (f : json -> res A) j :
  (forall x, only_unmodelled (f x)) -> only_unmodelled (as_opt_list f j).
Proof.
  intro H. destruct j; try apply ou_exn; cbn [as_opt_list]; [apply ou_ok|].
  apply ou_bind; [apply ou_mapM; exact H | intro x; apply ou_ok].
Qed.

Lemma ou_as_event kv : only_unmodelled (as_event kv).
Proof.
  destruct kv as [name ev]. unfold as_event. destruct ev; try apply ou_exn.
  apply ou_bind.
  { destruct (lookup k_onset_source kvs); [apply ou_as_list; apply ou_as_pval | apply ou_exn]. }
  intro os. apply ou_bind.
  { destruct (lookup k_duration kvs); [apply ou_as_list; apply ou_as_pval | apply ou_exn]. }
  intro ds. apply ou_bind; [|intro cc; apply ou_ok].
  destruct (split_rows_event_fetch (JObj kvs)); [|apply ou_ok].
  apply ou_bind; [apply ou_attr | intro v; apply ou_as_opt_list; apply ou_as_str].
Qed.

Ltac ou_step :=
  first [ apply ou_ok | apply ou_exn | apply ou_attr | apply ou_as_str | apply ou_as_bool | apply ou_as_pval
        | apply ou_as_event
        | (apply ou_as_list; intro) | (apply ou_as_opt_list; intro) | (apply ou_mapM; intro)
        | (apply ou_bind; [|intro]) ].

Lemma ou_to_opstate name a : only_unmodelled (to_opstate name a).
Proof.
  unfold to_opstate.
  repeat match goal with |- only_unmodelled (if ?b then _ else _) => destruct b end;
    repeat ou_step.
  all: try (match goal with |- only_unmodelled (match ?j with _ => _ end) => destruct j end; repeat ou_step).
Qed.

Lemma lookup_In {A} k (kvs : list (str * A)) v : lookup k kvs = Some v -> exists k', In (k', v) kvs.
Proof.
  induction kvs as [|[k0 v0] kvs IH]; cbn [lookup]; [discriminate|].
  destruct (str_eqb k k0); [intro H; injection H as <-; exists k0; left; reflexivity|].
  intro H. destruct (IH H) as [k' Hk']. exists k'. right. exact Hk'.
Qed.

Lemma ou_item_schema_ok item : only_unmodelled (item_schema_ok item).
Proof.
  unfold item_schema_ok. destruct item; try apply ou_ok.
  destruct (lookup k_operation kvs) as [[]|]; try apply ou_ok.
  destruct (negb (mem_str s valid_operation_names)); [apply ou_ok|].
  match goal with |- only_unmodelled (if ?b then _ else _) => destruct b end; [apply ou_ok|].
  destruct (lookup s op_table) as [[sch init]|]; [|apply ou_exn].
  destruct (lookup k_parameters kvs); [apply ou_ok | apply ou_exn].
Qed.

(* an item that passes the schema phase is typed without exception (other than
   leaving the modelled fragment) *)
Lemma ou_typed_item item : item_schema_ok item = Ok true -> only_unmodelled (typed_item item).
Proof.
  intro H. unfold item_schema_ok in H. destruct item; try discriminate.
  destruct (lookup k_operation kvs) as [[| | |name| |]|] eqn:Eop; try discriminate.
  destruct (negb (mem_str name valid_operation_names)); [discriminate|].
  match type of H with (if ?b then _ else _) = _ => destruct b; [discriminate|] end.
  destruct (lookup name op_table) as [[sch init]|] eqn:Et; [|discriminate].
  destruct (lookup k_parameters kvs) as [p|] eqn:Ep; [|discriminate].
  injection H as Hc.
  unfold typed_item, jget_req. rewrite Eop, Ep. cbn [bind]. rewrite Et.
  destruct (lookup_In name op_table (sch, init) Et) as [k' Hin].
  pose proof init_total_all as HT. rewrite Forall_forall in HT.
  destruct (HT (k', (sch, init)) Hin p Hc) as [a Ha]. cbn [snd] in Ha. rewrite Ha. cbn [bind].
  apply ou_to_opstate.
Qed.

(* RemodelerValidator.validate returns a verdict for EVERY JSON value -- any
   nesting, any key spelling -- and never raises (the only other outcome is
   leaving the modelled fragment: an operation outside the eight) *)
Lemma validate_never_raises fx ops : only_unmodelled (validate fx ops).
Proof.
  unfold validate. destruct ops; try apply ou_ok. destruct l as [|item l]; [apply ou_ok|].
  destruct (mapM item_schema_ok (item :: l)) as [oks|e0] eqn:Em.
  - cbn [bind]. destruct (negb (forallb (fun b => b) oks)) eqn:Eall; [apply ou_ok|].
    apply negb_false_iff in Eall.
    change (mapM _ (item :: l)) with (mapM typed_item (item :: l)).
    apply ou_bind; [|intro sts; apply ou_ok].
    assert (G : forall items oks0, mapM item_schema_ok items = Ok oks0 -> forallb (fun b => b) oks0 = true ->
                only_unmodelled (mapM typed_item items)).
    { induction items as [|it items IH]; intros oks0 E1 E2; cbn [mapM] in *; [apply ou_ok|].
      destruct (item_schema_ok it) as [b|] eqn:Eit; cbn [bind] in E1; [|discriminate].
      destruct (mapM item_schema_ok items) as [bs|]; cbn [bind] in E1; [|discriminate].
      injection E1 as <-. cbn [forallb] in E2. apply andb_true_iff in E2 as [-> E2].
      apply ou_bind; [apply ou_typed_item; exact Eit|]. intro st.
      apply ou_bind; [exact (IH bs eq_refl E2) | intro sts; apply ou_ok]. }
    exact (G (item :: l) oks Em Eall).
  - cbn [bind]. intros e H. injection H as <-.
    exact (ou_mapM item_schema_ok (item :: l) ou_item_schema_ok e0 Em).
Qed.

(* ------------------------------------------------------------ declarative forms (audit item 3) *)

(* when a cell counts as one of the listed values: same kind and same content
   (the text "1" is not the number 1; n/a is never a listed value) *)
Definition cell_matches (c : cell) (v : pval) : Prop :=
  match c, v with
  | CStr s, PStr p => s = p
  | CNum z, PNum n => z = n
  | _, _ => False
  end.

Lemma cell_eq_pval_matches c v : cell_eq_pval c v = true <-> cell_matches c v.
Proof.
  destruct c as [s|z|], v as [p|n]; cbn [cell_eq_pval cell_matches]; try (split; [discriminate | intros []]).
  - apply str_eqb_spec.
  - apply Z.eqb_eq.
Qed.

(* remove_rows, stated without the model's own helpers: the columns are kept;
   a row is in the result iff it is in the input and its cell in the named
   column matches none of the listed values; the result is the input with rows
   deleted, i.e. the surviving rows keep their order and multiplicity *)
Lemma remove_rows_declarative cn vals t i :
  index_of cn (cols t) = Some i ->
  exists keep : list cell -> bool,
    do_remove_rows cn vals t = Ok {| cols := cols t; rows := filter keep (rows t) |} /\
    forall r, keep r = true <-> (forall v, In v vals -> ~ cell_matches (get_cell i r) v).
Proof.
  intro Hi. exists (row_kept i vals). split; [exact (proj1 (remove_rows_meaning cn vals t) i Hi)|].
  intro r. unfold row_kept. rewrite forallb_forall. split.
  - intros H v Hv Hm. specialize (H v Hv). apply cell_eq_pval_matches in Hm. rewrite Hm in H. discriminate.
  - intros H v Hv. destruct (cell_eq_pval (get_cell i r) v) eqn:E; [|reflexivity].
    exfalso. apply (H v Hv). apply cell_eq_pval_matches. exact E.
Qed.

Lemma remove_rows_membership cn vals t i t' :
  index_of cn (cols t) = Some i -> do_remove_rows cn vals t = Ok t' ->
  cols t' = cols t /\
  forall r, In r (rows t') <-> (In r (rows t) /\ forall v, In v vals -> ~ cell_matches (get_cell i r) v).
Proof.
  intros Hi H. destruct (remove_rows_declarative cn vals t i Hi) as [keep [E Hk]].
  rewrite E in H. injection H as <-. cbn [cols rows]. split; [reflexivity|].
  intro r. rewrite filter_In, Hk. reflexivity.
Qed.

(* rename_columns, stated on the mapping as a set of pairs with distinct keys
   (a JSON object): position by position, a column that is a key gets the name
   paired with it, every other column keeps its name; no cell moves *)
Lemma rename_one_spec m c :
  NoDup (map fst m) ->
  (forall n, In (c, n) m -> rename_one m c = n) /\ (~ In c (map fst m) -> rename_one m c = c).
Proof.
  intro Hnd. unfold rename_one. induction m as [|[k v] m IH]; cbn [lookup map fst In] in *.
  - split; [intros n [] | reflexivity].
  - inversion Hnd as [|? ? Hk Hnd']; subst. destruct (IH Hnd') as [IH1 IH2]. destruct (str_eqb c k) eqn:E.
    + apply str_eqb_spec in E. subst k. split; [|intro H; exfalso; apply H; left; reflexivity].
      intros n [Hn|Hn]; [congruence|]. exfalso. apply Hk. apply in_map_iff. exists (c, n). split; [reflexivity | exact Hn].
    + split.
      * intros n [Hn|Hn]; [injection Hn as -> _; rewrite str_eqb_refl in E; discriminate | apply IH1; exact Hn].
      * intro H. apply IH2. intro Hin. apply H. right. exact Hin.
Qed.

Lemma rename_columns_declarative m ig t t' :
  NoDup (map fst m) -> do_rename_columns m ig t = Ok t' ->
  rows t' = rows t /\ length (cols t') = length (cols t) /\
  forall j c, nth_error (cols t) j = Some c ->
    exists c', nth_error (cols t') j = Some c' /\
               (forall n, In (c, n) m -> c' = n) /\ (~ In c (map fst m) -> c' = c).
Proof.
  intros Hnd H. destruct (rename_columns_meaning m ig t t' H) as [Hc [Hr _]].
  split; [exact Hr|]. split; [rewrite Hc; apply map_length|].
  intros j c Hj. exists (rename_one m c). split; [rewrite Hc; apply map_nth_error; exact Hj|].
  exact (rename_one_spec m c Hnd).
Qed.

(* ------------------------------------------------------------ inside the fragment (audit item 4) *)

(* [Exn Unmodelled] is not a behaviour of the code: it marks a run that left the
   modelled fragment (an intermediate table with duplicate column names, text
   in a column that is summed, ...).  End to end, INSIDE the fragment: a list
   without messages constructs; whatever files were processed before, every
   file gets the result of a fresh dispatcher; and on every table to which the
   list is applicable step by step that result is a table -- not an exception
   and not [Unmodelled]. *)
Lemma valid_list_end_to_end ops :
  validate all_fixes ops = Ok true ->
  exists sts, parse_operations ops = Ok sts /\
    (forall ts, remodel all_fixes ops ts
                = Ok (Ran sts (map (fun t => snd (run_operations all_fixes sts t)) ts))) /\
    (forall t, applicable_run sts t = true -> exists t', snd (run_operations all_fixes sts t) = Ok t').
Proof.
  intro Hv. destruct (valid_always_runs all_fixes ops [] eq_refl Hv) as [sts [Hp _]].
  exists sts. split; [exact Hp|]. split.
  - intro ts. destruct (valid_always_runs all_fixes ops ts eq_refl Hv) as [sts' [Hp' Hr]].
    assert (sts' = sts) by congruence. subst sts'.
    rewrite Hr, (order_independent all_fixes sts ts (or_introl eq_refl)). reflexivity.
  - intros t Ha. exact (run_total sts t Ha).
Qed.

(* order independence never turns an in-fragment result into [Unmodelled]: the
   k-th result of a sequence is the fresh result of the k-th table *)
Lemma order_independent_nth sts ts k t :
  nth_error ts k = Some t ->
  nth_error (snd (run_tables all_fixes sts ts)) k = Some (snd (run_operations all_fixes sts t)).
Proof.
  intro H. rewrite (order_independent all_fixes sts ts (or_introl eq_refl)). cbn [snd].
  exact (map_nth_error (fun t0 => snd (run_operations all_fixes sts t0)) k ts H).
Qed.

(* where [Unmodelled] can come from in one dispatcher step *)
Lemma run_one_unmodelled fx st t :
  snd (run_operations fx [st] t) = Exn Unmodelled ->
  snd (do_op fx st (prep_data t)) = Exn Unmodelled \/
  exists t1, snd (do_op fx st (prep_data t)) = Ok t1 /\ wfb (post_proc_data t1) = false.
Proof.
  rewrite run_operations_one. destruct (snd (do_op fx st (prep_data t))) as [t1|e]; intro H.
  - right. exists t1. split; [reflexivity|]. destruct (wfb (post_proc_data t1)); [discriminate | reflexivity].
  - left. exact H.
Qed.
