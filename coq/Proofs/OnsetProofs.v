(* Proofs about Model/Onset.v: the open-scope set of OnsetValidator is, after
   ANY history, exactly the set of names whose last effective Onset/Offset is
   an Onset; characterisation of every reported issue; count law. *)
From Coq Require Import List NArith Arith Bool Lia.
From HV Require Import Base.Res Base.Str Model.Onset.
Import ListNotations.

(* ------------------------------------------------------------------ *)
(* Specification vocabulary                                            *)
(* ------------------------------------------------------------------ *)

(* an effective event: a marker that takes effect, reduced to (kind, case-folded name/value) *)
Definition event := (tkind * str)%type.

(* key of a marker: case-folded extension of its first Def tag *)
Definition mkey (m : marker) : option str :=
  match mdefs m with [] => None | d :: _ => Some (casefold d) end.

(* keys used by a list of markers *)
Definition keys (l : list marker) : list str :=
  flat_map (fun m => match mkey m with Some k => [k] | None => [] end) l.

(* the markers of a time point that take effect: the first use of every key *)
Fixpoint eff_from (used : list str) (tp : list marker) : list event :=
  match tp with
  | [] => []
  | m :: r =>
      match mkey m with
      | None => eff_from used r
      | Some k => if mem k used then eff_from used r else (mkind m, k) :: eff_from (k :: used) r
      end
  end.
Definition eff_tp (tp : list marker) : list event := eff_from [] tp.

(* the event history of a list of time points *)
Definition effective (h : list (list marker)) : list event := flat_map eff_tp h.

(* "an Onset with key k is open after the events evs": some Onset of k occurs
   and no Offset of k occurs after it *)
Definition open_before (evs : list event) (k : str) : Prop :=
  exists l1 l2, evs = l1 ++ (Onset, k) :: l2 /\ ~ In (Offset, k) l2.

Definition state_after (h : list (list marker)) : state := fst (run state0 h).

(* issues of the time point tp processed after history h1 *)
Definition issues_at (h1 : list (list marker)) (tp : list marker) : list issue :=
  snd (validate_temporal_relations (state_after h1) tp).

Definition unmatched_kind (k : tkind) (ik : ikind) : Prop :=
  (k = Offset /\ ik = OffsetBeforeOnset) \/ (k = Inset /\ ik = InsetBeforeOnset).

(* ------------------------------------------------------------------ *)
(* Basic facts on the dictionary operations                            *)
(* ------------------------------------------------------------------ *)

Lemma mem_In k st : mem k st = true <-> In k st.
Proof.
  unfold mem. rewrite existsb_exists. split.
  - intros [x [Hx He]]. apply str_eqb_spec in He. subst. exact Hx.
  - intros H. exists k. split; [exact H | apply str_eqb_spec; reflexivity].
Qed.

Lemma mem_false k st : mem k st = false <-> ~ In k st.
Proof.
  split.
  - intros H Hin. apply mem_In in Hin. congruence.
  - intro H. destruct (mem k st) eqn:E; [|reflexivity]. apply mem_In in E. contradiction.
Qed.

Lemma str_dec (a b : str) : a = b \/ a <> b.
Proof.
  destruct (str_eqb a b) eqn:E.
  - left. apply str_eqb_spec. exact E.
  - right. intro H. apply str_eqb_spec in H. congruence.
Qed.

Lemma In_dict_set x k st : In x (dict_set k st) <-> x = k \/ In x st.
Proof.
  unfold dict_set. destruct (mem k st) eqn:E.
  - apply mem_In in E. split; [intro H; right; exact H | intros [H | H]; [subst; exact E | exact H]].
  - rewrite in_app_iff. simpl. split.
    + intros [H | [H | []]]; [right; exact H | left; symmetry; exact H].
    + intros [H | H]; [right; left; symmetry; exact H | left; exact H].
Qed.

Lemma In_dict_del x k st : In x (dict_del k st) <-> In x st /\ x <> k.
Proof.
  unfold dict_del. rewrite filter_In. split.
  - intros [H1 H2]. split; [exact H1|]. intro E. subst.
    assert (str_eqb k k = true) by (apply str_eqb_spec; reflexivity).
    rewrite H in H2. discriminate.
  - intros [H1 H2]. split; [exact H1|].
    destruct (str_eqb k x) eqn:E; [|reflexivity].
    apply str_eqb_spec in E. subst. exfalso. apply H2. reflexivity.
Qed.

(* ------------------------------------------------------------------ *)
(* One event                                                           *)
(* ------------------------------------------------------------------ *)

Definition apply_ev (st : state) (e : event) : state :=
  match fst e with
  | Onset => dict_set (snd e) st
  | Offset => if mem (snd e) st then dict_del (snd e) st else st
  | Inset => st
  end.

Lemma handle_state st nm kd pos :
  fst (handle_onset_or_offset st nm kd pos) = apply_ev st (kd, casefold nm).
Proof.
  unfold handle_onset_or_offset, apply_ev. cbn [fst snd].
  destruct kd; cbn [fst snd negb]; try reflexivity.
  - destruct (mem (casefold nm) st); reflexivity.
  - destruct (mem (casefold nm) st); reflexivity.
Qed.

Lemma handle_issues st nm kd pos :
  snd (handle_onset_or_offset st nm kd pos) =
    match kd with
    | Onset => []
    | Offset => if mem (casefold nm) st then [] else [mkIssue OffsetBeforeOnset pos nm]
    | Inset => if mem (casefold nm) st then [] else [mkIssue InsetBeforeOnset pos nm]
    end.
Proof.
  unfold handle_onset_or_offset.
  destruct kd; cbn [fst snd negb]; try reflexivity;
    destruct (mem (casefold nm) st); reflexivity.
Qed.

Lemma In_apply_ev x st kd k :
  In x (apply_ev st (kd, k)) <->
    match kd with
    | Onset => x = k \/ In x st
    | Offset => In x st /\ x <> k
    | Inset => In x st
    end.
Proof.
  unfold apply_ev. cbn [fst snd]. destruct kd.
  - apply In_dict_set.
  - destruct (mem k st) eqn:E.
    + apply In_dict_del.
    + apply mem_false in E. split.
      * intro H. split; [exact H|]. intro; subst. contradiction.
      * intros [H _]. exact H.
  - reflexivity.
Qed.

Lemma apply_ev_other x st kd k : x <> k -> (In x (apply_ev st (kd, k)) <-> In x st).
Proof.
  intro Hne. rewrite In_apply_ev. destruct kd.
  - split; [intros [H | H]; [contradiction | exact H] | intro H; right; exact H].
  - split; [intros [H _]; exact H | intro H; split; assumption].
  - reflexivity.
Qed.

(* ------------------------------------------------------------------ *)
(* State after a time point = events applied in order                  *)
(* ------------------------------------------------------------------ *)

Lemma mkey_defs m : mkey m = match mdefs m with [] => None | d :: _ => Some (casefold d) end.
Proof. reflexivity. Qed.

Lemma vtr_loop_state tp : forall st used pos,
  fst (vtr_loop st used pos tp) = fold_left apply_ev (eff_from used tp) st.
Proof.
  induction tp as [|m r IH]; intros st used pos; cbn [vtr_loop eff_from fold_left]; [reflexivity|].
  rewrite mkey_defs. destruct (mdefs m) as [|d ds] eqn:Ed.
  - apply IH.
  - destruct (mem (casefold d) used) eqn:Eu.
    + specialize (IH st used (S pos)). destruct (vtr_loop st used (S pos) r) as [st' iss].
      cbn [fst] in *. exact IH.
    + pose proof (handle_state st d (mkind m) pos) as Hh.
      destruct (handle_onset_or_offset st d (mkind m) pos) as [st1 i1]. cbn [fst] in Hh.
      specialize (IH st1 (casefold d :: used) (S pos)).
      destruct (vtr_loop st1 (casefold d :: used) (S pos) r) as [st2 i2].
      cbn [fst fold_left] in *. rewrite <- Hh. exact IH.
Qed.

Lemma run_state h : forall st, fst (run st h) = fold_left apply_ev (effective h) st.
Proof.
  induction h as [|tp r IH]; intro st; cbn [run effective flat_map fold_left]; [reflexivity|].
  unfold validate_temporal_relations.
  pose proof (vtr_loop_state tp st [] 0) as Hs.
  destruct (vtr_loop st [] 0 tp) as [st1 iss]. cbn [fst] in Hs.
  specialize (IH st1). destruct (run st1 r) as [st2 out]. cbn [fst] in *.
  rewrite fold_left_app. fold (effective r). unfold eff_tp. rewrite <- Hs. exact IH.
Qed.

(* ------------------------------------------------------------------ *)
(* The invariant: reachable state = specification                      *)
(* ------------------------------------------------------------------ *)

Lemma open_before_nil k : ~ open_before [] k.
Proof. intros [l1 [l2 [H _]]]. destruct l1; discriminate. Qed.

Lemma open_before_cons e r k :
  open_before (e :: r) k <-> open_before r k \/ (e = (Onset, k) /\ ~ In (Offset, k) r).
Proof.
  split.
  - intros [l1 [l2 [H Hn]]]. destruct l1 as [|e1 l1]; cbn in H; inversion H; subst.
    + right. split; [reflexivity | exact Hn].
    + left. exists l1, l2. split; [reflexivity | exact Hn].
  - intros [[l1 [l2 [H Hn]]] | [He Hn]].
    + exists (e :: l1), l2. split; [cbn; rewrite H; reflexivity | exact Hn].
    + exists [], r. split; [cbn; rewrite He; reflexivity | exact Hn].
Qed.

Lemma fold_apply_spec evs : forall st k,
  In k (fold_left apply_ev evs st) <-> open_before evs k \/ (In k st /\ ~ In (Offset, k) evs).
Proof.
  induction evs as [|[kd k0] r IH]; intros st k; cbn [fold_left].
  - split.
    + intro H. right. split; [exact H | intros []].
    + intros [H | [H _]]; [exfalso; exact (open_before_nil k H) | exact H].
  - rewrite IH. rewrite open_before_cons. rewrite In_apply_ev. cbn [In].
    destruct (str_dec k k0) as [E | E].
    + subst k0. destruct kd.
      * split.
        -- intros [H | [_ Hn]]; [left; left; exact H | left; right; split; [reflexivity | exact Hn]].
        -- intros [[H | [_ Hn]] | [Hin Hn]].
           ++ left; exact H.
           ++ right. split; [left; reflexivity | exact Hn].
           ++ right. split; [left; reflexivity | intro Hc; apply Hn; right; exact Hc].
      * split.
        -- intros [H | [[_ Hne] _]]; [left; left; exact H | exfalso; apply Hne; reflexivity].
        -- intros [[H | [Hc _]] | [_ Hn]].
           ++ left; exact H.
           ++ discriminate Hc.
           ++ exfalso. apply Hn. left. reflexivity.
      * split.
        -- intros [H | [Hin Hn]]; [left; left; exact H|].
           right. split; [exact Hin | intros [Hc | Hc]; [discriminate Hc | exact (Hn Hc)]].
        -- intros [[H | [Hc _]] | [Hin Hn]].
           ++ left; exact H.
           ++ discriminate Hc.
           ++ right. split; [exact Hin | intro Hc; apply Hn; right; exact Hc].
    + assert (Hst : (match kd with
                     | Onset => k = k0 \/ In k st
                     | Offset => In k st /\ k <> k0
                     | Inset => In k st end) <-> In k st).
      { destruct kd.
        - split; [intros [H | H]; [contradiction | exact H] | intro H; right; exact H].
        - split; [intros [H _]; exact H | intro H; split; assumption].
        - reflexivity. }
      rewrite Hst. split.
      * intros [H | [Hin Hn]]; [left; left; exact H|].
        right. split; [exact Hin|]. intros [Hc | Hc]; [|exact (Hn Hc)].
        inversion Hc; subst. apply E. reflexivity.
      * intros [[H | [Hc _]] | [Hin Hn]].
        -- left; exact H.
        -- inversion Hc; subst. exfalso. apply E. reflexivity.
        -- right. split; [exact Hin | intro Hc; apply Hn; right; exact Hc].
Qed.

(* state_is_spec: after ANY history the open-scope set is exactly the set of
   names whose last effective Onset/Offset is an Onset *)
Theorem state_is_spec h k : In k (state_after h) <-> open_before (effective h) k.
Proof.
  unfold state_after. rewrite run_state, fold_apply_spec. unfold state0. split.
  - intros [H | [[] _]]. exact H.
  - intro H. left. exact H.
Qed.

Lemma state_after_app h tp :
  state_after (h ++ [tp]) = fst (validate_temporal_relations (state_after h) tp).
Proof.
  unfold state_after. rewrite !run_state. unfold effective. rewrite flat_map_app, fold_left_app.
  cbn [flat_map]. rewrite app_nil_r. unfold validate_temporal_relations.
  rewrite vtr_loop_state. reflexivity.
Qed.

(* ------------------------------------------------------------------ *)
(* Characterisation of the issues of a time point                      *)
(* ------------------------------------------------------------------ *)

Lemma keys_cons m l : keys (m :: l) = match mkey m with Some k => k :: keys l | None => keys l end.
Proof. unfold keys. cbn [flat_map]. destruct (mkey m); reflexivity. Qed.

Definition issue_spec (st : state) (used : list str) (pos : nat) (tp : list marker) (x : issue) : Prop :=
  exists i m,
    nth_error tp i = Some m /\ hd_error (mdefs m) = Some (iname x) /\ ipos x = pos + i /\
    let k := casefold (iname x) in
    ((ikd x = SameDefsOneRow /\ (In k used \/ In k (keys (firstn i tp))))
     \/ (~ In k used /\ ~ In k (keys (firstn i tp)) /\ ~ In k st /\ unmatched_kind (mkind m) (ikd x))).

Lemma vtr_loop_issues tp : forall st used pos x,
  In x (snd (vtr_loop st used pos tp)) <-> issue_spec st used pos tp x.
Proof.
  induction tp as [|m r IH]; intros st used pos x.
  - cbn [vtr_loop snd In]. split; [intros [] | intros [i [m [H _]]]; destruct i; discriminate].
  - cbn [vtr_loop]. destruct (mdefs m) as [|d ds] eqn:Ed.
    + (* no Def tag: continue *)
      rewrite IH. unfold issue_spec. split.
      * intros [i [m' [Hn [Hd [Hp Hc]]]]]. exists (S i), m'. cbn [nth_error firstn].
        rewrite keys_cons, mkey_defs, Ed. repeat split; [exact Hn | exact Hd | lia | exact Hc].
      * intros [i [m' [Hn [Hd [Hp Hc]]]]]. destruct i as [|i].
        -- cbn in Hn. inversion Hn; subst m'. rewrite Ed in Hd. discriminate.
        -- exists i, m'. cbn [nth_error firstn] in *. rewrite keys_cons, mkey_defs, Ed in Hc.
           repeat split; [exact Hn | exact Hd | lia | exact Hc].
    + destruct (mem (casefold d) used) eqn:Eu.
      * (* name already used at this time point *)
        apply mem_In in Eu.
        specialize (IH st used (S pos) x).
        destruct (vtr_loop st used (S pos) r) as [st' iss]. cbn [snd In] in *.
        rewrite IH. unfold issue_spec. split.
        -- intros [Hx | [i [m' [Hn [Hd [Hp Hc]]]]]].
           ++ subst x. exists 0, m. cbn [nth_error firstn ikd ipos iname keys flat_map].
              rewrite Ed. cbn [hd_error]. repeat split; [lia|]. left. split; [reflexivity | left; exact Eu].
           ++ exists (S i), m'. cbn [nth_error firstn]. rewrite keys_cons, mkey_defs, Ed.
              repeat split; [exact Hn | exact Hd | lia|]. cbn zeta in *. cbn [In].
              destruct Hc as [[Hk Hu] | [Hnu [Hnk Hr]]].
              ** left. split; [exact Hk|]. destruct Hu as [Hu | Hu]; [left; exact Hu | right; right; exact Hu].
              ** right. split; [exact Hnu|]. split; [|exact Hr].
                 intros [Hc | Hc]; [apply Hnu; rewrite <- Hc; exact Eu | exact (Hnk Hc)].
        -- intros [i [m' [Hn [Hd [Hp Hc]]]]]. destruct i as [|i].
           ++ left. cbn in Hn. inversion Hn; subst m'. rewrite Ed in Hd. cbn in Hd. inversion Hd as [Hd'].
              cbn zeta in Hc. cbn [firstn keys flat_map In] in Hc.
              destruct Hc as [[Hk _] | [Hnu _]].
              ** destruct x as [xk xp xn]. cbn in *. subst. f_equal. lia.
              ** exfalso. apply Hnu. rewrite <- Hd'. exact Eu.
           ++ right. exists i, m'. cbn [nth_error firstn] in *. rewrite keys_cons, mkey_defs, Ed in Hc.
              repeat split; [exact Hn | exact Hd | lia|]. cbn zeta in *. cbn [In] in Hc.
              destruct Hc as [[Hk Hu] | [Hnu [Hnk Hr]]].
              ** left. split; [exact Hk|]. destruct Hu as [Hu | [Hu | Hu]].
                 --- left; exact Hu.
                 --- left. rewrite <- Hu. exact Eu.
                 --- right; exact Hu.
              ** right. split; [exact Hnu|]. split; [|exact Hr]. intro Hc. apply Hnk. right. exact Hc.
      * (* first use of the name at this time point *)
        apply mem_false in Eu.
        pose proof (handle_state st d (mkind m) pos) as Hhs.
        pose proof (handle_issues st d (mkind m) pos) as Hhi.
        destruct (handle_onset_or_offset st d (mkind m) pos) as [st1 i1]. cbn [fst snd] in Hhs, Hhi.
        specialize (IH st1 (casefold d :: used) (S pos) x).
        destruct (vtr_loop st1 (casefold d :: used) (S pos) r) as [st2 i2]. cbn [snd] in *.
        rewrite in_app_iff, IH. unfold issue_spec. split.
        -- intros [Hx | [i [m' [Hn [Hd [Hp Hc]]]]]].
           ++ (* the issue of this marker *)
              exists 0, m. cbn [nth_error firstn keys flat_map]. rewrite Ed. cbn [hd_error].
              rewrite Hhi in Hx.
              destruct (mkind m) eqn:Ek; [destruct Hx | |];
                (destruct (mem (casefold d) st) eqn:Em; [destruct Hx|];
                 destruct Hx as [Hx | []]; subst x; cbn [ikd ipos iname];
                 apply mem_false in Em;
                 repeat split; [lia|]; right; repeat split; try assumption; try (intros []);
                 unfold unmatched_kind; tauto).
           ++ exists (S i), m'. cbn [nth_error firstn]. rewrite keys_cons, mkey_defs, Ed.
              repeat split; [exact Hn | exact Hd | lia|]. cbn zeta in *. cbn [In] in *.
              destruct Hc as [[Hk Hu] | [Hnu [Hnk [Hst Hr]]]].
              ** left. split; [exact Hk|]. destruct Hu as [[Hu | Hu] | Hu].
                 --- right; left; exact Hu.
                 --- left; exact Hu.
                 --- right; right; exact Hu.
              ** right. split; [intro Hc; apply Hnu; right; exact Hc|].
                 split; [intros [Hc | Hc]; [apply Hnu; left; exact Hc | exact (Hnk Hc)]|].
                 split; [|exact Hr].
                 intro Hc. apply Hst. rewrite Hhs. apply apply_ev_other; [|exact Hc].
                 intro E. apply Hnu. left. symmetry. exact E.
        -- intros [i [m' [Hn [Hd [Hp Hc]]]]]. destruct i as [|i].
           ++ left. cbn in Hn. inversion Hn; subst m'. rewrite Ed in Hd. cbn in Hd. inversion Hd as [Hd'].
              cbn zeta in Hc. cbn [firstn keys flat_map In] in Hc. rewrite <- Hd' in Hc.
              destruct Hc as [[_ [Hu | []]] | [_ [_ [Hst Hr]]]]; [contradiction|].
              rewrite Hhi. apply mem_false in Hst. rewrite Hst.
              destruct x as [xk xp xn]. cbn in *. subst xn.
              rewrite Nat.add_0_r in Hp. subst xp.
              destruct Hr as [[Hk Hi] | [Hk Hi]]; rewrite Hk, Hi; left; reflexivity.
           ++ right. exists i, m'. cbn [nth_error firstn] in *. rewrite keys_cons, mkey_defs, Ed in Hc.
              repeat split; [exact Hn | exact Hd | lia|]. cbn zeta in *. cbn [In] in *.
              destruct Hc as [[Hk Hu] | [Hnu [Hnk [Hst Hr]]]].
              ** left. split; [exact Hk|]. destruct Hu as [Hu | [Hu | Hu]].
                 --- left; right; exact Hu.
                 --- left; left; exact Hu.
                 --- right; exact Hu.
              ** right. split; [intros [Hc | Hc]; [apply Hnk; left; exact Hc | exact (Hnu Hc)]|].
                 split; [intro Hc; apply Hnk; right; exact Hc|].
                 split; [|exact Hr].
                 intro Hc. apply Hst. rewrite Hhs in Hc. apply apply_ev_other in Hc; [exact Hc|].
                 intro E. apply Hnk. left. symmetry. exact E.
Qed.

(* A marker at index j of tp re-uses a name: an earlier marker of tp has the same key *)
Definition reused (tp : list marker) (j : nat) (k : str) : Prop := In k (keys (firstn j tp)).

(* issues_iff: every issue of a time point, after ANY history, is exactly
   (a) a re-use of a name already used at this time point, or
   (b) a first-use Offset/Inset whose name has no open Onset at that moment. *)
Theorem issues_iff h1 tp x :
  In x (issues_at h1 tp) <->
  exists m, nth_error tp (ipos x) = Some m /\ hd_error (mdefs m) = Some (iname x) /\
    let k := casefold (iname x) in
    ((ikd x = SameDefsOneRow /\ reused tp (ipos x) k)
     \/ (~ reused tp (ipos x) k /\ ~ open_before (effective h1) k /\ unmatched_kind (mkind m) (ikd x))).
Proof.
  unfold issues_at, validate_temporal_relations. rewrite vtr_loop_issues. unfold issue_spec, reused.
  split.
  - intros [i [m [Hn [Hd [Hp Hc]]]]]. cbn in Hp. subst i. exists m. repeat split; [exact Hn | exact Hd|].
    cbn zeta in *. destruct Hc as [[Hk [[] | Hu]] | [_ [Hnk [Hst Hr]]]].
    + left. split; assumption.
    + right. split; [exact Hnk|]. split; [|exact Hr]. intro Ho. apply Hst. apply state_is_spec. exact Ho.
  - intros [m [Hn [Hd Hc]]]. exists (ipos x), m. repeat split; [exact Hn | exact Hd|].
    cbn zeta in *. destruct Hc as [[Hk Hu] | [Hnk [Hno Hr]]].
    + left. split; [exact Hk | right; exact Hu].
    + right. split; [intros []|]. split; [exact Hnk|]. split; [|exact Hr].
      intro Hi. apply Hno. apply state_is_spec. exact Hi.
Qed.

(* ------------------------------------------------------------------ *)
(* unmatched_iff, at full strength for a first-use marker               *)
(* ------------------------------------------------------------------ *)

(* the Offset / Inset marker at index j of tp (well-formed: it has a Def, not used earlier in tp)
   is reported unmatched  iff  no Onset of its name is open at that moment *)
Theorem unmatched_iff h1 tp j m nm :
  nth_error tp j = Some m -> hd_error (mdefs m) = Some nm -> mkind m <> Onset ->
  ~ reused tp j (casefold nm) ->
  ((exists ik, In (mkIssue ik j nm) (issues_at h1 tp)) <-> ~ open_before (effective h1) (casefold nm)).
Proof.
  intros Hn Hd Hk Hr. split.
  - intros [ik Hin]. apply issues_iff in Hin. cbn [ipos iname ikd] in Hin.
    destruct Hin as [m' [_ [_ [[_ Hu] | [_ [Hno _]]]]]]; [contradiction | exact Hno].
  - intro Hno.
    exists (match mkind m with Offset => OffsetBeforeOnset | _ => InsetBeforeOnset end).
    apply issues_iff. cbn [ipos iname ikd]. exists m. repeat split; [exact Hn | exact Hd|].
    right. split; [exact Hr|]. split; [exact Hno|]. unfold unmatched_kind.
    destruct (mkind m); [contradiction | left; split; reflexivity | right; split; reflexivity].
Qed.

(* an Onset marker is never reported unmatched *)
Theorem onset_never_unmatched h1 tp x m :
  In x (issues_at h1 tp) -> nth_error tp (ipos x) = Some m -> mkind m = Onset -> ikd x = SameDefsOneRow.
Proof.
  intros Hin Hn Hk. apply issues_iff in Hin. destruct Hin as [m' [Hn' [_ Hc]]].
  rewrite Hn in Hn'. inversion Hn'; subst m'. cbn zeta in Hc.
  destruct Hc as [[H _] | [_ [_ [[Hc _] | [Hc _]]]]]; [exact H | congruence | congruence].
Qed.

(* ------------------------------------------------------------------ *)
(* Onset opens / restarts, Offset closes                               *)
(* ------------------------------------------------------------------ *)

Lemma fold_apply_other evs : forall st k,
  (forall e, In e evs -> snd e <> k) -> (In k (fold_left apply_ev evs st) <-> In k st).
Proof.
  induction evs as [|[kd k0] r IH]; intros st k H; cbn [fold_left]; [reflexivity|].
  rewrite IH.
  - apply apply_ev_other. intro E. apply (H (kd, k0)); [left; reflexivity | symmetry; exact E].
  - intros e He. apply H. right. exact He.
Qed.

Lemma eff_from_keys tp : forall used e, In e (eff_from used tp) -> ~ In (snd e) used.
Proof.
  induction tp as [|m r IH]; intros used e H; cbn [eff_from] in H; [destruct H|].
  destruct (mkey m) as [k|]; [|apply IH; exact H].
  destruct (mem k used) eqn:Eu; [apply IH; exact H|].
  destruct H as [H | H].
  - subst e. cbn. apply mem_false. exact Eu.
  - apply IH in H. intro Hc. apply H. right. exact Hc.
Qed.

(* each key takes effect at most once per time point; split the events around it *)
Lemma eff_from_split tp : forall used kd k,
  In (kd, k) (eff_from used tp) ->
  exists a b, eff_from used tp = a ++ (kd, k) :: b /\
              (forall e, In e a -> snd e <> k) /\ (forall e, In e b -> snd e <> k).
Proof.
  induction tp as [|m r IH]; intros used kd k H; cbn [eff_from] in *; [destruct H|].
  destruct (mkey m) as [k0|]; [|apply IH; exact H].
  destruct (mem k0 used) eqn:Eu; [apply IH; exact H|].
  destruct H as [H | H].
  - inversion H; subst. exists [], (eff_from (k :: used) r). split; [reflexivity|]. split; [intros e []|].
    intros e He. apply eff_from_keys in He. intro E. apply He. left. symmetry. exact E.
  - pose proof (eff_from_keys _ _ _ H) as Hk. cbn in Hk.
    destruct (IH _ _ _ H) as [a [b [E [Ha Hb]]]].
    exists ((mkind m, k0) :: a), b. split; [cbn; rewrite E; reflexivity|]. split; [|exact Hb].
    intros e [He | He]; [subst e; cbn; intro E2; apply Hk; left; exact E2 | apply Ha; exact He].
Qed.

(* onset_restarts: if an Onset of k takes effect at time point tp, k is open afterwards whatever the
   earlier history was (open or not), and offset_closes: if an Offset of k takes effect, k is not open
   afterwards *)
Theorem onset_restarts h tp k :
  In (Onset, k) (eff_tp tp) -> In k (state_after (h ++ [tp])).
Proof.
  intro H. rewrite state_after_app. unfold validate_temporal_relations. rewrite vtr_loop_state.
  destruct (eff_from_split _ _ _ _ H) as [a [b [E [Ha Hb]]]]. unfold eff_tp in E. rewrite E.
  rewrite fold_left_app. cbn [fold_left]. rewrite fold_apply_other; [|exact Hb].
  apply In_apply_ev. left. reflexivity.
Qed.

Theorem offset_closes h tp k :
  In (Offset, k) (eff_tp tp) -> ~ In k (state_after (h ++ [tp])).
Proof.
  intro H. rewrite state_after_app. unfold validate_temporal_relations. rewrite vtr_loop_state.
  destruct (eff_from_split _ _ _ _ H) as [a [b [E [Ha Hb]]]]. unfold eff_tp in E. rewrite E.
  rewrite fold_left_app. cbn [fold_left]. rewrite fold_apply_other; [|exact Hb].
  rewrite In_apply_ev. intros [_ Hne]. apply Hne. reflexivity.
Qed.

(* an Inset, and every marker of another name, leaves the scope of k as it was *)
Theorem other_markers_keep_scope h tp k :
  (forall e, In e (eff_tp tp) -> snd e = k -> fst e = Inset) ->
  (In k (state_after (h ++ [tp])) <-> In k (state_after h)).
Proof.
  intro H. rewrite state_after_app. unfold validate_temporal_relations. rewrite vtr_loop_state.
  fold (eff_tp tp). revert H. generalize (state_after h). induction (eff_tp tp) as [|[kd k0] r IH]; intros st H.
  - reflexivity.
  - cbn [fold_left]. rewrite IH; [|intros e He; apply H; right; exact He].
    destruct (str_dec k k0) as [E | E].
    + subst k0. assert (kd = Inset) by (apply (H (kd, k)); [left; reflexivity | reflexivity]). subst kd.
      apply In_apply_ev.
    + apply apply_ev_other. exact E.
Qed.

(* ------------------------------------------------------------------ *)
(* Scopes open at the end are legal                                    *)
(* ------------------------------------------------------------------ *)

(* all issues of a whole run: nothing is added at the end, every issue belongs to a time point *)
Lemma run_issues h : forall st,
  snd (run st h) =
  (fix go st h := match h with
                  | [] => []
                  | tp :: r => snd (validate_temporal_relations st tp)
                               :: go (fst (validate_temporal_relations st tp)) r
                  end) st h.
Proof.
  induction h as [|tp r IH]; intro st; cbn [run]; [reflexivity|].
  destruct (validate_temporal_relations st tp) as [st1 iss] eqn:E1.
  specialize (IH st1). destruct (run st1 r) as [st2 out]. cbn [fst snd] in *. rewrite IH. reflexivity.
Qed.

Lemma run_length h : forall st, length (snd (run st h)) = length h.
Proof.
  induction h as [|tp r IH]; intro st; cbn [run]; [reflexivity|].
  destruct (validate_temporal_relations st tp) as [st1 iss].
  specialize (IH st1). destruct (run st1 r) as [st2 out]. cbn [snd length] in *. rewrite IH. reflexivity.
Qed.

Lemma run_nth h : forall st i tp,
  nth_error h i = Some tp ->
  nth_error (snd (run st h)) i =
    Some (snd (validate_temporal_relations (fst (run st (firstn i h))) tp)).
Proof.
  induction h as [|tp0 r IH]; intros st i tp Hn; [destruct i; discriminate|].
  cbn [run]. destruct (validate_temporal_relations st tp0) as [st1 iss] eqn:E1.
  destruct i as [|i].
  - cbn in Hn. inversion Hn; subst. destruct (run st1 r) as [st2 out]. cbn. rewrite E1. reflexivity.
  - cbn [nth_error] in Hn. specialize (IH st1 i tp Hn).
    destruct (run st1 r) as [st2 out] eqn:E2. cbn [snd nth_error firstn run] in *. rewrite E1.
    destruct (run st1 (firstn i r)) as [st3 out3] eqn:E3. cbn [fst] in *. exact IH.
Qed.

(* the i-th issue list of a run is issues_at of the prefix: with run_length this says that the whole
   output of a run is the per-time-point issues and nothing else (no end-of-file issue) *)
Theorem run_is_pointwise h i tp :
  nth_error h i = Some tp ->
  nth_error (snd (run state0 h)) i = Some (issues_at (firstn i h) tp).
Proof. intro H. unfold issues_at, state_after. apply run_nth. exact H. Qed.

(* open_at_end_legal: a history of Onsets (each name at most once per time point) yields no issue at
   all, although every scope is still open at the end *)
Theorem open_at_end_legal h :
  (forall tp, In tp h -> forall m, In m tp -> mkind m = Onset) ->
  (forall tp, In tp h -> NoDup (keys tp)) ->
  (forall iss, In iss (snd (run state0 h)) -> iss = []) /\
  (forall k, In k (keys (concat h)) -> In k (state_after h)).
Proof.
  intros Hon Hnd. split.
  - intros iss Hin. apply In_nth_error in Hin. destruct Hin as [i Hi].
    assert (Hlt : i < length h).
    { rewrite <- (run_length h state0). apply nth_error_Some. rewrite Hi. discriminate. }
    destruct (nth_error h i) as [tp|] eqn:Etp; [|apply nth_error_None in Etp; lia].
    rewrite (run_is_pointwise _ _ _ Etp) in Hi. inversion Hi as [Hi']. clear Hi.
    destruct (issues_at (firstn i h) tp) as [|x l] eqn:Ex; [reflexivity|]. exfalso.
    assert (Hx : In x (issues_at (firstn i h) tp)) by (rewrite Ex; left; reflexivity).
    apply issues_iff in Hx. destruct Hx as [m [Hn [Hd Hc]]]. cbn zeta in Hc.
    assert (Htp : In tp h) by (eapply nth_error_In; exact Etp).
    assert (Hm : mkind m = Onset) by (apply (Hon tp Htp); eapply nth_error_In; exact Hn).
    destruct Hc as [[_ Hr] | [_ [_ [[Hc _] | [Hc _]]]]]; try congruence.
    (* re-use contradicts NoDup *)
    specialize (Hnd tp Htp). unfold reused in Hr.
    assert (Hsp : tp = firstn (ipos x) tp ++ m :: skipn (S (ipos x)) tp).
    { clear - Hn. revert Hn. generalize (ipos x). induction tp as [|a tp IH]; intros [|n] Hn; try discriminate.
      - cbn in Hn. inversion Hn. reflexivity.
      - cbn [nth_error] in Hn. cbn [firstn skipn app]. f_equal. apply IH. exact Hn. }
    rewrite Hsp in Hnd. unfold keys in Hnd. rewrite flat_map_app in Hnd. cbn [flat_map] in Hnd.
    rewrite mkey_defs in Hnd. destruct (mdefs m) as [|d ds]; [discriminate|]. cbn in Hd. inversion Hd; subst d.
    cbn [app] in Hnd. apply NoDup_remove_2 in Hnd. apply Hnd. apply in_or_app. left. exact Hr.
  - intros k Hk. apply state_is_spec.
    (* an Onset of k occurs among the effective events and no Offset at all *)
    assert (Hno : forall e, In e (effective h) -> fst e = Onset).
    { intros e He. unfold effective in He. apply in_flat_map in He. destruct He as [tp [Htp He]].
      assert (Hall : forall used e, In e (eff_from used tp) -> fst e = Onset).
      { specialize (Hon tp Htp). clear - Hon. induction tp as [|m r IH]; intros used e H; cbn [eff_from] in H; [destruct H|].
        assert (Hr : forall m, In m r -> mkind m = Onset) by (intros; apply Hon; right; assumption).
        destruct (mkey m); [|eapply IH; eauto].
        destruct (mem s used); [eapply IH; eauto|].
        destruct H as [H | H]; [subst e; cbn; apply Hon; left; reflexivity | eapply IH; eauto]. }
      eapply Hall. exact He. }
    assert (Hex : In (Onset, k) (effective h)).
    { unfold keys in Hk. apply in_flat_map in Hk. destruct Hk as [m [Hm Hk]].
      apply in_concat in Hm. destruct Hm as [tp [Htp Hm]].
      unfold effective. apply in_flat_map. exists tp. split; [exact Htp|].
      specialize (Hon tp Htp). specialize (Hnd tp Htp). unfold eff_tp.
      assert (Hg : forall used, ~ In k used -> NoDup (keys tp) -> In (Onset, k) (eff_from used tp)).
      { clear Hnd Htp. induction tp as [|m0 r IH]; intros used Hu Hn; [destruct Hm|].
        cbn [eff_from]. rewrite keys_cons in Hn.
        assert (Hr : forall m, In m r -> mkind m = Onset) by (intros; apply Hon; right; assumption).
        destruct Hm as [Hm | Hm].
        - subst m0. destruct (mkey m) as [k0|]; [|destruct Hk].
          destruct Hk as [Hk | []]. subst k0.
          destruct (mem k used) eqn:Eu; [apply mem_In in Eu; contradiction|].
          left. f_equal. apply Hon. left. reflexivity.
        - destruct (mkey m0) as [k0|] eqn:E0; [|apply IH; assumption].
          inversion Hn as [|? ? Hnin Hn']; subst.
          assert (Hne : k <> k0).
          { intro E. subst k0. apply Hnin. unfold keys. apply in_flat_map. exists m. split; assumption. }
          destruct (mem k0 used); [apply IH; assumption|].
          right. apply IH; try assumption. intros [Hc | Hc]; [apply Hne; symmetry; exact Hc | exact (Hu Hc)]. }
      apply Hg; [intros [] | exact Hnd]. }
    apply in_split in Hex. destruct Hex as [l1 [l2 E]]. exists l1, l2. split; [exact E|].
    intro Hc. assert (Hin : In (Offset, k) (effective h)) by (rewrite E; apply in_or_app; right; right; exact Hc).
    apply Hno in Hin. discriminate Hin.
Qed.

(* ------------------------------------------------------------------ *)
(* Count law for same-name reuse within one time point                 *)
(* ------------------------------------------------------------------ *)

Definition is_same (x : issue) : bool :=
  match ikd x with SameDefsOneRow => true | _ => false end.

Lemma handle_no_same st nm kd pos :
  filter is_same (snd (handle_onset_or_offset st nm kd pos)) = [].
Proof.
  rewrite handle_issues. destruct kd; [reflexivity | |]; destruct (mem (casefold nm) st); reflexivity.
Qed.

Lemma eff_from_length_le tp : forall used, length (eff_from used tp) <= length (keys tp).
Proof.
  induction tp as [|m r IH]; intro used; cbn [eff_from]; [cbn; lia|].
  rewrite keys_cons. destruct (mkey m) as [k|]; [|apply IH].
  destruct (mem k used); cbn [length]; [specialize (IH used); lia | specialize (IH (k :: used)); lia].
Qed.

Lemma vtr_loop_count tp : forall st used pos,
  length (filter is_same (snd (vtr_loop st used pos tp))) + length (eff_from used tp) = length (keys tp).
Proof.
  induction tp as [|m r IH]; intros st used pos; cbn [vtr_loop eff_from]; [reflexivity|].
  rewrite keys_cons, mkey_defs. destruct (mdefs m) as [|d ds] eqn:Ed.
  - apply IH.
  - destruct (mem (casefold d) used) eqn:Eu.
    + specialize (IH st used (S pos)). destruct (vtr_loop st used (S pos) r) as [st' iss].
      cbn [snd filter is_same ikd length] in *. lia.
    + pose proof (handle_no_same st d (mkind m) pos) as Hh.
      destruct (handle_onset_or_offset st d (mkind m) pos) as [st1 i1]. cbn [snd] in Hh.
      specialize (IH st1 (casefold d :: used) (S pos)).
      destruct (vtr_loop st1 (casefold d :: used) (S pos) r) as [st2 i2].
      cbn [snd length] in *. rewrite filter_app, Hh. cbn [app]. lia.
Qed.

(* the effective events of a time point are one per distinct key *)
Lemma eff_from_nodup tp : forall used, NoDup (map snd (eff_from used tp)).
Proof.
  induction tp as [|m r IH]; intro used; cbn [eff_from]; [constructor|].
  destruct (mkey m) as [k|]; [|apply IH].
  destruct (mem k used); [apply IH|]. cbn [map snd]. constructor; [|apply IH].
  intro Hc. apply in_map_iff in Hc. destruct Hc as [e [He Hin]]. apply eff_from_keys in Hin.
  apply Hin. left. symmetry. exact He.
Qed.

Lemma eff_from_covers tp : forall used k, In k (keys tp) -> In k used \/ In k (map snd (eff_from used tp)).
Proof.
  induction tp as [|m r IH]; intros used k H; [destruct H|].
  rewrite keys_cons in H. cbn [eff_from]. destruct (mkey m) as [k0|]; [|apply IH; exact H].
  destruct (mem k0 used) eqn:Eu.
  - destruct H as [H | H]; [left; subst; apply mem_In; exact Eu | apply IH; exact H].
  - cbn [map snd In]. destruct H as [H | H]; [right; left; exact H|].
    destruct (IH (k0 :: used) k H) as [[Hc | Hc] | Hc]; [right; left; exact Hc | left; exact Hc | right; right; exact Hc].
Qed.

Lemma eff_keys_sub tp : forall used k, In k (map snd (eff_from used tp)) -> In k (keys tp).
Proof.
  induction tp as [|m r IH]; intros used k H; cbn [eff_from] in H; [destruct H|].
  rewrite keys_cons. destruct (mkey m) as [k0|]; [|eapply IH; exact H].
  destruct (mem k0 used); [right; eapply IH; exact H|].
  destruct H as [H | H]; [left; exact H | right; eapply IH; exact H].
Qed.

(* number of distinct elements of a list of keys *)
Fixpoint distinct (l : list str) : nat :=
  match l with
  | [] => 0
  | k :: r => if mem k r then distinct r else S (distinct r)
  end.

Lemma distinct_perm_nodup l : forall l', NoDup l' -> (forall k, In k l' <-> In k l) -> length l' = distinct l.
Proof.
  induction l as [|k r IH]; intros l' Hnd Heq.
  - destruct l' as [|x l']; [reflexivity|]. exfalso. apply (Heq x). left. reflexivity.
  - cbn [distinct]. destruct (mem k r) eqn:Em.
    + apply mem_In in Em. apply IH; [exact Hnd|]. intro x. rewrite Heq. cbn [In]. split.
      * intros [H | H]; [subst; exact Em | exact H].
      * intro H. right. exact H.
    + apply mem_false in Em.
      assert (Hk : In k l') by (apply Heq; left; reflexivity).
      apply in_split in Hk. destruct Hk as [a [b E]]. subst l'.
      rewrite app_length. cbn [length]. rewrite Nat.add_succ_r. f_equal. rewrite <- app_length.
      apply IH.
      * apply NoDup_remove_1 in Hnd. exact Hnd.
      * intro x. pose proof (NoDup_remove_2 _ _ _ Hnd) as Hn2. split.
        -- intro Hx. assert (Hx' : In x (a ++ k :: b)).
           { apply in_app_or in Hx. apply in_or_app. destruct Hx; [left | right; right]; assumption. }
           apply Heq in Hx'. destruct Hx' as [Hx' | Hx']; [subst; contradiction | exact Hx'].
        -- intro Hx. assert (Hx' : In x (a ++ k :: b)) by (apply Heq; right; exact Hx).
           apply in_app_or in Hx'. apply in_or_app. destruct Hx' as [H | [H | H]]; [left; exact H | | right; exact H].
           subst. contradiction.
Qed.

(* same_name_once_per_extra_use: after ANY history, the number of ONSET_SAME_DEFS_ONE_ROW issues of a
   time point is (number of markers with a Def) - (number of distinct names) = sum over names (uses-1) *)
Theorem same_name_count h1 tp :
  length (filter is_same (issues_at h1 tp)) + distinct (keys tp) = length (keys tp).
Proof.
  unfold issues_at, validate_temporal_relations.
  assert (Hd : length (eff_from [] tp) = distinct (keys tp)).
  { transitivity (length (map snd (eff_from [] tp))); [symmetry; apply map_length|].
    apply distinct_perm_nodup; [apply eff_from_nodup|].
    intro k. split.
    - apply eff_keys_sub.
    - intro H. destruct (eff_from_covers tp [] k H) as [[] | Hc]. exact Hc. }
  pose proof (vtr_loop_count tp (state_after h1) [] 0) as Hc. lia.
Qed.

(* ...and the re-used markers have no effect: the state after the time point is that of its first uses *)
Theorem reuse_has_no_effect h tp :
  state_after (h ++ [tp]) = fold_left apply_ev (eff_tp tp) (state_after h).
Proof.
  rewrite state_after_app. unfold validate_temporal_relations, eff_tp. apply vtr_loop_state.
Qed.

(* ------------------------------------------------------------------ *)
(* Non-vacuity                                                         *)
(* ------------------------------------------------------------------ *)
Definition nA : str := [65%N].
Definition na : str := [97%N].
Definition nB1 : str := [66%N; 47%N; 49%N].
Definition nB2 : str := [66%N; 47%N; 50%N].
Definition mk (k : tkind) (n : str) : marker := mkMarker k [n].

(* Onset A | Onset a (restart) | Offset A, Inset B/1 | Inset a, Offset B/2, Onset A, Offset a *)
Definition ex_history : list (list marker) :=
  [[mk Onset nA]; [mk Onset na]; [mk Offset nA; mk Inset nB1];
   [mk Inset na; mk Offset nB2; mk Onset nA; mk Offset na]].

Lemma ex_history_run :
  run state0 ex_history =
  ([], [[]; []; [mkIssue InsetBeforeOnset 1 nB1];
        [mkIssue InsetBeforeOnset 0 na; mkIssue OffsetBeforeOnset 1 nB2;
         mkIssue SameDefsOneRow 2 nA; mkIssue SameDefsOneRow 3 na]]).
Proof. vm_compute. reflexivity. Qed.

Lemma ex_open_at_end :
  state_after [[mk Onset nA; mk Onset nB1]; [mk Onset nB2]] = [na; [98%N; 47%N; 49%N]; [98%N; 47%N; 50%N]]
  /\ snd (run state0 [[mk Onset nA; mk Onset nB1]; [mk Onset nB2]]) = [[]; []].
Proof. vm_compute. split; reflexivity. Qed.

(* ------------------------------------------------------------------ *)
(* Order inside a time point is irrelevant unless a name is re-used     *)
(* ------------------------------------------------------------------ *)
From Coq Require Import Permutation.

Lemma nth_error_split_at {B} (l : list B) : forall n x,
  nth_error l n = Some x -> l = firstn n l ++ x :: skipn (S n) l.
Proof.
  induction l as [|a l IH]; intros [|n] x Hn; try discriminate.
  - cbn in Hn. inversion Hn. reflexivity.
  - cbn [nth_error] in Hn. cbn [firstn skipn app]. f_equal. apply IH. exact Hn.
Qed.

Lemma nodup_not_reused tp p m k :
  NoDup (keys tp) -> nth_error tp p = Some m -> mkey m = Some k -> ~ reused tp p k.
Proof.
  intros Hnd Hn Hk Hr. unfold reused in Hr.
  rewrite (nth_error_split_at _ _ _ Hn) in Hnd. unfold keys in Hnd.
  rewrite flat_map_app in Hnd. cbn [flat_map] in Hnd. rewrite Hk in Hnd. cbn [app] in Hnd.
  apply NoDup_remove_2 in Hnd. apply Hnd. apply in_or_app. left. exact Hr.
Qed.

Lemma hd_mkey m nm : hd_error (mdefs m) = Some nm -> mkey m = Some (casefold nm).
Proof. unfold mkey. destruct (mdefs m); cbn; intro H; inversion H. reflexivity. Qed.

Lemma issues_nodup_iff h tp ik nm :
  NoDup (keys tp) ->
  ((exists p, In (mkIssue ik p nm) (issues_at h tp)) <->
   exists m, In m tp /\ hd_error (mdefs m) = Some nm /\
             ~ open_before (effective h) (casefold nm) /\ unmatched_kind (mkind m) ik).
Proof.
  intro Hnd. split.
  - intros [p Hin]. apply issues_iff in Hin. cbn [ipos iname ikd] in Hin.
    destruct Hin as [m [Hn [Hd [[_ Hr] | [_ [Hno Hu]]]]]].
    + exfalso. exact (nodup_not_reused _ _ _ _ Hnd Hn (hd_mkey _ _ Hd) Hr).
    + exists m. repeat split; try assumption. eapply nth_error_In. exact Hn.
  - intros [m [Hin [Hd [Hno Hu]]]]. apply In_nth_error in Hin. destruct Hin as [p Hn].
    exists p. apply issues_iff. cbn [ipos iname ikd]. exists m. repeat split; [exact Hn | exact Hd|].
    right. split; [|split; assumption].
    exact (nodup_not_reused _ _ _ _ Hnd Hn (hd_mkey _ _ Hd)).
Qed.

Lemma eff_from_in_nodup tp : forall used,
  NoDup (keys tp) -> (forall k, In k (keys tp) -> ~ In k used) ->
  forall kd k, In (kd, k) (eff_from used tp) <-> exists m, In m tp /\ mkind m = kd /\ mkey m = Some k.
Proof.
  induction tp as [|m r IH]; intros used Hnd Hu kd k; cbn [eff_from].
  - split; [intros [] | intros [m [[] _]]].
  - rewrite keys_cons in Hnd, Hu. destruct (mkey m) as [k0|] eqn:Ek.
    + inversion Hnd as [|? ? Hnin Hnd']; subst.
      assert (Eu : mem k0 used = false) by (apply mem_false; apply Hu; left; reflexivity).
      rewrite Eu. cbn [In].
      rewrite (IH (k0 :: used) Hnd').
      * split.
        -- intros [H | [m' [Hin [Hk Hm]]]].
           ++ inversion H; subst. exists m. repeat split; [left; reflexivity | exact Ek].
           ++ exists m'. repeat split; [right; exact Hin | exact Hk | exact Hm].
        -- intros [m' [[Hin | Hin] [Hk Hm]]].
           ++ subst m'. left. rewrite Ek in Hm. inversion Hm. subst. reflexivity.
           ++ right. exists m'. repeat split; assumption.
      * intros k1 Hk1 [Hc | Hc]; [subst; contradiction | apply (Hu k1); [right; exact Hk1 | exact Hc]].
    + rewrite (IH used Hnd Hu). split.
      * intros [m' [Hin [Hk Hm]]]. exists m'. repeat split; [right; exact Hin | exact Hk | exact Hm].
      * intros [m' [[Hin | Hin] [Hk Hm]]]; [subst m'; congruence|]. exists m'. repeat split; assumption.
Qed.

Lemma open_before_nodup evs k :
  NoDup (map snd evs) -> (open_before evs k <-> In (Onset, k) evs).
Proof.
  intro Hnd. split.
  - intros [l1 [l2 [E _]]]. rewrite E. apply in_or_app. right. left. reflexivity.
  - intro Hin. apply in_split in Hin. destruct Hin as [l1 [l2 E]]. exists l1, l2. split; [exact E|].
    intro Hc. rewrite E, map_app in Hnd. cbn [map snd] in Hnd. apply NoDup_remove_2 in Hnd.
    apply Hnd. apply in_or_app. right. apply in_map_iff. exists (Offset, k). split; [reflexivity | exact Hc].
Qed.

(* tie_order_irrelevant: permuting the markers of a time point in which every name is used at most once
   changes neither the open-scope set afterwards nor which (sub-kind, name) issues are reported *)
Theorem tie_order_irrelevant h tp tp' :
  Permutation tp tp' -> NoDup (keys tp) ->
  (forall k, In k (state_after (h ++ [tp])) <-> In k (state_after (h ++ [tp']))) /\
  (forall ik nm, (exists p, In (mkIssue ik p nm) (issues_at h tp)) <->
                 (exists p, In (mkIssue ik p nm) (issues_at h tp'))).
Proof.
  intros Hp Hnd.
  assert (Hnd' : NoDup (keys tp')).
  { eapply Permutation_NoDup; [|exact Hnd]. unfold keys. apply Permutation_flat_map. exact Hp. }
  split.
  - intro k. rewrite !reuse_has_no_effect, !fold_apply_spec.
    rewrite !open_before_nodup by apply eff_from_nodup.
    assert (Heq : forall kd, In (kd, k) (eff_tp tp) <-> In (kd, k) (eff_tp tp')).
    { intro kd. unfold eff_tp. rewrite !eff_from_in_nodup; try assumption; try (intros ? ? []).
      split; intros [m [Hin H]]; exists m; (split; [|exact H]).
      - eapply Permutation_in; eassumption.
      - eapply Permutation_in; [apply Permutation_sym|]; eassumption. }
    rewrite (Heq Onset), (Heq Offset). reflexivity.
  - intros ik nm. rewrite !issues_nodup_iff by assumption.
    split; intros [m [Hin H]]; exists m; (split; [|exact H]).
    + eapply Permutation_in; eassumption.
    + eapply Permutation_in; [apply Permutation_sym|]; eassumption.
Qed.

(* ...and it is NOT irrelevant when a name is used twice: the full statement "the outcome does not depend
   on the order of the markers of one time point" is false of the code *)
Theorem tie_order_matters_refuted :
  exists tp tp', Permutation tp tp' /\
    state_after [tp] <> state_after [tp'] /\
    length (issues_at [] tp) <> length (issues_at [] tp').
Proof.
  exists [mk Onset nA; mk Offset nA], [mk Offset nA; mk Onset nA].
  split; [apply perm_swap|]. split; vm_compute; intro H; discriminate H.
Qed.

(* non-ASCII names: "Mass" written with sharp s (U+00DF), capital sharp s (U+1E9E) or SS, and a Greek name
   with final sigma (U+03C2) vs capital sigma, are one name each (keys "mass" and the folded Greek word) *)
Definition nMasz : str := [77%N; 97%N; 223%N].
Definition nMASS : str := [77%N; 65%N; 83%N; 83%N].
Definition nmaSZ : str := [109%N; 97%N; 7838%N].
Definition nEchos : str := [905%N; 967%N; 959%N; 962%N].
Definition nECHOS : str := [905%N; 935%N; 927%N; 931%N].

Lemma ex_nonascii_run :
  casefold nMasz = [109%N; 97%N; 115%N; 115%N] /\
  run state0 [[mk Onset nMasz; mk Onset nEchos]; [mk Inset nMASS; mk Inset nECHOS]; [mk Offset nmaSZ];
              [mk Offset nMasz; mk Offset nECHOS]; [mk Inset nEchos]] =
  ([], [[]; []; []; [mkIssue OffsetBeforeOnset 0 nMasz]; [mkIssue InsetBeforeOnset 0 nEchos]]).
Proof. vm_compute. split; reflexivity. Qed.
