(* C02: a DECLARATIVE reading of the parse tree, for ALL strings.
   The other theorems identify the constructor's tree with spec_parse (a second
   scanner).  Here the tree is characterised without reference to any scanner:
   every node of spec_parse s satisfies node_ok s —
     Tag a b      : s[a:b] is a non-empty delimiter-free text without outer blanks,
                    and only blanks separate it from the neighbouring delimiter (or
                    text end) on either side (so it is the WHOLE trimmed run);
     Group a b ch : s[a] = "(", s[b-1] = ")", the children are ok, lie strictly
                    between the two parentheses, in source order, without overlap —
   and the top-level nodes are in source order inside [0, |s|]. *)
From Coq Require Import List NArith Arith Bool Lia.
From HV Require Import Base.Res Base.Str Model.Parse Proofs.ParseProofs Proofs.ParseRefine Proofs.ParsePrint.
Import ListNotations.

Definition span (n : node) : nat * nat :=
  match n with Tag a b => (a, b) | Group a b _ => (a, b) end.

(* spans in source order, non-empty, inside [lo, hi], not overlapping *)
Fixpoint ordered (lo hi : nat) (l : list (nat * nat)) : Prop :=
  match l with
  | [] => lo <= hi
  | (a, b) :: r => lo <= a /\ a < b /\ ordered b hi r
  end.

Definition blank_to_delim_left (s : str) (a : nat) : Prop :=
  exists k, k <= a /\ sub s (a - k) a = spaces k /\
            (a - k = 0 \/ exists d, nth_error s (a - k - 1) = Some d /\ is_delim d = true).

Definition blank_to_delim_right (s : str) (b : nat) : Prop :=
  exists m, b + m <= length s /\ sub s b (b + m) = spaces m /\
            (b + m = length s \/ exists d, nth_error s (b + m) = Some d /\ is_delim d = true).

Inductive node_ok (s : str) : node -> Prop :=
| ok_tag a b : a < b -> b <= length s -> tagbody (sub s a b) ->
    blank_to_delim_left s a -> blank_to_delim_right s b -> node_ok s (Tag a b)
| ok_group a b ch : b <= length s ->
    nth_error s a = Some ch_open -> nth_error s (b - 1) = Some ch_close ->
    Forall (node_ok s) ch -> ordered (S a) (b - 1) (map span ch) -> node_ok s (Group a b ch).

(* ---------- reversed child lists (newest first), as the scanner keeps them ---------- *)

Fixpoint rordered (lo hi : nat) (l : list (nat * nat)) : Prop :=
  match l with
  | [] => lo <= hi
  | (a, b) :: r => b <= hi /\ a < b /\ rordered lo a r
  end.

Lemma rordered_le lo hi l : rordered lo hi l -> lo <= hi.
Proof.
  revert hi. induction l as [|[a b] r IH]; intros hi H; simpl in H; [exact H|].
  destruct H as (H1 & H2 & H3). specialize (IH _ H3). lia.
Qed.

Lemma rordered_weaken lo hi hi' l : rordered lo hi l -> hi <= hi' -> rordered lo hi' l.
Proof.
  destruct l as [|[a b] r]; simpl; intros H Hle; [lia|].
  destruct H as (H1 & H2 & H3). repeat split; [lia | exact H2 | exact H3].
Qed.

Lemma ordered_snoc l : forall lo a b hi,
  ordered lo a l -> a < b -> b <= hi -> ordered lo hi (l ++ [(a, b)]).
Proof.
  induction l as [|[x y] l IH]; intros lo a b hi H Hab Hb; simpl in *.
  - repeat split; assumption.
  - destruct H as (H1 & H2 & H3). repeat split; [exact H1 | exact H2|].
    apply IH; assumption.
Qed.

Lemma rordered_rev l : forall lo hi, rordered lo hi l -> ordered lo hi (rev l).
Proof.
  induction l as [|[a b] r IH]; intros lo hi H; simpl in *; [exact H|].
  destruct H as (H1 & H2 & H3). apply ordered_snoc; [apply IH; exact H3 | exact H2 | exact H1].
Qed.

Definition kids_ok (s : str) (lo hi : nat) (ch : list node) : Prop :=
  Forall (node_ok s) ch /\ rordered lo hi (map span ch).

Fixpoint frames_ok (s : str) (hi : nat) (st : list frame) : Prop :=
  match st with
  | [] => False
  | (ga, gch) :: rest =>
      match rest with
      | [] => kids_ok s 0 hi gch
      | _ :: _ => nth_error s ga = Some ch_open /\ kids_ok s (S ga) hi gch /\ frames_ok s ga rest
      end
  end.

Lemma kids_weaken s lo hi hi' ch : kids_ok s lo hi ch -> hi <= hi' -> kids_ok s lo hi' ch.
Proof. intros [H1 H2] Hle. split; [exact H1 | eapply rordered_weaken; eassumption]. Qed.

Lemma frames_weaken s hi hi' st : frames_ok s hi st -> hi <= hi' -> frames_ok s hi' st.
Proof.
  destruct st as [|[ga gch] [|f rest]]; simpl; intros H Hle; [exact H | eapply kids_weaken; eassumption |].
  destruct H as (H1 & H2 & H3). split; [exact H1|]. split; [|exact H3].
  eapply kids_weaken; eassumption.
Qed.

Lemma kids_push s lo hi ch n x y :
  kids_ok s lo hi ch -> node_ok s n -> span n = (x, y) -> hi <= x -> x < y ->
  kids_ok s lo y (n :: ch).
Proof.
  intros [H1 H2] Hn Hsp Hx Hxy. split; [constructor; assumption|].
  cbn [map]. rewrite Hsp. cbn [rordered]. repeat split; [lia | exact Hxy|].
  eapply rordered_weaken; eassumption.
Qed.

Lemma frames_push s hi st n x y :
  frames_ok s hi st -> node_ok s n -> span n = (x, y) -> hi <= x -> x < y ->
  frames_ok s y (push_child n st).
Proof.
  destruct st as [|[ga gch] [|f rest]]; cbn [frames_ok push_child]; intros H Hn Hsp Hx Hxy; [exact H| |].
  - eapply kids_push; eassumption.
  - destruct H as (H1 & H2 & H3). split; [exact H1|]. split; [|exact H3].
    eapply kids_push; eassumption.
Qed.

(* ---------- list arithmetic on slices ---------- *)

Lemma nth_error_mid (p : str) c q : nth_error (p ++ c :: q) (length p) = Some c.
Proof. rewrite nth_error_app2 by lia. rewrite Nat.sub_diag. reflexivity. Qed.

Lemma sub_mid (p x q : str) : sub (p ++ x ++ q) (length p) (length p + length x) = x.
Proof. rewrite sub_prefix_mid by lia. apply firstn_all. Qed.

Definition left_edge (s : str) (p : nat) : Prop :=
  p = 0 \/ exists d, nth_error s (p - 1) = Some d /\ is_delim d = true.

Definition right_edge (cs : str) : Prop :=
  cs = [] \/ exists d cs', cs = d :: cs' /\ is_delim d = true.

(* ---------- flushing a run adds at most one good tag ---------- *)

Lemma flush_ok s pre0 run cs st :
  s = pre0 ++ rev run ++ cs ->
  Forall (fun c => is_delim c = false) run ->
  left_edge s (length pre0) -> right_edge cs ->
  frames_ok s (length pre0) st ->
  frames_ok s (length pre0 + length run) (flush_run (length pre0) run st).
Proof.
  intros Hs Hnd Hleft Hright Hst. unfold flush_run.
  rewrite (trim_left_offset (rev run) (length pre0)).
  destruct (trim_left (rev run) 0) as [a0 r0] eqn:E. cbn [fst snd].
  destruct (trim_left_spec _ _ _ _ E) as (k & Hl & Ha & Hr). simpl in Ha. subst a0.
  assert (Hlen : length run = k + length r0).
  { rewrite <- (rev_length run), Hl, app_length, spaces_length. reflexivity. }
  destruct Hr as [-> | (c & r & -> & Hc)].
  - eapply frames_weaken; [exact Hst | lia].
  - destruct (split_trailing c r Hc) as (b & c' & m & Hcr & Hc' & Htl).
    set (body := b ++ [c']) in *.
    assert (Hbl : 0 < length body) by (unfold body; rewrite app_length; simpl; lia).
    assert (Hrl : length (c :: r) = length body + m) by (rewrite Hcr, app_length, spaces_length; reflexivity).
    rewrite Htl.
    (* s = (pre0 ++ spaces k) ++ body ++ (spaces m ++ cs) *)
    assert (Hs2 : s = (pre0 ++ spaces k) ++ body ++ (spaces m ++ cs)).
    { rewrite Hs, Hl, Hcr. rewrite <- !app_assoc. reflexivity. }
    assert (Hp2 : length (pre0 ++ spaces k) = length pre0 + k) by (rewrite app_length, spaces_length; reflexivity).
    assert (Hsl : length s = length pre0 + k + length body + m + length cs).
    { rewrite Hs2, !app_length, !spaces_length. lia. }
    assert (Hsub : sub s (length pre0 + k) (length pre0 + k + length body) = body).
    { rewrite Hs2, <- Hp2. apply sub_mid. }
    assert (Htb : tagbody body).
    { assert (Hnd' : Forall (fun c0 => is_delim c0 = false) (rev run)) by (apply Forall_rev; exact Hnd).
      destruct (trim_text_tagbody (rev run) Hnd') as [Hnil | Htb].
      - exfalso. unfold trim_text in Hnil. rewrite E, Htl, Hcr in Hnil.
        rewrite firstn_app, firstn_all, Nat.sub_diag in Hnil. simpl in Hnil. rewrite app_nil_r in Hnil.
        fold body in Hnil. rewrite Hnil in Hbl. simpl in Hbl. lia.
      - unfold trim_text in Htb. rewrite E, Htl, Hcr in Htb.
        rewrite firstn_app, firstn_all, Nat.sub_diag in Htb. simpl in Htb. rewrite app_nil_r in Htb.
        exact Htb. }
    assert (Hnode : node_ok s (Tag (length pre0 + k) (length pre0 + k + length body))).
    { constructor; [lia | lia | rewrite Hsub; exact Htb | |].
      - exists k. split; [lia|]. replace (length pre0 + k - k) with (length pre0) by lia. split.
        + assert (Hs3 : s = pre0 ++ spaces k ++ (body ++ spaces m ++ cs)).
          { rewrite Hs2, <- !app_assoc. reflexivity. }
          rewrite Hs3. rewrite <- (spaces_length k) at 2. apply sub_mid.
        + exact Hleft.
      - exists m. split; [lia|]. split.
        + assert (Hs3 : s = ((pre0 ++ spaces k) ++ body) ++ spaces m ++ cs).
          { rewrite Hs2, <- !app_assoc. reflexivity. }
          assert (Hp3 : length ((pre0 ++ spaces k) ++ body) = length pre0 + k + length body).
          { rewrite app_length, Hp2. reflexivity. }
          rewrite Hs3, <- Hp3. rewrite <- (spaces_length m) at 2. apply sub_mid.
        + destruct Hright as [-> | (d & cs' & -> & Hd)].
          * left. simpl in Hsl. lia.
          * right. exists d. split; [|exact Hd].
            assert (Hs3 : s = (((pre0 ++ spaces k) ++ body) ++ spaces m) ++ d :: cs').
            { rewrite Hs2, <- !app_assoc. reflexivity. }
            assert (Hp3 : length (((pre0 ++ spaces k) ++ body) ++ spaces m) = length pre0 + k + length body + m).
            { rewrite !app_length, !spaces_length. lia. }
            rewrite Hs3, <- Hp3. apply nth_error_mid. }
    destruct (c :: r) as [|c0 r0'] eqn:Ecr; [discriminate|].
    eapply frames_weaken.
    + eapply (frames_push s (length pre0) st _ (length pre0 + k) (length pre0 + k + length body));
        [exact Hst | exact Hnode | reflexivity | lia | lia].
    + rewrite Hlen. rewrite <- Ecr in Hrl. rewrite Ecr in Hrl. simpl length in Hrl |- *. lia.
Qed.

(* ---------- the scanner keeps the invariant ---------- *)

Lemma loop_ok s cs : forall pre0 run st st',
  s = pre0 ++ rev run ++ cs ->
  Forall (fun c => is_delim c = false) run ->
  left_edge s (length pre0) ->
  frames_ok s (length pre0) st ->
  spec_loop cs (length pre0 + length run) (length pre0) run st = Some st' ->
  frames_ok s (length s) st'.
Proof.
  induction cs as [|c cs IH]; intros pre0 run st st' Hs Hnd Hleft Hst Hloop.
  - cbn [spec_loop] in Hloop. inversion Hloop; subst st'.
    replace (length s) with (length pre0 + length run).
    + apply (flush_ok s pre0 run [] st); auto. left. reflexivity.
    + rewrite Hs, !app_length, rev_length. simpl. lia.
  - cbn [spec_loop] in Hloop.
    set (i := length pre0 + length run) in *.
    assert (Hs' : s = (pre0 ++ rev run ++ [c]) ++ rev [] ++ cs).
    { rewrite Hs. simpl. rewrite <- !app_assoc. reflexivity. }
    assert (Hlen2 : S i = length (pre0 ++ rev run ++ [c])).
    { unfold i. rewrite !app_length, rev_length. simpl. lia. }
    assert (Hci : nth_error s i = Some c).
    { assert (Hs3 : s = (pre0 ++ rev run) ++ c :: cs) by (rewrite Hs, <- app_assoc; reflexivity).
      assert (Hp3 : length (pre0 ++ rev run) = i) by (unfold i; rewrite app_length, rev_length; reflexivity).
      rewrite Hs3, <- Hp3. apply nth_error_mid. }
    assert (Hsl : S i <= length s).
    { assert (Hne : nth_error s i <> None) by (rewrite Hci; discriminate).
      apply nth_error_Some in Hne. lia. }
    destruct (is_delim c) eqn:Hd.
    + assert (Hfl : frames_ok s i (flush_run (length pre0) run st)).
      { apply (flush_ok s pre0 run (c :: cs) st); auto. right. exists c, cs. auto. }
      assert (Hleft' : left_edge s (S i)).
      { right. exists c. replace (S i - 1) with i by lia. auto. }
      assert (Hcall : forall stx, spec_loop cs (S i) (S i) [] stx
                = spec_loop cs (length (pre0 ++ rev run ++ [c]) + length (@nil N)) (length (pre0 ++ rev run ++ [c])) [] stx).
      { intros stx. rewrite <- Hlen2. simpl. rewrite Nat.add_0_r. reflexivity. }
      destruct (N.eqb c ch_open) eqn:Ho.
      * rewrite Hcall in Hloop.
        pose proof (fun A B => IH _ [] _ st' Hs' (Forall_nil _) A B Hloop) as IH'.
        apply IH'; [rewrite <- Hlen2; exact Hleft'|].
        rewrite <- Hlen2.
        destruct (flush_run (length pre0) run st) as [|f1 rest1] eqn:Ef; [simpl in Hfl; contradiction|].
        cbn [frames_ok]. apply N.eqb_eq in Ho. subst c.
        split; [exact Hci|]. split; [|exact Hfl].
        split; [constructor | simpl; lia].
      * destruct (N.eqb c ch_close) eqn:Hc.
        -- destruct (flush_run (length pre0) run st) as [|[ga gch] [|[pa pch] rest]] eqn:Ef; try discriminate.
           rewrite Hcall in Hloop.
           pose proof (fun A B => IH _ [] _ st' Hs' (Forall_nil _) A B Hloop) as IH'.
        apply IH'; [rewrite <- Hlen2; exact Hleft'|].
           rewrite <- Hlen2.
           cbn [frames_ok] in Hfl. destruct Hfl as (Hga & [Hk1 Hk2] & Hrest).
           apply N.eqb_eq in Hc. subst c.
           pose proof (rordered_le _ _ _ Hk2) as Hgai.
           assert (HG : node_ok s (Group ga (S i) (rev gch))).
           { constructor; [exact Hsl | exact Hga | replace (S i - 1) with i by lia; exact Hci
                          | apply Forall_rev; exact Hk1 |].
             rewrite map_rev. replace (S i - 1) with i by lia. apply rordered_rev. exact Hk2. }
           apply (frames_push s ga ((pa, pch) :: rest) _ ga (S i)); [exact Hrest | exact HG | reflexivity | lia | lia].
        -- rewrite Hcall in Hloop.
           pose proof (fun A B => IH _ [] _ st' Hs' (Forall_nil _) A B Hloop) as IH'.
        apply IH'; [rewrite <- Hlen2; exact Hleft'|].
           rewrite <- Hlen2. eapply frames_weaken; [exact Hfl | lia].
    + assert (Hs2 : s = pre0 ++ rev (c :: run) ++ cs).
      { rewrite Hs. simpl. rewrite <- !app_assoc. reflexivity. }
      apply (IH pre0 (c :: run) st st' Hs2); [constructor; assumption | exact Hleft | exact Hst|].
      replace (length pre0 + length (c :: run)) with (S i) by (unfold i; simpl; lia). exact Hloop.
Qed.

(* ---------- the declarative statement ---------- *)

Theorem spec_parse_declarative (s : str) :
  Forall (node_ok s) (spec_parse s) /\ ordered 0 (length s) (map span (spec_parse s)).
Proof.
  unfold spec_parse.
  destruct (spec_loop s 0 0 [] [(0, [])]) as [st'|] eqn:E.
  - assert (H : frames_ok s (length s) st').
    { apply (loop_ok s s [] [] [(0, [])] st'); [reflexivity | constructor | left; reflexivity | | exact E].
      simpl. split; [constructor | simpl; lia]. }
    destruct st' as [|[a ch] [|f2 rest]].
    + simpl in H. contradiction.
    + simpl in H. destruct H as [H1 H2]. split; [apply Forall_rev; exact H1|].
      rewrite map_rev. apply rordered_rev. exact H2.
    + split; [constructor | simpl; lia].
  - split; [constructor | simpl; lia].
Qed.

(* every tag/group anywhere in the constructor's tree *)
Theorem init_declarative (s : str) :
  exists f, hedstring_init s = Ok f /\ Forall (node_ok s) f /\ ordered 0 (length s) (map span f).
Proof.
  exists (spec_parse s). split; [apply init_refines_spec | apply spec_parse_declarative].
Qed.
