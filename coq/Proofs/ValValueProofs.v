(* Lemmas about Model/ValValue.v *)
From Coq Require Import List NArith Arith Bool Lia.
From HV Require Import Base.Res Base.Str Model.ValKinds Model.ValStr Model.Validate Model.ValValue.
From HV Require Import Gen.ValidationCodes Proofs.ValidateProofs.
Import ListNotations.

Lemma class_issues_nonempty c : class_accepts c = false -> class_issues c <> [].
Proof.
  unfold class_issues, class_accepts. intros H. rewrite H. fold (class_accepts c).
  destruct (cv_word c) eqn:W; simpl; [|discriminate].
  simpl in H. destruct (cv_chars c); [discriminate | discriminate].
Qed.

(* a value is accepted exactly when the tag has no value class or ONE class accepts it completely
   (word form AND characters) *)
Theorem value_accept_iff cls :
  value_class_issues true cls = [] <-> (cls = [] \/ exists c, In c cls /\ class_accepts c = true).
Proof.
  unfold value_class_issues. simpl. destruct cls as [|c0 cls]; [split; auto|].
  destruct (existsb class_accepts (c0 :: cls)) eqn:E.
  - split; [|reflexivity]. intros _. right. apply existsb_exists in E. exact E.
  - split.
    + intros H. exfalso. simpl in H. apply app_eq_nil in H as [H _].
      simpl in E. apply orb_false_iff in E as [E _]. exact (class_issues_nonempty c0 E H).
    + intros [H | (c & Hc & Ha)]; [discriminate|]. exfalso.
      assert (existsb class_accepts (c0 :: cls) = true) by (apply existsb_exists; exists c; auto). congruence.
Qed.

(* no class accepts and some class rejects the word form: INVALID_VALUE_CLASS_VALUE is issued *)
Theorem value_reject_reports cls c :
  existsb class_accepts cls = false -> In c cls -> cv_word c = false ->
  In (iss K_INVALID_VALUE_CLASS_VALUE) (value_class_issues true cls).
Proof.
  intros E Hc Hw. unfold value_class_issues. simpl. destruct cls as [|c0 cls]; [contradiction|].
  rewrite E. apply in_flat_map. exists c. split; [exact Hc|].
  unfold class_issues, class_accepts. rewrite Hw. simpl. left. reflexivity.
Qed.

(* ... in the validator: a value-class tag (one or several value classes) whose value no class accepts *)
Lemma rule_bad_value_classes cfg s f t cls c :
  phase2_clean cfg s f -> phase3_total cfg f -> In t (all_tags f) ->
  str_eqb (sbase_of t) c_DEF_KEY = false -> str_eqb (sbase_of t) c_DEF_EXPAND_KEY = false ->
  str_eqb (sbase_of t) c_DEFINITION_KEY = false ->
  memb ch_hash (extension t) = false -> str_eqb (extension t) [ch_hash] = false ->
  tf_unit_class t = false -> tf_value_class t = true ->
  tf_values t = Ok (value_class_issues true cls) ->
  existsb class_accepts cls = false -> In c cls -> cv_word c = false ->
  reports cfg s f (kind_code K_INVALID_VALUE_CLASS_VALUE).
Proof.
  intros Hc Ht Hin A B Cc D E Hu Hv Hval Hno Hcin Hw.
  eapply rule_bad_value; try eassumption. apply (value_reject_reports cls c); assumption.
Qed.

(* ---------- history independence of a validator object ---------- *)
Lemma vrun_state st xs : fst (vrun st xs) = st.
Proof.
  revert st. induction xs as [|x xs IH]; intros st; [reflexivity|]. simpl.
  specialize (IH st). destruct (vrun st xs) as [st2 rs]. simpl in *. exact IH.
Qed.

Lemma vrun_results st xs : snd (vrun st xs) = map (fun x => validate (vs_cfg st) (fst x) (snd x)) xs.
Proof.
  revert st. induction xs as [|x xs IH]; intros st; [reflexivity|]. simpl.
  specialize (IH st). destruct (vrun st xs) as [st2 rs]. simpl in *. rewrite IH. reflexivity.
Qed.

(* the verdict on an annotation does not depend on what the same validator validated before *)
Theorem history_independent st before x after :
  nth_error (snd (vrun st (before ++ x :: after))) (length before)
  = Some (validate (vs_cfg st) (fst x) (snd x)).
Proof.
  rewrite vrun_results, map_app. rewrite nth_error_app2; rewrite map_length; [|lia].
  rewrite Nat.sub_diag. reflexivity.
Qed.
