(* Proofs about Model/Events.v (property C20). *)
From Coq Require Import List NArith ZArith Arith Bool Lia ZifyBool.
From HV Require Import Base.Res Model.Events.
Import ListNotations.

(* ================================================================== *)
(* generic list facts                                                  *)

Lemma nth_error_ext {A} (l1 l2 : list A) :
  (forall q, nth_error l1 q = nth_error l2 q) -> l1 = l2.
Proof.
  revert l2; induction l1 as [|x l1 IH]; intros [|y l2] H.
  - reflexivity.
  - specialize (H 0); discriminate.
  - specialize (H 0); discriminate.
  - pose proof (H 0) as H0. simpl in H0. inversion H0; subst. f_equal.
    apply IH. intro q. exact (H (S q)).
Qed.

Lemma nth_error_upd {A} (l : list A) p f q :
  nth_error (upd l p f) q = if Nat.eqb q p then option_map f (nth_error l q) else nth_error l q.
Proof.
  revert p q; induction l as [|x l IH]; intros p q.
  - simpl. destruct q; destruct (Nat.eqb _ p); reflexivity.
  - destruct p as [|p]; destruct q as [|q]; simpl; try reflexivity.
    apply IH.
Qed.

Lemma NoDup_snoc {A} (l : list A) x : NoDup l -> ~ In x l -> NoDup (l ++ [x]).
Proof.
  induction l as [|y l IH]; intros Hnd Hni; simpl.
  - constructor; [intros []|constructor].
  - inversion Hnd; subst. constructor.
    + rewrite in_app_iff. intros [H|[H|[]]]; [auto | subst; apply Hni; left; reflexivity].
    + apply IH; auto. intro H. apply Hni. right. exact H.
Qed.

Lemma NoDup_app_r {A} (l1 l2 : list A) : NoDup (l1 ++ l2) -> NoDup l2.
Proof. induction l1 as [|x l1 IH]; simpl; intro H; [exact H | inversion H; auto]. Qed.

Lemma upd_length {A} (l : list A) p f : length (upd l p f) = length l.
Proof. revert p; induction l as [|x l IH]; intros [|p]; simpl; auto. Qed.

(* ================================================================== *)
(* A. bisect_left                                                      *)

Lemma mono_cons a l : mono (a :: l) = true ->
  mono l = true /\ (forall k, k < length l -> (a <= nth k l 0)%Z).
Proof.
  revert a; induction l as [|b l IH]; intros a H.
  - split; [reflexivity | simpl; intros; lia].
  - simpl in H. apply andb_true_iff in H as [Hab Hm].
    split; [exact Hm|].
    destruct (IH _ Hm) as [_ Hb].
    intros [|k] Hk; simpl; [lia|].
    simpl in Hk. specialize (Hb k ltac:(lia)). lia.
Qed.

Lemma mono_nth l : mono l = true ->
  forall i j, i <= j -> j < length l -> (nth i l 0 <= nth j l 0)%Z.
Proof.
  induction l as [|a l IH]; intros Hm i j Hij Hj; [simpl in Hj; lia|].
  destruct (mono_cons _ _ Hm) as [Hm' Ha].
  destruct i as [|i]; destruct j as [|j]; simpl; try lia.
  - apply Ha. simpl in Hj. lia.
  - apply IH; auto; simpl in Hj; lia.
Qed.

Lemma nth_error_nth_Z (l : list Z) k : k < length l -> nth_error l k = Some (nth k l 0%Z).
Proof.
  revert k; induction l as [|a l IH]; intros [|k] H; simpl in *; try lia; auto.
  apply IH. lia.
Qed.

Lemma div2_bounds lo hi : lo < hi -> lo <= Nat.div2 (lo + hi) /\ Nat.div2 (lo + hi) < hi.
Proof.
  intro H. rewrite Nat.div2_div.
  pose proof (Nat.div_mod (lo + hi) 2 ltac:(lia)) as E.
  pose proof (Nat.mod_upper_bound (lo + hi) 2 ltac:(lia)) as U.
  lia.
Qed.

Definition bisect_post (a : list Z) (x : Z) (j : nat) : Prop :=
  j <= length a /\
  (forall k, k < j -> (nth k a 0 < x)%Z) /\
  (forall k, j <= k -> k < length a -> (x <= nth k a 0)%Z).

Lemma bisect_go_spec fuel : forall a x lo hi,
  mono a = true -> lo <= hi -> hi <= length a -> hi - lo < fuel ->
  (forall k, k < lo -> (nth k a 0 < x)%Z) ->
  (forall k, hi <= k -> k < length a -> (x <= nth k a 0)%Z) ->
  exists j, bisect_go fuel a x lo hi = Ok j /\ bisect_post a x j.
Proof.
  induction fuel as [|f IH]; intros a x lo hi Hm Hlh Hhi Hf Hlo Hup; [lia|].
  cbn [bisect_go].
  destruct (lo <? hi) eqn:Hlt.
  - apply Nat.ltb_lt in Hlt.
    destruct (div2_bounds lo hi Hlt) as [Hm1 Hm2].
    set (mid := Nat.div2 (lo + hi)) in *.
    rewrite (nth_error_nth_Z a mid) by lia.
    destruct (nth mid a 0 <? x)%Z eqn:Hv.
    + apply IH; auto; try lia.
      intros k Hk. pose proof (mono_nth a Hm k mid ltac:(lia) ltac:(lia)). lia.
    + apply IH; auto; try lia.
      intros k Hk1 Hk2. pose proof (mono_nth a Hm mid k ltac:(lia) ltac:(lia)). lia.
  - apply Nat.ltb_ge in Hlt. exists lo. split; [reflexivity|].
    assert (lo = hi) by lia. subst hi.
    repeat split; auto.
Qed.

Lemma bisect_left_spec a x : mono a = true ->
  exists j, bisect_left a x = Ok j /\ bisect_post a x j.
Proof.
  intro Hm. unfold bisect_left. apply bisect_go_spec; auto; try lia.
Qed.

Lemma bisect_post_unique a x j1 j2 : bisect_post a x j1 -> bisect_post a x j2 -> j1 = j2.
Proof.
  intros (L1 & A1 & B1) (L2 & A2 & B2).
  destruct (Nat.lt_trichotomy j1 j2) as [H|[H|H]]; auto.
  - specialize (A2 j1 H). specialize (B1 j1 ltac:(lia) ltac:(lia)). lia.
  - specialize (A1 j2 H). specialize (B2 j2 ltac:(lia) ltac:(lia)). lia.
Qed.

(* ================================================================== *)
(* B. _extract_context                                                 *)

Lemma app_at_ok {A} (l : list (list A)) i x : i < length l ->
  exists l', app_at l i x = Ok l' /\ length l' = length l /\
    forall k, nth k l' [] = if Nat.eqb k i then nth k l [] ++ [x] else nth k l [].
Proof.
  revert i; induction l as [|h t IH]; intros i Hi; [simpl in Hi; lia|].
  destruct i as [|i]; simpl.
  - eexists; split; [reflexivity|]. split; [reflexivity|].
    intros [|k]; reflexivity.
  - destruct (IH i ltac:(simpl in Hi; lia)) as (t' & E & L & N).
    rewrite E. simpl. eexists; split; [reflexivity|]. split; [simpl; lia|].
    intros [|k]; simpl; [reflexivity|]. apply N.
Qed.

Lemma add_range_ok {A} cnt : forall (c : list (list A)) lo x, lo + cnt <= length c ->
  exists c', add_range c lo cnt x = Ok c' /\ length c' = length c /\
    forall k, nth k c' [] = if (lo <=? k) && (k <? lo + cnt) then nth k c [] ++ [x] else nth k c [].
Proof.
  induction cnt as [|cnt IH]; intros c lo x H.
  - simpl. exists c. repeat split; auto. intro k.
    destruct ((lo <=? k) && (k <? lo + 0)) eqn:E; [lia | reflexivity].
  - simpl. destruct (app_at_ok c lo x ltac:(lia)) as (c1 & E1 & L1 & N1).
    rewrite E1. simpl.
    destruct (IH c1 (S lo) x ltac:(lia)) as (c2 & E2 & L2 & N2).
    exists c2. split; [exact E2|]. split; [lia|].
    intro k. rewrite N2, N1.
    destruct (Nat.eqb k lo) eqn:Ek.
    + apply Nat.eqb_eq in Ek. subst k.
      replace ((S lo <=? lo) && (lo <? S lo + cnt)) with false by lia.
      replace ((lo <=? lo) && (lo <? lo + S cnt)) with true by lia. reflexivity.
    + apply Nat.eqb_neq in Ek.
      replace ((lo <=? k) && (k <? lo + S cnt)) with ((S lo <=? k) && (k <? S lo + cnt)) by lia.
      reflexivity.
Qed.

(* every event is closed, starts at a row and ends at most at the number of rows *)
Definition ev_wf (n : nat) (e : tevent) : Prop :=
  ev_start e < n /\ exists j, ev_end e = Some j /\ j <= n.

Definition in_ctx (k : nat) (e : tevent) : bool :=
  (ev_start e <? k) && (k <? ev_end_index e).

Lemma context_fold_ok n : forall evs base ctx,
  Forall (ev_wf n) evs -> length base = n -> length ctx = n ->
  exists base' ctx', foldM context_step evs (base, ctx) = Ok (base', ctx') /\
    length base' = n /\ length ctx' = n /\
    (forall k, nth k base' [] = nth k base [] ++ filter (fun e => Nat.eqb (ev_start e) k) evs) /\
    (forall k, nth k ctx' [] = nth k ctx [] ++ filter (in_ctx k) evs).
Proof.
  induction evs as [|e evs IH]; intros base ctx Hwf Lb Lc.
  - exists base, ctx. simpl. repeat split; auto; intro k; rewrite app_nil_r; reflexivity.
  - inversion Hwf as [|? ? (Hs & j & Hj & Hjn) Hwf']; subst.
    cbn [foldM context_step bind].
    destruct (app_at_ok base (ev_start e) e ltac:(lia)) as (b1 & E1 & L1 & N1).
    rewrite E1. cbn [bind]. rewrite Hj.
    destruct (Nat.le_gt_cases j (S (ev_start e))) as [Hle|Hgt].
    + (* empty range *)
      replace (j - S (ev_start e)) with 0 by lia. cbn [add_range bind].
      destruct (IH b1 ctx Hwf' ltac:(lia) Lc) as (b2 & c2 & E2 & Lb2 & Lc2 & NB & NC).
      exists b2, c2. split; [exact E2|]. repeat split; auto.
      * intro k. rewrite NB, N1. cbn [filter]. rewrite (Nat.eqb_sym k (ev_start e)).
        destruct (Nat.eqb (ev_start e) k); [rewrite <- app_assoc|]; reflexivity.
      * intro k. rewrite NC. cbn [filter]. unfold in_ctx at 2. unfold ev_end_index. rewrite Hj.
        replace ((ev_start e <? k) && (k <? j)) with false by lia. reflexivity.
    + destruct (add_range_ok (j - S (ev_start e)) ctx (S (ev_start e)) e ltac:(lia)) as (c1 & E3 & L3 & N3).
      rewrite E3. cbn [bind].
      destruct (IH b1 c1 Hwf' ltac:(lia) ltac:(lia)) as (b2 & c2 & E2 & Lb2 & Lc2 & NB & NC).
      exists b2, c2. split; [exact E2|]. repeat split; auto.
      * intro k. rewrite NB, N1. cbn [filter]. rewrite (Nat.eqb_sym k (ev_start e)).
        destruct (Nat.eqb (ev_start e) k); [rewrite <- app_assoc|]; reflexivity.
      * intro k. rewrite NC, N3. cbn [filter]. unfold in_ctx at 2. unfold ev_end_index. rewrite Hj.
        replace ((S (ev_start e) <=? k) && (k <? S (ev_start e) + (j - S (ev_start e))))
          with ((ev_start e <? k) && (k <? j)) by lia.
        destruct ((ev_start e <? k) && (k <? j)); [rewrite <- app_assoc|]; reflexivity.
Qed.

Lemma nth_map_nil {A B} (l : list A) k : nth k (map (fun _ => @nil B) l) [] = [].
Proof. revert k; induction l as [|x l IH]; intros [|k]; simpl; auto. Qed.

(* ================================================================== *)
(* C. the scanning loop of _create_event_list                          *)

(* C.1  the loop as one fold over a flat operation sequence *)
Inductive phase : Set := PT | PD.
Definition op : Set := (phase * nat * Z * item)%type.

Definition step (onsets : list Z) (st : estate) (o : op) : res estate :=
  match o with
  | (PT, i, t, it) => temporal_step i t st it
  | (PD, i, t, it) => let* hp := duration_step onsets i t (fst st) it in Ok (hp, snd st)
  end.

Definition row_ops (i : nat) (r : row) : list op :=
  map (fun it => (PT, i, r_onset r, it)) (r_items r) ++
  map (fun it => (PD, i, r_onset r, it)) (r_items r).

Fixpoint flat_ops (i : nat) (rows : list row) : list op :=
  match rows with
  | [] => []
  | r :: rs => row_ops i r ++ flat_ops (S i) rs
  end.

Lemma foldM_app {A B} (f : A -> B -> res A) l1 l2 a :
  foldM f (l1 ++ l2) a = let* a' := foldM f l1 a in foldM f l2 a'.
Proof.
  revert a; induction l1 as [|x l1 IH]; intro a; simpl; [reflexivity|].
  destruct (f a x); simpl; auto.
Qed.

Lemma foldM_map {A B C} (f : A -> B -> res A) (g : C -> B) l a :
  foldM f (map g l) a = foldM (fun a x => f a (g x)) l a.
Proof.
  revert a; induction l as [|x l IH]; intro a; simpl; [reflexivity|].
  destruct (f a (g x)); simpl; auto.
Qed.

Lemma foldM_pair {B} (f : list tevent -> B -> res (list tevent)) l hp (od : odict) :
  foldM (fun (a : estate) x => let* h := f (fst a) x in Ok (h, snd a)) l (hp, od) =
  let* h := foldM f l hp in Ok (h, od).
Proof.
  revert hp; induction l as [|x l IH]; intro hp; simpl; [reflexivity|].
  destruct (f hp x); simpl; auto.
Qed.

Lemma scan_rows_flat onsets : forall rows i st,
  scan_rows onsets i rows st = foldM (step onsets) (flat_ops i rows) st.
Proof.
  induction rows as [|r rs IH]; intros i st; [reflexivity|].
  cbn [scan_rows flat_ops]. unfold row_ops. rewrite <- app_assoc, foldM_app, foldM_map.
  change (foldM (fun a x => step onsets a (PT, i, r_onset r, x)) (r_items r) st)
    with (foldM (temporal_step i (r_onset r)) (r_items r) st).
  destruct (foldM (temporal_step i (r_onset r)) (r_items r) st) as [[hp od]|e]; [|reflexivity].
  cbn [bind fst snd]. rewrite foldM_app, foldM_map.
  change (foldM (fun a x => step onsets a (PD, i, r_onset r, x)) (r_items r) (hp, od))
    with (foldM (fun (a : estate) x => let* h := duration_step onsets i (r_onset r) (fst a) x in Ok (h, snd a))
                (r_items r) (hp, od)).
  rewrite (foldM_pair (duration_step onsets i (r_onset r)) (r_items r) hp od).
  destruct (foldM (duration_step onsets i (r_onset r)) (r_items r) hp); cbn [bind]; [apply IH | reflexivity].
Qed.

(* C.2  pointer-free heap: every event carries the name under which it is still open *)
Definition aheap : Set := list (tevent * option N).

Definition cl (a : N) (i : nat) (t : Z) (x : tevent * option N) : tevent * option N :=
  match snd x with
  | Some b => if N.eqb b a then (set_end_ev i (Some t) (fst x), None) else x
  | None => x
  end.

Definition tag_is (a : N) (x : tevent * option N) : bool :=
  match snd x with Some b => N.eqb b a | None => false end.

Definition has_open (a : N) (ah : aheap) : bool := existsb (tag_is a) ah.

Definition astep (onsets : list Z) (ah : aheap) (o : op) : res aheap :=
  match o with
  | (PT, i, t, it) =>
      match it_kind it with
      | KOnset a => Ok (map (cl a i t) ah ++ [(mkEv i t None None it, Some a)])
      | KOffset a => if has_open a ah then Ok (map (cl a i t) ah) else Exn KeyError
      | _ => Ok ah
      end
  | (PD, i, t, it) =>
      match it_kind it with
      | KDuration d =>
          let* ei := bisect_left onsets (t + d) in
          Ok (ah ++ [(mkEv i t (Some ei) (Some (t + d)%Z) it, None)])
      | _ => Ok ah
      end
  end.

Definition R (st : estate) (ah : aheap) : Prop :=
  fst st = map fst ah /\ NoDup (map fst (snd st)) /\
  forall a p, In (a, p) (snd st) <-> nth_error (map snd ah) p = Some (Some a).

Lemma od_mem_true a od : od_mem a od = true <-> exists p, In (a, p) od.
Proof.
  unfold od_mem. rewrite existsb_exists. split.
  - intros ([k p] & Hin & He). simpl in He. apply N.eqb_eq in He. subst. eauto.
  - intros (p & Hin). exists (a, p). split; auto. simpl. apply N.eqb_refl.
Qed.

Lemma NoDup_fst_inj (od : odict) a p q :
  NoDup (map fst od) -> In (a, p) od -> In (a, q) od -> p = q.
Proof.
  induction od as [|[k v] od IH]; intros Hnd Hp Hq; [destruct Hp|].
  simpl in Hnd. inversion Hnd as [|? ? Hni Hnd']; subst.
  destruct Hp as [Hp|Hp]; destruct Hq as [Hq|Hq].
  - congruence.
  - inversion Hp; subst. exfalso. apply Hni. apply (in_map fst) in Hq. exact Hq.
  - inversion Hq; subst. exfalso. apply Hni. apply (in_map fst) in Hp. exact Hp.
  - auto.
Qed.

Lemma od_pop_spec a : forall od, NoDup (map fst od) -> od_mem a od = true ->
  exists p od', od_pop a od = Ok (p, od') /\ In (a, p) od /\ NoDup (map fst od') /\
    (forall b q, In (b, q) od' <-> In (b, q) od /\ b <> a).
Proof.
  induction od as [|[k v] od IH]; intros Hnd Hm; [discriminate|].
  simpl in Hnd. inversion Hnd as [|? ? Hni Hnd']; subst.
  cbn [od_pop]. destruct (N.eqb k a) eqn:Hk.
  - apply N.eqb_eq in Hk. subst k. exists v, od. split; [reflexivity|]. split; [left; reflexivity|].
    split; [exact Hnd'|]. intros b q. split.
    + intro H. split; [right; exact H|]. intro; subst b. apply Hni. apply (in_map fst) in H. exact H.
    + intros [[H|H] Hne]; [inversion H; subst; congruence | exact H].
  - assert (Hm' : od_mem a od = true).
    { unfold od_mem in *. simpl in Hm. rewrite Hk in Hm. exact Hm. }
    destruct (IH Hnd' Hm') as (p & od' & E & Hin & Hnd2 & Hiff).
    rewrite E. cbn [bind]. exists p, ((k, v) :: od'). split; [reflexivity|].
    split; [right; exact Hin|]. split.
    + simpl. constructor; auto. intro Hc. apply in_map_iff in Hc as ([k' v'] & Hf & Hc). simpl in Hf. subst k'.
      apply Hiff in Hc as [Hc _]. apply Hni. apply (in_map fst) in Hc. exact Hc.
    + intros b q. simpl. rewrite Hiff. apply N.eqb_neq in Hk. split.
      * intros [H|[H1 H2]]; [inversion H; subst; split; auto | split; auto].
      * intros [[H|H] Hne]; [left; exact H | right; split; auto].
Qed.

Lemma od_pop_fail a : forall od, od_mem a od = false -> od_pop a od = Exn KeyError.
Proof.
  induction od as [|[k v] od IH]; intro Hm; [reflexivity|].
  unfold od_mem in Hm. simpl in Hm. apply orb_false_iff in Hm as [Hk Hm].
  cbn [od_pop]. rewrite Hk. rewrite (IH Hm). reflexivity.
Qed.

Lemma has_open_iff a (ah : aheap) :
  has_open a ah = true <-> exists p, nth_error (map snd ah) p = Some (Some a).
Proof.
  unfold has_open. rewrite existsb_exists. split.
  - intros ([e tg] & Hin & Ht). unfold tag_is in Ht. simpl in Ht.
    destruct tg as [b|]; [|discriminate]. apply N.eqb_eq in Ht. subst b.
    apply In_nth_error in Hin as (p & Hp). exists p. rewrite nth_error_map, Hp. reflexivity.
  - intros (p & Hp). rewrite nth_error_map in Hp.
    destruct (nth_error ah p) as [[e tg]|] eqn:E; [|discriminate]. simpl in Hp. inversion Hp; subst.
    exists (e, Some a). split; [eapply nth_error_In; eauto|]. unfold tag_is. simpl. apply N.eqb_refl.
Qed.

Lemma R_mem st ah a : R st ah -> od_mem a (snd st) = has_open a ah.
Proof.
  intros (_ & _ & Ht).
  destruct (od_mem a (snd st)) eqn:E1; destruct (has_open a ah) eqn:E2; auto.
  - apply od_mem_true in E1 as (p & Hp). apply Ht in Hp.
    assert (has_open a ah = true) by (apply has_open_iff; eauto). congruence.
  - apply has_open_iff in E2 as (p & Hp). apply Ht in Hp.
    assert (od_mem a (snd st) = true) by (apply od_mem_true; eauto). congruence.
Qed.

Lemma sim_close hp od ah a p od' i t :
  R (hp, od) ah -> In (a, p) od -> NoDup (map fst od') ->
  (forall b q, In (b, q) od' <-> In (b, q) od /\ b <> a) ->
  R (set_end hp p i (Some t), od') (map (cl a i t) ah).
Proof.
  intros (Hh & Hnd & Ht) Hin Hnd' Hiff. cbn [fst snd] in *.
  split; [|split]; cbn [fst snd].
  - subst hp. unfold set_end. apply nth_error_ext. intro q.
    rewrite nth_error_upd, !nth_error_map.
    destruct (nth_error ah q) as [[e tg]|] eqn:E; cbn [option_map].
    + assert (Htg : nth_error (map snd ah) q = Some tg) by (rewrite nth_error_map, E; reflexivity).
      destruct (Nat.eqb q p) eqn:Eq.
      * apply Nat.eqb_eq in Eq. subst q. apply Ht in Hin. rewrite Hin in Htg. inversion Htg; subst tg.
        unfold cl. simpl. rewrite N.eqb_refl. reflexivity.
      * apply Nat.eqb_neq in Eq. unfold cl. simpl. destruct tg as [b|]; [|reflexivity].
        destruct (N.eqb b a) eqn:Eb; [|reflexivity].
        apply N.eqb_eq in Eb. subst b. apply Ht in Htg.
        exfalso. apply Eq. exact (NoDup_fst_inj od a q p Hnd Htg Hin).
    + destruct (Nat.eqb q p); reflexivity.
  - exact Hnd'.
  - intros b q. rewrite Hiff, Ht, !nth_error_map.
    destruct (nth_error ah q) as [[e tg]|] eqn:E; cbn [option_map]; [|split; [intros [? ?]|intro]; discriminate].
    unfold cl. simpl. destruct tg as [c|].
    + destruct (N.eqb c a) eqn:Ec; simpl.
      * apply N.eqb_eq in Ec. subst c. split; [intros [H1 H2]; inversion H1; congruence | discriminate].
      * apply N.eqb_neq in Ec. split; [intros [H1 H2]; exact H1 | intro H1; split; [exact H1 | inversion H1; congruence]].
    + simpl. split; [intros [? ?]|intro]; discriminate.
Qed.

Lemma R_length hp od ah : R (hp, od) ah -> length hp = length ah.
Proof. intros (Hh & _). cbn [fst] in Hh. subst. apply map_length. Qed.

Lemma sim_push hp od ah a e :
  R (hp, od) ah -> (forall q, ~ In (a, q) od) ->
  R (hp ++ [e], od ++ [(a, length hp)]) (ah ++ [(e, Some a)]).
Proof.
  intros HR Hni. pose proof (R_length _ _ _ HR) as HL.
  destruct HR as (Hh & Hnd & Ht). cbn [fst snd] in *.
  split; [|split]; cbn [fst snd].
  - rewrite map_app. subst hp. reflexivity.
  - rewrite map_app. simpl. apply NoDup_snoc; auto.
    intro Hc. apply in_map_iff in Hc as ([k v] & Hf & Hc). simpl in Hf. subst k. eapply Hni; eauto.
  - intros b q. rewrite in_app_iff, map_app. simpl.
    destruct (Nat.lt_ge_cases q (length (map snd ah))) as [Hlt|Hge].
    + rewrite nth_error_app1 by exact Hlt. rewrite <- Ht. split; [intros [H|[H|[]]]; auto | auto].
      inversion H; subst. rewrite ?map_length in *. lia.
    + rewrite nth_error_app2 by exact Hge. rewrite map_length in *. split.
      * intros [H|[H|[]]].
        -- apply Ht in H. assert (H0 : nth_error (map snd ah) q <> None) by congruence.
           apply nth_error_Some in H0. rewrite map_length in H0. lia.
        -- inversion H; subst b q. rewrite HL, Nat.sub_diag. reflexivity.
      * intro H. destruct (q - length ah) as [|d] eqn:Ed; simpl in H; [|destruct d; discriminate].
        inversion H; subst. right. left. f_equal. lia.
Qed.

Definition sim_res (r1 : res estate) (r2 : res aheap) : Prop :=
  match r1, r2 with
  | Ok st, Ok ah => R st ah
  | Exn e1, Exn e2 => e1 = e2
  | _, _ => False
  end.

Lemma sim_step onsets st ah o : R st ah -> sim_res (step onsets st o) (astep onsets ah o).
Proof.
  intro HR. destruct st as [hp od]. destruct o as [[[ph i] t] it]. destruct ph; cbn [step astep].
  - unfold temporal_step. destruct (it_kind it) as [a|a|d|] eqn:K; try exact HR.
    + (* Onset *)
      destruct (od_mem a od) eqn:Hm.
      * destruct HR as (Hh & Hnd & Ht). cbn [fst snd] in *.
        destruct (od_pop_spec a od Hnd Hm) as (p & od' & E & Hin & Hnd' & Hiff).
        rewrite E. cbn [bind].
        pose proof (sim_close hp od ah a p od' i t (conj Hh (conj Hnd Ht)) Hin Hnd' Hiff) as HR1.
        unfold sim_res.
        apply sim_push; [exact HR1|].
        intros q Hq. apply Hiff in Hq as [_ Hq]. congruence.
      * cbn [bind]. unfold sim_res.
        assert (Hcl : map (cl a i t) ah = ah).
        { rewrite <- (map_id ah) at 2. apply map_ext_in. intros [e tg] Hin. unfold cl. simpl.
          destruct tg as [b|]; [|reflexivity]. destruct (N.eqb b a) eqn:Eb; [|reflexivity].
          apply N.eqb_eq in Eb. subst b.
          assert (Ho : has_open a ah = true).
          { unfold has_open. apply existsb_exists. exists (e, Some a). split; [exact Hin|].
            unfold tag_is. simpl. apply N.eqb_refl. }
          rewrite <- (R_mem _ _ a HR) in Ho. cbn [snd] in Ho. congruence. }
        rewrite Hcl. apply sim_push; [exact HR|].
        intros q Hq. assert (od_mem a od = true) by (apply od_mem_true; eauto). congruence.
    + (* Offset *)
      rewrite <- (R_mem _ _ a HR). cbn [snd].
      destruct (od_mem a od) eqn:Hm.
      * destruct HR as (Hh & Hnd & Ht). cbn [fst snd] in *.
        destruct (od_pop_spec a od Hnd Hm) as (p & od' & E & Hin & Hnd' & Hiff).
        rewrite E. cbn [bind]. unfold sim_res.
        exact (sim_close hp od ah a p od' i t (conj Hh (conj Hnd Ht)) Hin Hnd' Hiff).
      * rewrite (od_pop_fail a od Hm). reflexivity.
  - unfold duration_step. cbn [fst snd]. destruct (it_kind it) as [a|a|d|] eqn:K; try exact HR.
    destruct (bisect_left onsets (t + d)) as [ei|e]; cbn [bind]; [|reflexivity].
    unfold sim_res. destruct HR as (Hh & Hnd & Ht). cbn [fst snd] in *.
    split; [|split]; cbn [fst snd].
    + rewrite map_app. subst hp. reflexivity.
    + exact Hnd.
    + intros b q. rewrite Ht, map_app. simpl.
      destruct (Nat.lt_ge_cases q (length (map snd ah))) as [Hlt|Hge].
      * rewrite nth_error_app1 by exact Hlt. reflexivity.
      * rewrite nth_error_app2 by exact Hge.
        split; intro H.
        -- assert (H0 : nth_error (map snd ah) q <> None) by congruence.
           apply nth_error_Some in H0. lia.
        -- destruct (q - length (map snd ah)) as [|k]; simpl in H; [discriminate | destruct k; discriminate].
Qed.

Lemma sim_run onsets : forall ops st ah, R st ah ->
  sim_res (foldM (step onsets) ops st) (foldM (astep onsets) ops ah).
Proof.
  induction ops as [|o ops IH]; intros st ah HR; [exact HR|].
  cbn [foldM]. pose proof (sim_step onsets st ah o HR) as Hs.
  destruct (step onsets st o) as [st'|e1]; destruct (astep onsets ah o) as [ah'|e2]; simpl in Hs; try contradiction.
  - cbn [bind]. apply IH. exact Hs.
  - cbn [bind]. exact Hs.
Qed.

Lemma R_nil : R ([], []) [].
Proof.
  split; [reflexivity|]. split; [constructor|].
  intros a p. simpl. split; [intros [] | destruct p; discriminate].
Qed.

(* C.3  what the pointer-free run computes *)
Fixpoint next_mark (a : N) (ops : list op) : option (nat * Z) :=
  match ops with
  | [] => None
  | (PT, i, t, it) :: rest => if marker_of a it then Some (i, t) else next_mark a rest
  | (PD, _, _, _) :: rest => next_mark a rest
  end.

Definition fate (ops : list op) (x : tevent * option N) : tevent * option N :=
  match snd x with
  | Some a => match next_mark a ops with
              | Some (j, tj) => (set_end_ev j (Some tj) (fst x), None)
              | None => x
              end
  | None => x
  end.

Definition bisect_idx (onsets : list Z) (x : Z) : nat :=
  match bisect_left onsets x with Ok j => j | Exn _ => 0 end.

Fixpoint spec_ops (onsets : list Z) (ops : list op) : aheap :=
  match ops with
  | [] => []
  | (PT, i, t, it) :: rest =>
      match it_kind it with
      | KOnset a => fate rest (mkEv i t None None it, Some a) :: spec_ops onsets rest
      | _ => spec_ops onsets rest
      end
  | (PD, i, t, it) :: rest =>
      match it_kind it with
      | KDuration d =>
          (mkEv i t (Some (bisect_idx onsets (t + d))) (Some (t + d)%Z) it, None) :: spec_ops onsets rest
      | _ => spec_ops onsets rest
      end
  end.

Lemma fate_nil x : fate [] x = x.
Proof. destruct x as [e [a|]]; reflexivity. Qed.

Lemma fate_closed ops e : fate ops (e, None) = (e, None).
Proof. reflexivity. Qed.

Lemma fate_cl rest a i t it x :
  (forall b, marker_of b it = N.eqb b a) ->
  fate rest (cl a i t x) = fate ((PT, i, t, it) :: rest) x.
Proof.
  intro Hm. destruct x as [e [b|]]; [|reflexivity].
  unfold fate, cl. cbn [snd fst next_mark]. rewrite Hm.
  destruct (N.eqb b a) eqn:Eb; cbn [snd fst]; reflexivity.
Qed.

Lemma fate_skip rest ph i t it x :
  (forall b, ph = PT -> marker_of b it = false) ->
  fate ((ph, i, t, it) :: rest) x = fate rest x.
Proof.
  intro Hm. destruct x as [e [b|]]; [|reflexivity].
  unfold fate. cbn [snd fst next_mark]. destruct ph; [rewrite Hm by reflexivity|]; reflexivity.
Qed.

Lemma marker_onset it a : it_kind it = KOnset a -> forall b, marker_of b it = N.eqb b a.
Proof. intros K b. unfold marker_of. rewrite K. apply N.eqb_sym. Qed.

Lemma marker_offset it a : it_kind it = KOffset a -> forall b, marker_of b it = N.eqb b a.
Proof. intros K b. unfold marker_of. rewrite K. apply N.eqb_sym. Qed.

Lemma arun_spec onsets : forall ops ah ah',
  foldM (astep onsets) ops ah = Ok ah' -> ah' = map (fate ops) ah ++ spec_ops onsets ops.
Proof.
  induction ops as [|o ops IH]; intros ah ah' H.
  - simpl in H. inversion H; subst. rewrite app_nil_r.
    rewrite <- (map_id ah') at 1. apply map_ext. intro x. symmetry. apply fate_nil.
  - destruct o as [[[ph i] t] it]. cbn [foldM] in H.
    destruct ph; cbn [astep spec_ops] in *.
    + destruct (it_kind it) as [a|a|d|] eqn:K.
      * cbn [bind] in H. apply IH in H. subst ah'.
        rewrite map_app, map_map. cbn [map]. rewrite <- app_assoc. cbn [app].
        f_equal. apply map_ext. intro x. apply fate_cl. apply marker_onset. exact K.
      * destruct (has_open a ah); cbn [bind] in H; [|discriminate].
        apply IH in H. subst ah'. rewrite map_map. f_equal.
        apply map_ext. intro x. apply fate_cl. apply marker_offset. exact K.
      * cbn [bind] in H. apply IH in H. subst ah'. f_equal.
        apply map_ext. intro x. symmetry. apply fate_skip. intros b _. unfold marker_of. rewrite K. reflexivity.
      * cbn [bind] in H. apply IH in H. subst ah'. f_equal.
        apply map_ext. intro x. symmetry. apply fate_skip. intros b _. unfold marker_of. rewrite K. reflexivity.
    + destruct (it_kind it) as [a|a|d|] eqn:K;
        try (cbn [bind] in H; apply IH in H; subst ah'; reflexivity).
      unfold bisect_idx. destruct (bisect_left onsets (t + d)) as [ei|e]; cbn [bind] in H; [|discriminate].
      apply IH in H. subst ah'. rewrite map_app. cbn [map]. rewrite fate_closed, <- app_assoc. reflexivity.
Qed.

(* C.4  closing what is still open at the end of the file *)
Lemma set_end_ev_idem n e : set_end_ev n None (set_end_ev n None e) = set_end_ev n None e.
Proof. reflexivity. Qed.

Lemma close_open_nth n : forall od hp q,
  nth_error (close_open n od hp) q =
  if existsb (fun kv : N * nat => Nat.eqb (snd kv) q) od
  then option_map (set_end_ev n None) (nth_error hp q) else nth_error hp q.
Proof.
  induction od as [|[a p] od IH]; intros hp q; [reflexivity|].
  cbn [close_open existsb snd]. rewrite IH. unfold set_end. rewrite nth_error_upd.
  rewrite (Nat.eqb_sym p q).
  destruct (Nat.eqb q p); destruct (existsb _ od); cbn [orb]; try reflexivity.
  destruct (nth_error hp q); reflexivity.
Qed.

Definition final (n : nat) (x : tevent * option N) : tevent :=
  match snd x with Some _ => set_end_ev n None (fst x) | None => fst x end.

Lemma close_open_final n hp od ah : R (hp, od) ah -> close_open n od hp = map (final n) ah.
Proof.
  intros (Hh & Hnd & Ht). cbn [fst snd] in *. apply nth_error_ext. intro q.
  rewrite close_open_nth, nth_error_map. subst hp. rewrite nth_error_map.
  destruct (nth_error ah q) as [[e tg]|] eqn:E; cbn [option_map].
  - assert (Htg : nth_error (map snd ah) q = Some tg) by (rewrite nth_error_map, E; reflexivity).
    unfold final. cbn [fst snd].
    destruct (existsb (fun kv : N * nat => Nat.eqb (snd kv) q) od) eqn:Ex.
    + apply existsb_exists in Ex as ([a p] & Hin & Hp). cbn [snd] in Hp. apply Nat.eqb_eq in Hp. subst p.
      apply Ht in Hin. rewrite Hin in Htg. inversion Htg; subst. reflexivity.
    + destruct tg as [a|]; [|reflexivity].
      apply Ht in Htg. exfalso.
      assert (existsb (fun kv : N * nat => Nat.eqb (snd kv) q) od = true).
      { apply existsb_exists. exists (a, q). split; [exact Htg|]. cbn [snd]. apply Nat.eqb_refl. }
      congruence.
  - destruct (existsb _ od); reflexivity.
Qed.

(* the heap after the loop and the closing pass, as a function of the operation sequence *)
Definition spec_heap (onsets : list Z) (n : nat) (ops : list op) : list tevent :=
  map (final n) (spec_ops onsets ops).

Lemma scan_heap onsets n rows hp od :
  scan_rows onsets 0 rows ([], []) = Ok (hp, od) ->
  close_open n od hp = spec_heap onsets n (flat_ops 0 rows).
Proof.
  intro H. rewrite scan_rows_flat in H.
  pose proof (sim_run onsets (flat_ops 0 rows) _ _ R_nil) as Hs. rewrite H in Hs.
  destruct (foldM (astep onsets) (flat_ops 0 rows) []) as [ah|e] eqn:E; simpl in Hs; [|contradiction].
  apply arun_spec in E. simpl in E. subst ah.
  unfold spec_heap. apply close_open_final. exact Hs.
Qed.

(* C.5  from the flat sequence back to rows (uses: a name occurs at most once per time point) *)
Fixpoint next_row (a : N) (i : nat) (rows : list row) : option (nat * Z) :=
  match rows with
  | [] => None
  | r :: rs => if row_marks a r then Some (i, r_onset r) else next_row a (S i) rs
  end.

Lemma next_mark_app a l1 l2 :
  next_mark a (l1 ++ l2) = match next_mark a l1 with Some x => Some x | None => next_mark a l2 end.
Proof.
  induction l1 as [|[[[ph i] t] it] l1 IH]; [reflexivity|].
  destruct ph; cbn [app next_mark]; [destruct (marker_of a it); auto | auto].
Qed.

Lemma next_mark_PT a i t its :
  next_mark a (map (fun it => (PT, i, t, it)) its) = if existsb (marker_of a) its then Some (i, t) else None.
Proof.
  induction its as [|it its IH]; [reflexivity|]. cbn [map next_mark existsb].
  destruct (marker_of a it); [reflexivity | exact IH].
Qed.

Lemma next_mark_PD a i t its : next_mark a (map (fun it => (PD, i, t, it)) its) = None.
Proof. induction its as [|it its IH]; [reflexivity | exact IH]. Qed.

Lemma next_mark_flat a : forall rows i, next_mark a (flat_ops i rows) = next_row a i rows.
Proof.
  induction rows as [|r rs IH]; intro i; [reflexivity|].
  cbn [flat_ops next_row]. unfold row_ops. rewrite !next_mark_app, next_mark_PT, next_mark_PD.
  unfold row_marks. destruct (existsb (marker_of a) (r_items r)); [reflexivity | apply IH].
Qed.

Definition close_at (n i : nat) (t : Z) (it : item) (nx : option (nat * Z)) : tevent :=
  match nx with
  | Some (j, tj) => mkEv i t (Some j) (Some tj) it
  | None => mkEv i t (Some n) None it
  end.

Definition onset_events (n i : nat) (r : row) (rs : list row) : list tevent :=
  flat_map (fun it => match it_kind it with
                      | KOnset a => [close_at n i (r_onset r) it (next_row a (S i) rs)]
                      | _ => []
                      end) (r_items r).

Definition duration_events (onsets : list Z) (i : nat) (r : row) : list tevent :=
  flat_map (fun it => match it_kind it with
                      | KDuration d => [mkEv i (r_onset r) (Some (bisect_idx onsets (r_onset r + d)))
                                             (Some (r_onset r + d)%Z) it]
                      | _ => []
                      end) (r_items r).

Definition names_of (its : list item) : list N :=
  flat_map (fun it => match it_kind it with KOnset a => [a] | KOffset a => [a] | _ => [] end) its.

Lemma not_marked a its : ~ In a (names_of its) -> existsb (marker_of a) its = false.
Proof.
  induction its as [|it its IH]; intro H; [reflexivity|].
  cbn [existsb]. unfold names_of in H. cbn [flat_map] in H. rewrite in_app_iff in H.
  rewrite IH by (intro Hc; apply H; right; exact Hc). rewrite orb_false_r.
  unfold marker_of. destruct (it_kind it) as [b|b|d|]; auto;
    (destruct (N.eqb b a) eqn:E; [apply N.eqb_eq in E; subst; exfalso; apply H; left; left; reflexivity | reflexivity]).
Qed.

Lemma final_fate n rest i t it a :
  final n (fate rest (mkEv i t None None it, Some a)) = close_at n i t it (next_mark a rest).
Proof.
  unfold fate, final, close_at. cbn [snd fst].
  destruct (next_mark a rest) as [[j tj]|]; reflexivity.
Qed.

Lemma spec_PT onsets n i t tail : forall its, NoDup (names_of its) ->
  spec_heap onsets n (map (fun it => (PT, i, t, it)) its ++ tail) =
  flat_map (fun it => match it_kind it with
                      | KOnset a => [close_at n i t it (next_mark a tail)]
                      | _ => []
                      end) its ++ spec_heap onsets n tail.
Proof.
  unfold spec_heap. induction its as [|it its IH]; intro Hnd; [reflexivity|].
  cbn [map app spec_ops flat_map].
  assert (Hnd' : NoDup (names_of its)).
  { unfold names_of in *. cbn [flat_map] in Hnd. apply NoDup_app_r in Hnd. exact Hnd. }
  destruct (it_kind it) as [a|a|d|] eqn:K; cbn [app]; try (apply IH; exact Hnd').
  cbn [map]. rewrite final_fate, IH by exact Hnd'. f_equal. f_equal.
  rewrite next_mark_app, next_mark_PT, not_marked; [reflexivity|].
  unfold names_of in Hnd. cbn [flat_map] in Hnd. rewrite K in Hnd. inversion Hnd; subst. assumption.
Qed.

Lemma spec_PD onsets n i t tail : forall its,
  spec_heap onsets n (map (fun it => (PD, i, t, it)) its ++ tail) =
  flat_map (fun it => match it_kind it with
                      | KDuration d => [mkEv i t (Some (bisect_idx onsets (t + d))) (Some (t + d)%Z) it]
                      | _ => []
                      end) its ++ spec_heap onsets n tail.
Proof.
  unfold spec_heap. induction its as [|it its IH]; [reflexivity|].
  cbn [map app spec_ops flat_map].
  destruct (it_kind it) as [a|a|d|] eqn:K; cbn [app]; try exact IH.
  cbn [map]. rewrite IH. reflexivity.
Qed.

Fixpoint spec_rows (onsets : list Z) (n i : nat) (rows : list row) : list (list tevent) :=
  match rows with
  | [] => []
  | r :: rs => (onset_events n i r rs ++ duration_events onsets i r) :: spec_rows onsets n (S i) rs
  end.

Lemma spec_heap_rows onsets n : forall rows i,
  Forall (fun r => NoDup (marker_names r)) rows ->
  spec_heap onsets n (flat_ops i rows) = concat (spec_rows onsets n i rows).
Proof.
  induction rows as [|r rs IH]; intros i Hf; [reflexivity|].
  inversion Hf as [|? ? Hr Hf']; subst.
  cbn [flat_ops spec_rows concat]. unfold row_ops. rewrite <- app_assoc.
  rewrite spec_PT by exact Hr. rewrite spec_PD. rewrite IH by exact Hf'.
  rewrite <- app_assoc. f_equal.
  unfold onset_events. apply flat_map_ext. intro it.
  destruct (it_kind it) as [a|a|d|]; try reflexivity.
  rewrite next_mark_app, next_mark_PD, next_mark_flat. reflexivity.
Qed.

(* event_list[k] = the k-th block *)
Lemma onset_events_start n i r rs : Forall (fun e => ev_start e = i) (onset_events n i r rs).
Proof.
  unfold onset_events. apply Forall_forall. intros e He. apply in_flat_map in He as (it & _ & He).
  destruct (it_kind it) as [a|a|d|]; simpl in He; try contradiction.
  destruct He as [He|[]]. subst e. unfold close_at. destruct (next_row a (S i) rs) as [[j tj]|]; reflexivity.
Qed.

Lemma duration_events_start onsets i r : Forall (fun e => ev_start e = i) (duration_events onsets i r).
Proof.
  unfold duration_events. apply Forall_forall. intros e He. apply in_flat_map in He as (it & _ & He).
  destruct (it_kind it) as [a|a|d|]; simpl in He; try contradiction.
  destruct He as [He|[]]. subst e. reflexivity.
Qed.

Lemma spec_rows_start onsets n : forall rows i,
  Forall (fun e => i <= ev_start e) (concat (spec_rows onsets n i rows)).
Proof.
  induction rows as [|r rs IH]; intro i; [constructor|].
  cbn [spec_rows concat]. rewrite !Forall_app. split; [split|].
  - eapply Forall_impl; [|apply onset_events_start]. simpl. intros; lia.
  - eapply Forall_impl; [|apply duration_events_start]. simpl. intros; lia.
  - eapply Forall_impl; [|apply (IH (S i))]. simpl. intros; lia.
Qed.

Lemma filter_all {A} (f : A -> bool) l : Forall (fun x => f x = true) l -> filter f l = l.
Proof. induction 1 as [|x l Hx _ IH]; simpl; [reflexivity | rewrite Hx, IH; reflexivity]. Qed.

Lemma filter_none {A} (f : A -> bool) l : Forall (fun x => f x = false) l -> filter f l = [].
Proof. induction 1 as [|x l Hx _ IH]; simpl; [reflexivity | rewrite Hx, IH; reflexivity]. Qed.

Lemma events_at_blocks onsets n : forall rows i,
  map (events_at (concat (spec_rows onsets n i rows))) (seq i (length rows)) = spec_rows onsets n i rows.
Proof.
  induction rows as [|r rs IH]; intro i; [reflexivity|].
  cbn [length seq map spec_rows concat]. f_equal.
  - unfold events_at. rewrite filter_app. rewrite filter_all, filter_none; [apply app_nil_r | |].
    + eapply Forall_impl; [|apply (spec_rows_start onsets n rs (S i))]. simpl. intros e He.
      apply Nat.eqb_neq. lia.
    + apply Forall_app. split.
      * eapply Forall_impl; [|apply onset_events_start]. simpl. intros e He. apply Nat.eqb_eq. exact He.
      * eapply Forall_impl; [|apply duration_events_start]. simpl. intros e He. apply Nat.eqb_eq. exact He.
  - rewrite <- IH at 2. apply map_ext_in. intros k Hk. apply in_seq in Hk.
    unfold events_at. rewrite filter_app. rewrite filter_none; [reflexivity|].
    apply Forall_app. split.
    + eapply Forall_impl; [|apply onset_events_start]. simpl. intros e He. apply Nat.eqb_neq. lia.
    + eapply Forall_impl; [|apply duration_events_start]. simpl. intros e He. apply Nat.eqb_neq. lia.
Qed.

(* C.6  a valid time line is processed without exception *)
Definition op_markers (ops : list op) : list (bool * N) :=
  flat_map (fun o : op => match o with (PT, _, _, it) => item_marker it | (PD, _, _, _) => [] end) ops.

Lemma op_markers_app l1 l2 : op_markers (l1 ++ l2) = op_markers l1 ++ op_markers l2.
Proof. unfold op_markers. apply flat_map_app. Qed.

Lemma op_markers_flat : forall rows i, op_markers (flat_ops i rows) = markers rows.
Proof.
  induction rows as [|r rs IH]; intro i; [reflexivity|].
  cbn [flat_ops]. unfold row_ops. rewrite !op_markers_app, IH.
  unfold markers. cbn [flat_map]. f_equal.
  assert (H1 : forall its, op_markers (map (fun it => (PT, i, r_onset r, it)) its) = flat_map item_marker its).
  { induction its as [|it its IH2]; [reflexivity|]. unfold op_markers in *. cbn [map flat_map]. rewrite IH2. reflexivity. }
  assert (H2 : forall its, op_markers (map (fun it => (PD, i, r_onset r, it)) its) = []).
  { induction its as [|it its IH2]; [reflexivity|]. unfold op_markers in *. cbn [map flat_map]. exact IH2. }
  rewrite H1, H2, app_nil_r. reflexivity.
Qed.

Lemma has_open_cl a b i t ah : b <> a -> has_open b (map (cl a i t) ah) = has_open b ah.
Proof.
  intro Hne. unfold has_open. induction ah as [|[e tg] ah IH]; [reflexivity|].
  cbn [map existsb]. rewrite IH. f_equal.
  unfold cl, tag_is. cbn [snd fst]. destruct tg as [c|]; [|reflexivity].
  destruct (N.eqb c a) eqn:Ec; [|reflexivity]. cbn [snd].
  apply N.eqb_eq in Ec. subst c. symmetry. apply N.eqb_neq. congruence.
Qed.

Lemma has_open_snoc b ah x : has_open b (ah ++ [x]) = has_open b ah || tag_is b x.
Proof. unfold has_open. rewrite existsb_app. cbn [existsb]. rewrite orb_false_r. reflexivity. Qed.

Lemma arun_total onsets : mono onsets = true -> forall ops ah open,
  (forall a, In a open -> has_open a ah = true) -> matched open (op_markers ops) ->
  exists ah', foldM (astep onsets) ops ah = Ok ah'.
Proof.
  intro Hm. induction ops as [|o ops IH]; intros ah open Hop Hma; [eexists; reflexivity|].
  destruct o as [[[ph i] t] it]. cbn [foldM astep]. unfold op_markers in Hma. cbn [flat_map] in Hma.
  fold (op_markers ops) in Hma.
  destruct ph.
  - unfold item_marker in Hma. destruct (it_kind it) as [a|a|d|] eqn:K; cbn [app matched] in Hma; cbn [bind].
    + apply (IH _ (a :: open)); [|exact Hma]. intros b [Hb|Hb].
      * subst b. rewrite has_open_snoc. unfold tag_is. cbn [snd]. rewrite N.eqb_refl. apply orb_true_r.
      * rewrite has_open_snoc. destruct (N.eq_dec b a) as [->|Hne].
        -- unfold tag_is. cbn [snd]. rewrite N.eqb_refl. apply orb_true_r.
        -- rewrite has_open_cl by exact Hne. rewrite (Hop b Hb). reflexivity.
    + destruct Hma as [Hin Hma]. rewrite (Hop a Hin). cbn [bind].
      apply (IH _ (remove N.eq_dec a open)); [|exact Hma]. intros b Hb.
      apply in_remove in Hb as [Hb Hne]. rewrite has_open_cl by exact Hne. apply Hop. exact Hb.
    + apply (IH _ open); assumption.
    + apply (IH _ open); assumption.
  - cbn [app] in Hma. destruct (it_kind it) as [a|a|d|] eqn:K; cbn [bind]; try (apply (IH _ open); assumption).
    destruct (bisect_left_spec onsets (t + d) Hm) as (j & E & _). rewrite E. cbn [bind].
    apply (IH _ open); [|exact Hma]. intros b Hb. rewrite has_open_snoc, (Hop b Hb). reflexivity.
Qed.

Lemma scan_total onsets rows : mono onsets = true -> matched [] (markers rows) ->
  exists hp od, scan_rows onsets 0 rows ([], []) = Ok (hp, od).
Proof.
  intros Hm Hma. rewrite scan_rows_flat.
  destruct (arun_total onsets Hm (flat_ops 0 rows) [] []) as (ah & E).
  - intros a [].
  - rewrite op_markers_flat. exact Hma.
  - pose proof (sim_run onsets (flat_ops 0 rows) _ _ R_nil) as Hs. rewrite E in Hs.
    destruct (foldM (step onsets) (flat_ops 0 rows) ([], [])) as [[hp od]|e]; simpl in Hs; [|contradiction].
    eauto.
Qed.

(* C.7  well-formedness of the specified events *)
Lemma next_row_bounds a : forall rows i j t, next_row a i rows = Some (j, t) -> i <= j /\ j < i + length rows.
Proof.
  induction rows as [|r rs IH]; intros i j t H; [discriminate|].
  cbn [next_row] in H. destruct (row_marks a r).
  - inversion H; subst. simpl. lia.
  - apply IH in H. simpl. lia.
Qed.

Lemma bisect_idx_post onsets x : mono onsets = true -> bisect_post onsets x (bisect_idx onsets x).
Proof.
  intro Hm. unfold bisect_idx. destruct (bisect_left_spec onsets x Hm) as (j & E & P). rewrite E. exact P.
Qed.

Lemma spec_rows_wf onsets n : mono onsets = true -> length onsets = n ->
  forall rows i, i + length rows = n -> Forall (ev_wf n) (concat (spec_rows onsets n i rows)).
Proof.
  intros Hm Hl. induction rows as [|r rs IH]; intros i Hn; [constructor|].
  cbn [spec_rows concat length] in *. rewrite !Forall_app. split; [split|].
  - unfold onset_events. apply Forall_forall. intros e He. apply in_flat_map in He as (it & _ & He).
    destruct (it_kind it) as [a|a|d|]; simpl in He; try contradiction.
    destruct He as [He|[]]. subst e. unfold close_at, ev_wf.
    destruct (next_row a (S i) rs) as [[j tj]|] eqn:E; cbn [ev_start ev_end].
    + apply next_row_bounds in E. split; [lia|]. exists j. split; [reflexivity | lia].
    + split; [lia|]. exists n. split; [reflexivity | lia].
  - unfold duration_events. apply Forall_forall. intros e He. apply in_flat_map in He as (it & _ & He).
    destruct (it_kind it) as [a|a|d|]; simpl in He; try contradiction.
    destruct He as [He|[]]. subst e. unfold ev_wf. cbn [ev_start ev_end]. split; [lia|].
    eexists. split; [reflexivity|]. destruct (bisect_idx_post onsets (r_onset r + d) Hm) as (Hle & _). lia.
  - apply IH. lia.
Qed.

(* C.8  _create_event_list on a valid, time-ordered time line *)
Definition onsets_of (tl : list row) : list Z := map r_onset tl.

Theorem create_spec tl :
  mono (onsets_of tl) = true -> valid_timeline tl ->
  exists o, create_event_list tl = Ok o /\
    o_rows o = tl /\
    o_events o = spec_rows (onsets_of tl) (length tl) 0 tl /\
    o_hed o = map remaining tl /\
    length (o_base o) = length tl /\ length (o_contexts o) = length tl /\
    (forall k, nth k (o_base o) [] = events_at (concat (o_events o)) k) /\
    (forall k, nth k (o_contexts o) [] = filter (in_ctx k) (concat (o_events o))).
Proof.
  intros Hm [Hnd Hma]. unfold create_event_list. fold (onsets_of tl).
  destruct (scan_total (onsets_of tl) tl Hm Hma) as (hp & od & E). rewrite E. cbn [bind].
  rewrite (scan_heap _ (length tl) _ _ _ E).
  rewrite spec_heap_rows by exact Hnd.
  rewrite (events_at_blocks (onsets_of tl) (length tl) tl 0).
  pose proof (spec_rows_wf (onsets_of tl) (length tl) Hm ltac:(unfold onsets_of; apply map_length) tl 0 eq_refl) as Hwf.
  destruct (context_fold_ok (length tl) (concat (spec_rows (onsets_of tl) (length tl) 0 tl))
              (map (fun _ => []) tl) (map (fun _ => []) tl) Hwf
              ltac:(apply map_length) ltac:(apply map_length))
    as (base & ctx & Ef & Lb & Lc & NB & NC).
  rewrite Ef. cbn [bind]. eexists. split; [reflexivity|]. cbn [o_rows o_events o_hed o_base o_contexts].
  repeat split; auto.
  - intro k. rewrite NB, nth_map_nil. reflexivity.
  - intro k. rewrite NC, nth_map_nil. reflexivity.
Qed.

(* ================================================================== *)
(* D. declarative reading of the specification functions               *)

Lemma nth_error_skipn {A} (l : list A) : forall n k, nth_error (skipn n l) k = nth_error l (n + k).
Proof.
  induction l as [|x l IH]; intros [|n] k; simpl; auto.
  destruct k; reflexivity.
Qed.

Lemma next_row_some a : forall rows i j t, next_row a i rows = Some (j, t) ->
  i <= j /\
  (exists r, nth_error rows (j - i) = Some r /\ row_marks a r = true /\ r_onset r = t) /\
  (forall k r, k < j - i -> nth_error rows k = Some r -> row_marks a r = false).
Proof.
  induction rows as [|r rs IH]; intros i j t H; [discriminate|].
  cbn [next_row] in H. destruct (row_marks a r) eqn:Hr.
  - inversion H; subst. split; [lia|]. rewrite Nat.sub_diag. split.
    + exists r. auto.
    + intros k r' Hk. lia.
  - destruct (IH _ _ _ H) as (Hle & (r' & Hn & Hm & Ht) & Hbefore).
    split; [lia|]. replace (j - i) with (S (j - S i)) by lia. split.
    + exists r'. auto.
    + intros [|k] r'' Hk Hn'; simpl in Hn'; [inversion Hn'; subst; exact Hr|].
      apply (Hbefore k); [lia | exact Hn'].
Qed.

Lemma next_row_none a : forall rows i, next_row a i rows = None ->
  forall r, In r rows -> row_marks a r = false.
Proof.
  induction rows as [|r rs IH]; intros i H r' Hin; [destruct Hin|].
  cbn [next_row] in H. destruct (row_marks a r) eqn:Hr; [discriminate|].
  destruct Hin as [<-|Hin]; [exact Hr | eapply IH; eauto].
Qed.

Lemma nth_spec_rows onsets n : forall rows i0 k r, nth_error rows k = Some r ->
  nth k (spec_rows onsets n i0 rows) [] =
  onset_events n (i0 + k) r (skipn (S k) rows) ++ duration_events onsets (i0 + k) r.
Proof.
  induction rows as [|r0 rs IH]; intros i0 k r H; [destruct k; discriminate|].
  destruct k as [|k]; cbn [spec_rows nth].
  - simpl in H. inversion H; subst. rewrite Nat.add_0_r. reflexivity.
  - simpl in H. rewrite (IH (S i0) k r H). replace (S i0 + k) with (i0 + S k) by lia. reflexivity.
Qed.

Lemma in_spec_rows onsets n e : forall rows i0, In e (concat (spec_rows onsets n i0 rows)) ->
  exists k r, nth_error rows k = Some r /\
    In e (onset_events n (i0 + k) r (skipn (S k) rows) ++ duration_events onsets (i0 + k) r).
Proof.
  induction rows as [|r0 rs IH]; intros i0 H; [destruct H|].
  cbn [spec_rows concat] in H. apply in_app_iff in H as [H|H].
  - exists 0, r0. split; [reflexivity|]. rewrite Nat.add_0_r. exact H.
  - apply IH in H as (k & r & Hn & Hin). exists (S k), r. split; [exact Hn|].
    replace (i0 + S k) with (S i0 + k) by lia. exact Hin.
Qed.

Lemma length_spec_rows onsets n : forall rows i, length (spec_rows onsets n i rows) = length rows.
Proof. induction rows as [|r rs IH]; intro i; simpl; auto. Qed.

(* shape of the events listed at a row *)
Lemma onset_events_items n i r rs : map ev_item (onset_events n i r rs) = filter is_onset_item (r_items r).
Proof.
  unfold onset_events. induction (r_items r) as [|it its IH]; [reflexivity|].
  cbn [flat_map filter]. unfold is_onset_item at 1.
  destruct (it_kind it) as [a|a|d|]; cbn [app map]; try exact IH.
  rewrite IH. f_equal. unfold close_at. destruct (next_row a (S i) rs) as [[j tj]|]; reflexivity.
Qed.

Lemma duration_events_items onsets i r :
  map ev_item (duration_events onsets i r) = filter is_duration_item (r_items r).
Proof.
  unfold duration_events. induction (r_items r) as [|it its IH]; [reflexivity|].
  cbn [flat_map filter]. unfold is_duration_item at 1.
  destruct (it_kind it) as [a|a|d|]; cbn [app map]; try exact IH.
  rewrite IH. reflexivity.
Qed.

Lemma row_events_times onsets n i r rs :
  Forall (fun e => ev_start e = i /\ ev_start_time e = r_onset r)
         (onset_events n i r rs ++ duration_events onsets i r).
Proof.
  apply Forall_app. split; apply Forall_forall; intros e He.
  - unfold onset_events in He. apply in_flat_map in He as (it & _ & He).
    destruct (it_kind it) as [a|a|d|]; simpl in He; try contradiction.
    destruct He as [He|[]]. subst e. unfold close_at. destruct (next_row a (S i) rs) as [[j tj]|]; auto.
  - unfold duration_events in He. apply in_flat_map in He as (it & _ & He).
    destruct (it_kind it) as [a|a|d|]; simpl in He; try contradiction.
    destruct He as [He|[]]. subst e. auto.
Qed.

(* ---- the theorems in the form used by Props/C20.v ---- *)
Section Created.
  Variable tl : list row.
  Variable o : output.
  Hypothesis Hmono : mono (onsets_of tl) = true.
  Hypothesis Hvalid : valid_timeline tl.
  Hypothesis Hrun : create_event_list tl = Ok o.

  Let n := length tl.

  Lemma created_facts :
    o_rows o = tl /\
    o_events o = spec_rows (onsets_of tl) n 0 tl /\
    o_hed o = map remaining tl /\
    length (o_base o) = n /\ length (o_contexts o) = n /\
    (forall k, nth k (o_base o) [] = events_at (concat (o_events o)) k) /\
    (forall k, nth k (o_contexts o) [] = filter (in_ctx k) (concat (o_events o))).
  Proof.
    destruct (create_spec tl Hmono Hvalid) as (o' & E & F). rewrite Hrun in E. inversion E; subst o'. exact F.
  Qed.

  Lemma created_events_row i r : nth_error tl i = Some r ->
    nth i (o_events o) [] =
    onset_events n i r (skipn (S i) tl) ++ duration_events (onsets_of tl) i r.
  Proof.
    intro H. destruct created_facts as (_ & Ev & _). rewrite Ev.
    rewrite (nth_spec_rows _ _ tl 0 i r H). reflexivity.
  Qed.

  (* each started process is listed at its start point, in file order, with the row's time *)
  Lemma started_listed i r : nth_error tl i = Some r ->
    map ev_item (nth i (o_events o) []) =
      filter is_onset_item (r_items r) ++ filter is_duration_item (r_items r) /\
    Forall (fun e => ev_start e = i /\ ev_start_time e = r_onset r) (nth i (o_events o) []) /\
    nth i (o_base o) [] = nth i (o_events o) [].
  Proof.
    intro H.
    assert (H3 : nth i (o_base o) [] = nth i (o_events o) []).
    { destruct created_facts as (_ & Ev & _ & _ & _ & NB & _). rewrite NB, Ev.
      assert (Hi : i < length tl) by (apply nth_error_Some; congruence).
      pose proof (events_at_blocks (onsets_of tl) n tl 0) as Hb.
      rewrite <- Hb at 2.
      rewrite (nth_indep _ [] (events_at (concat (spec_rows (onsets_of tl) n 0 tl)) 0))
        by (rewrite map_length, seq_length; exact Hi).
      rewrite map_nth, seq_nth by exact Hi. reflexivity. }
    split; [|split]; [| |exact H3]; rewrite (created_events_row i r H).
    - rewrite map_app, onset_events_items, duration_events_items. reflexivity.
    - apply row_events_times.
  Qed.

  Lemma event_origin e : In e (all_events o) ->
    exists i r, nth_error tl i = Some r /\
      In e (onset_events n i r (skipn (S i) tl) ++ duration_events (onsets_of tl) i r).
  Proof.
    intro H. unfold all_events in H. destruct created_facts as (_ & Ev & _). rewrite Ev in H.
    apply in_spec_rows in H as (k & r & Hn & Hin). exists k, r. split; [exact Hn | exact Hin].
  Qed.

  (* a process started by an Onset lasts until the next Onset/Offset of the same name, else to the end *)
  Lemma end_onset e a : In e (all_events o) -> it_kind (ev_item e) = KOnset a ->
    exists j, ev_end e = Some j /\ ev_start e < j /\ j <= n /\
      (forall k r, ev_start e < k -> k < j -> nth_error tl k = Some r -> row_marks a r = false) /\
      (j < n -> exists r, nth_error tl j = Some r /\ row_marks a r = true /\ ev_end_time e = Some (r_onset r)) /\
      (j = n -> ev_end_time e = None).
  Proof.
    intros He Hk. destruct (event_origin e He) as (i & r & Hn & Hin).
    assert (Hi : i < n) by (apply nth_error_Some; congruence).
    apply in_app_iff in Hin as [Hin|Hin].
    - unfold onset_events in Hin. apply in_flat_map in Hin as (it & _ & Hin).
      destruct (it_kind it) as [b|b|d|] eqn:Kb; try (destruct Hin; fail).
      destruct Hin as [Hin|[]]. subst e. unfold close_at in *.
      destruct (next_row b (S i) (skipn (S i) tl)) as [[j tj]|] eqn:Enr; cbn [ev_item ev_end ev_start ev_end_time] in *.
      all: rewrite Kb in Hk; inversion Hk; subst b.
      + pose proof (next_row_bounds _ _ _ _ _ Enr) as [Hb1 Hb2]. rewrite skipn_length in Hb2.
        destruct (next_row_some _ _ _ _ _ Enr) as (_ & (r' & Hr' & Hm' & Ht') & Hbefore).
        rewrite nth_error_skipn in Hr'. replace (S i + (j - S i)) with j in Hr' by lia.
        exists j. split; [reflexivity|]. split; [lia|]. split; [fold n in Hb2; lia|]. split; [|split].
        * intros k r'' Hk1 Hk2 Hn''. apply (Hbefore (k - S i)); [lia|].
          rewrite nth_error_skipn. replace (S i + (k - S i)) with k by lia. exact Hn''.
        * intros _. exists r'. subst tj. auto.
        * intro Hj. fold n in Hb2. lia.
      + exists n. split; [reflexivity|]. split; [lia|]. split; [lia|]. split; [|split].
        * intros k r'' Hk1 Hk2 Hn''. apply (next_row_none _ _ _ Enr).
          apply (nth_error_In _ (k - S i)). rewrite nth_error_skipn. replace (S i + (k - S i)) with k by lia. exact Hn''.
        * intro; lia.
        * reflexivity.
    - unfold duration_events in Hin. apply in_flat_map in Hin as (it & _ & Hin).
      destruct (it_kind it) as [b|b|d|] eqn:Kb; try (destruct Hin; fail).
      destruct Hin as [Hin|[]]. subst e. cbn [ev_item] in Hk. congruence.
  Qed.

  (* a Duration process lasts until the first time point at or after start + duration *)
  Lemma end_duration e d : In e (all_events o) -> it_kind (ev_item e) = KDuration d ->
    exists j, ev_end e = Some j /\ j <= n /\
      ev_end_time e = Some (ev_start_time e + d)%Z /\
      (forall k, k < j -> (nth k (onsets_of tl) 0 < ev_start_time e + d)%Z) /\
      (forall k, j <= k -> k < n -> (ev_start_time e + d <= nth k (onsets_of tl) 0)%Z).
  Proof.
    intros He Hk. destruct (event_origin e He) as (i & r & Hn & Hin).
    apply in_app_iff in Hin as [Hin|Hin].
    - unfold onset_events in Hin. apply in_flat_map in Hin as (it & _ & Hin).
      destruct (it_kind it) as [b|b|d'|] eqn:Kb; try (destruct Hin; fail).
      destruct Hin as [Hin|[]]. subst e. unfold close_at in Hk.
      destruct (next_row b (S i) (skipn (S i) tl)) as [[j tj]|]; cbn [ev_item] in Hk; congruence.
    - unfold duration_events in Hin. apply in_flat_map in Hin as (it & _ & Hin).
      destruct (it_kind it) as [b|b|d'|] eqn:Kb; try (destruct Hin; fail).
      destruct Hin as [Hin|[]]. subst e. cbn [ev_item ev_end ev_end_time ev_start_time] in *.
      rewrite Kb in Hk. inversion Hk; subst d'.
      destruct (bisect_idx_post (onsets_of tl) (r_onset r + d) Hmono) as (P1 & P2 & P3).
      eexists. split; [reflexivity|]. unfold onsets_of in P1. rewrite map_length in P1.
      split; [exact P1|]. split; [reflexivity|]. split; [exact P2|].
      intros k Hk1 Hk2. apply P3; [exact Hk1|]. unfold onsets_of. rewrite map_length. exact Hk2.
  Qed.

  (* the context of a row: exactly the processes started strictly earlier that have not ended *)
  Lemma context_eq i : nth i (o_contexts o) [] = filter (in_ctx i) (all_events o).
  Proof. destruct created_facts as (_ & _ & _ & _ & _ & _ & NC). apply NC. Qed.

  Lemma context_iff i e :
    In e (nth i (o_contexts o) []) <-> In e (all_events o) /\ ev_start e < i /\ i < ev_end_index e.
  Proof.
    rewrite context_eq, filter_In. unfold in_ctx. rewrite andb_true_iff, !Nat.ltb_lt. tauto.
  Qed.

  Lemma remaining_kept : o_rows o = tl /\ o_hed o = map remaining tl.
  Proof. destruct created_facts as (A & _ & B & _). auto. Qed.
End Created.

(* ================================================================== *)
(* E. split_delay_tags: Delay shifting, sorting, merging of equal onsets *)

Lemma mono_cons2 a b l : mono (a :: b :: l) = ((a <=? b)%Z && mono (b :: l)).
Proof. reflexivity. Qed.

Lemma insert_mono r : forall l, mono (map r_onset l) = true -> mono (map r_onset (insert_row r l)) = true.
Proof.
  induction l as [|x xs IH]; intro H; [reflexivity|].
  cbn [insert_row]. destruct (r_onset r <=? r_onset x)%Z eqn:E.
  - cbn [map]. rewrite mono_cons2. cbn [map] in H. rewrite H, E. reflexivity.
  - cbn [map] in *. destruct xs as [|y ys].
    + cbn [insert_row map]. rewrite mono_cons2. simpl. lia.
    + cbn [map] in H. rewrite mono_cons2 in H. apply andb_true_iff in H as [H1 H2].
      specialize (IH H2). cbn [insert_row] in *.
      destruct (r_onset r <=? r_onset y)%Z eqn:E2; cbn [map] in *; rewrite mono_cons2.
      * rewrite IH. lia.
      * rewrite IH. lia.
Qed.

Lemma sort_mono l : mono (map r_onset (sort_rows l)) = true.
Proof. induction l as [|x xs IH]; [reflexivity|]. cbn [sort_rows]. apply insert_mono. exact IH. Qed.

Lemma merge_aux_onsets all : forall rows seen, map r_onset (merge_aux seen all rows) = map r_onset rows.
Proof.
  induction rows as [|r rs IH]; intro seen; [reflexivity|].
  cbn [merge_aux map]. rewrite IH. f_equal. destruct (existsb _ seen); reflexivity.
Qed.

Lemma split_mono h : mono (onsets_of (split_delay_tags h)) = true.
Proof.
  unfold split_delay_tags, onsets_of. destruct (split_rows h) as [kept appended].
  unfold merge_rows. rewrite merge_aux_onsets. apply sort_mono.
Qed.

Lemma existsb_Zeqb o seen : existsb (Z.eqb o) seen = true <-> In o seen.
Proof.
  rewrite existsb_exists. split.
  - intros (x & Hin & E). apply Z.eqb_eq in E. subst. exact Hin.
  - intro H. exists o. split; [exact H | apply Z.eqb_refl].
Qed.

(* rows that share an onset act as one time point: only the first of them carries the annotation *)
Lemma merge_aux_ghost all : forall rows seen k r',
  nth_error (merge_aux seen all rows) k = Some r' ->
  (In (r_onset r') seen \/ exists k' r'', k' < k /\ nth_error rows k' = Some r'' /\ r_onset r'' = r_onset r') ->
  r_items r' = [].
Proof.
  induction rows as [|r rs IH]; intros seen k r' Hn Hc; [destruct k; discriminate|].
  destruct k as [|k]; cbn [merge_aux nth_error] in Hn.
  - inversion Hn; subst r'. clear Hn.
    destruct (existsb (Z.eqb (r_onset r)) seen) eqn:Ex; [reflexivity|].
    exfalso. destruct Hc as [Hc|(k' & _ & Hk' & _)]; [|lia].
    assert (Ho : r_onset (mkRow (r_onset r) (concat (map r_items (filter (same_onset (r_onset r)) all)))) = r_onset r)
      by reflexivity.
    rewrite Ho in Hc. apply existsb_Zeqb in Hc. congruence.
  - apply (IH _ _ _ Hn). destruct Hc as [Hc|(k' & r'' & Hk' & Hn' & Ho)].
    + left. right. exact Hc.
    + destruct k' as [|k']; simpl in Hn'.
      * inversion Hn'; subst. left. left. exact Ho.
      * right. exists k', r''. split; [lia | auto].
Qed.

Lemma nth_error_map_onset (l : list row) k r : nth_error l k = Some r ->
  nth_error (map r_onset l) k = Some (r_onset r).
Proof. intro H. rewrite nth_error_map, H. reflexivity. Qed.

Lemma one_time_point h i j ri rj :
  nth_error (split_delay_tags h) i = Some ri -> nth_error (split_delay_tags h) j = Some rj ->
  i < j -> r_onset ri = r_onset rj -> r_items rj = [].
Proof.
  unfold split_delay_tags. destruct (split_rows h) as [kept appended]. unfold merge_rows.
  set (s := sort_rows (kept ++ appended)). intros Hi Hj Hij Ho.
  apply (merge_aux_ghost s s [] j rj Hj). right.
  pose proof (nth_error_map_onset _ _ _ Hi) as Hoi. rewrite merge_aux_onsets in Hoi.
  rewrite nth_error_map in Hoi. destruct (nth_error s i) as [r''|] eqn:E; [|discriminate].
  simpl in Hoi. inversion Hoi. exists i, r''. split; [exact Hij|]. split; [exact E | congruence].
Qed.

(* membership of (time, item) pairs through the three stages *)
Lemma in_timed t it rows : In (t, it) (timed rows) <-> exists r, In r rows /\ r_onset r = t /\ In it (r_items r).
Proof.
  unfold timed. rewrite in_flat_map. split.
  - intros (r & Hr & Hin). apply in_map_iff in Hin as (it' & E & Hit). inversion E; subst. eauto.
  - intros (r & Hr & Ho & Hit). exists r. split; [exact Hr|]. apply in_map_iff. exists it. subst. auto.
Qed.

Lemma in_insert_row r r' : forall l, In r' (insert_row r l) <-> r' = r \/ In r' l.
Proof.
  induction l as [|x xs IH]; [simpl; intuition|].
  cbn [insert_row]. destruct (r_onset r <=? r_onset x)%Z; simpl; [intuition|].
  rewrite IH. simpl. intuition.
Qed.

Lemma in_sort_rows r' : forall l, In r' (sort_rows l) <-> In r' l.
Proof.
  induction l as [|x xs IH]; [reflexivity|]. cbn [sort_rows]. rewrite in_insert_row, IH. simpl. intuition.
Qed.

Lemma merge_aux_in all : forall rows seen r', In r' (merge_aux seen all rows) ->
  forall it, In it (r_items r') -> exists r, In r all /\ r_onset r = r_onset r' /\ In it (r_items r).
Proof.
  induction rows as [|r rs IH]; intros seen r' H it Hit; [destruct H|].
  cbn [merge_aux] in H. destruct H as [H|H]; [|eapply IH; eauto].
  subst r'. destruct (existsb (Z.eqb (r_onset r)) seen); cbn [r_items] in Hit; [destruct Hit|].
  apply in_concat in Hit as (l & Hl & Hit). apply in_map_iff in Hl as (r0 & E & Hr0). subst l.
  apply filter_In in Hr0 as [Hr0 Hs]. unfold same_onset in Hs. apply Z.eqb_eq in Hs.
  exists r0. cbn [r_onset]. auto.
Qed.

Lemma merge_aux_first all o : forall rows seen, ~ In o seen -> In o (map r_onset rows) ->
  In (mkRow o (concat (map r_items (filter (same_onset o) all)))) (merge_aux seen all rows).
Proof.
  induction rows as [|r rs IH]; intros seen Hns Hin; [destruct Hin|].
  cbn [merge_aux]. destruct (Z.eq_dec (r_onset r) o) as [E|E].
  - left. subst o. destruct (existsb (Z.eqb (r_onset r)) seen) eqn:Ex; [|reflexivity].
    apply existsb_Zeqb in Ex. contradiction.
  - right. apply IH.
    + intros [H|H]; [congruence | contradiction].
    + destruct Hin as [H|H]; [congruence | exact H].
Qed.

Lemma merge_timed t it rows : In (t, it) (timed (merge_rows rows)) <-> In (t, it) (timed rows).
Proof.
  rewrite !in_timed. unfold merge_rows. split.
  - intros (r' & Hr' & Ho & Hit). destruct (merge_aux_in rows rows [] r' Hr' it Hit) as (r & Hr & Ho' & Hit').
    exists r. split; [exact Hr|]. split; [congruence | exact Hit'].
  - intros (r & Hr & Ho & Hit).
    exists (mkRow t (concat (map r_items (filter (same_onset t) rows)))). split; [|split].
    + apply merge_aux_first; [intros [] |]. subst t. apply in_map. exact Hr.
    + reflexivity.
    + cbn [r_items]. apply in_concat. exists (r_items r). split; [|exact Hit].
      apply in_map. apply filter_In. split; [exact Hr|]. unfold same_onset. apply Z.eqb_eq. exact Ho.
Qed.

Lemma timed_app a b : timed (a ++ b) = timed a ++ timed b.
Proof. unfold timed. apply flat_map_app. Qed.

Lemma split_rows_in t it : forall h kept appended, split_rows h = (kept, appended) ->
  (In (t, it) (timed (kept ++ appended)) <->
   exists r, In r h /\ In it (r_items r) /\ t = (delay_of it + r_onset r)%Z).
Proof.
  induction h as [|r rs IH]; intros kept appended H.
  - inversion H; subst. simpl. split; [intros [] | intros (r & [] & _)].
  - cbn [split_rows] in H. destruct (split_rows rs) as [k0 a0] eqn:E. inversion H; subst kept appended. clear H.
    specialize (IH k0 a0 eq_refl).
    assert (Hperm : In (t, it) (timed ((mkRow (r_onset r) (filter (fun it => negb (has_delay it)) (r_items r)) :: k0) ++
                      map (fun it => mkRow (delay_of it + r_onset r) [it]) (filter has_delay (r_items r)) ++ a0)) <->
                    (In (t, it) (timed [mkRow (r_onset r) (filter (fun it => negb (has_delay it)) (r_items r))]) \/
                     In (t, it) (timed (map (fun it => mkRow (delay_of it + r_onset r) [it]) (filter has_delay (r_items r))))) \/
                    In (t, it) (timed (k0 ++ a0))).
    { change (mkRow (r_onset r) (filter (fun it => negb (has_delay it)) (r_items r)) :: k0)
        with ([mkRow (r_onset r) (filter (fun it => negb (has_delay it)) (r_items r))] ++ k0).
      rewrite !timed_app, !in_app_iff. tauto. }
    rewrite Hperm, IH. clear Hperm IH. split.
    + intros [[H|H]|(r' & Hr' & Hx)].
      * apply in_timed in H as (r0 & [<-|[]] & Ho & Hit). cbn [r_onset r_items] in *.
        apply filter_In in Hit as [Hit Hd]. exists r. split; [left; reflexivity|]. split; [exact Hit|].
        unfold delay_of, has_delay in *. destruct (it_delay it); [discriminate | lia].
      * apply in_timed in H as (r0 & Hr0 & Ho & Hit). apply in_map_iff in Hr0 as (it' & <- & Hit').
        cbn [r_onset r_items] in *. destruct Hit as [<-|[]]. apply filter_In in Hit' as [Hit' _].
        exists r. split; [left; reflexivity|]. split; [exact Hit' | lia].
      * exists r'. split; [right; exact Hr' | exact Hx].
    + intros (r' & [<-|Hr'] & Hit & Ht).
      * left. destruct (has_delay it) eqn:Hd.
        -- right. apply in_timed. exists (mkRow (delay_of it + r_onset r) [it]). split; [|split].
           ++ apply in_map_iff. exists it. split; [reflexivity|]. apply filter_In. auto.
           ++ cbn [r_onset]. lia.
           ++ left. reflexivity.
        -- left. apply in_timed. eexists. split; [left; reflexivity|]. cbn [r_onset r_items]. split.
           ++ unfold delay_of, has_delay in *. destruct (it_delay it); [discriminate | lia].
           ++ apply filter_In. split; [exact Hit|]. rewrite Hd. reflexivity.
      * right. exists r'. auto.
Qed.

(* Delay-shifted groups sit at their shifted time; everything else at its row's onset; nothing else appears *)
Lemma delay_shifted h t it :
  In (t, it) (timed (split_delay_tags h)) <->
  exists r, In r h /\ In it (r_items r) /\ t = (delay_of it + r_onset r)%Z.
Proof.
  unfold split_delay_tags. destruct (split_rows h) as [kept appended] eqn:E.
  rewrite merge_timed. rewrite <- (split_rows_in t it h kept appended E).
  rewrite !in_timed. split; intros (r & Hr & Hx); exists r; (split; [|exact Hx]).
  - exact (proj1 (in_sort_rows r _) Hr).
  - exact (proj2 (in_sort_rows r _) Hr).
Qed.

(* ================================================================== *)
(* F. EventManager.__init__                                            *)

Lemma unordered_rejected h : mono (map r_onset h) = false -> event_manager h = Exn HedFileError.
Proof. intro H. unfold event_manager. rewrite H. reflexivity. Qed.

Lemma ordered_runs h : mono (map r_onset h) = true ->
  event_manager h = create_event_list (split_delay_tags h).
Proof. intro H. unfold event_manager. rewrite H. reflexivity. Qed.

Lemma rejected_only_unordered h o : event_manager h = Ok o ->
  mono (map r_onset h) = true /\ create_event_list (split_delay_tags h) = Ok o.
Proof.
  unfold event_manager. destruct (mono (map r_onset h)); cbn [negb]; [auto | discriminate].
Qed.

Lemma valid_accepted h : mono (map r_onset h) = true -> valid_timeline (split_delay_tags h) ->
  exists o, event_manager h = Ok o.
Proof.
  intros Hm Hv. rewrite (ordered_runs h Hm).
  destruct (create_spec _ (split_mono h) Hv) as (o & E & _). eauto.
Qed.

Lemma create_rows tl o : create_event_list tl = Ok o -> o_rows o = tl /\ o_hed o = map remaining tl.
Proof.
  unfold create_event_list.
  destruct (scan_rows (map r_onset tl) 0 tl ([], [])) as [[hp od]|e]; cbn [bind]; [|discriminate].
  destruct (foldM context_step _ _) as [[base ctx]|e]; cbn [bind]; [|discriminate].
  intro H. inversion H; subst. auto.
Qed.

Lemma em_rows h o : event_manager h = Ok o -> o_rows o = split_delay_tags h.
Proof. intro H. apply rejected_only_unordered in H as [_ H]. apply create_rows in H as [H _]. exact H. Qed.

(* ---- statements over the manager's own output ---- *)
Section Manager.
  Variable h : list row.
  Variable o : output.
  Hypothesis Hrun : event_manager h = Ok o.

  Lemma em_time_line :
    mono (map r_onset h) = true /\
    mono (map r_onset (o_rows o)) = true /\
    (forall i j ri rj, nth_error (o_rows o) i = Some ri -> nth_error (o_rows o) j = Some rj ->
       i < j -> r_onset ri = r_onset rj -> r_items rj = []) /\
    (forall t it, In (t, it) (timed (o_rows o)) <->
       exists r, In r h /\ In it (r_items r) /\ t = (delay_of it + r_onset r)%Z).
  Proof.
    rewrite (em_rows h o Hrun). split; [apply (rejected_only_unordered h o Hrun)|].
    split; [apply split_mono|]. split; [apply one_time_point | apply delay_shifted].
  Qed.

  Hypothesis Hvalid : valid_timeline (o_rows o).

  Let Hc : create_event_list (o_rows o) = Ok o.
  Proof. rewrite (em_rows h o Hrun). apply (rejected_only_unordered h o Hrun). Qed.
  Let Hm : mono (onsets_of (o_rows o)) = true.
  Proof. rewrite (em_rows h o Hrun). apply split_mono. Qed.

  Lemma em_started_listed i r : nth_error (o_rows o) i = Some r ->
    map ev_item (nth i (o_events o) []) =
      filter is_onset_item (r_items r) ++ filter is_duration_item (r_items r) /\
    Forall (fun e => ev_start e = i /\ ev_start_time e = r_onset r) (nth i (o_events o) []) /\
    nth i (o_base o) [] = nth i (o_events o) [].
  Proof. exact (started_listed (o_rows o) o Hm Hvalid Hc i r). Qed.

  Lemma em_end_onset e a : In e (all_events o) -> it_kind (ev_item e) = KOnset a ->
    exists j, ev_end e = Some j /\ ev_start e < j /\ j <= length (o_rows o) /\
      (forall k r, ev_start e < k -> k < j -> nth_error (o_rows o) k = Some r -> row_marks a r = false) /\
      (j < length (o_rows o) ->
         exists r, nth_error (o_rows o) j = Some r /\ row_marks a r = true /\ ev_end_time e = Some (r_onset r)) /\
      (j = length (o_rows o) -> ev_end_time e = None).
  Proof. exact (end_onset (o_rows o) o Hm Hvalid Hc e a). Qed.

  Lemma em_end_duration e d : In e (all_events o) -> it_kind (ev_item e) = KDuration d ->
    exists j, ev_end e = Some j /\ j <= length (o_rows o) /\
      ev_end_time e = Some (ev_start_time e + d)%Z /\
      (forall k, k < j -> (nth k (map r_onset (o_rows o)) 0 < ev_start_time e + d)%Z) /\
      (forall k, j <= k -> k < length (o_rows o) -> (ev_start_time e + d <= nth k (map r_onset (o_rows o)) 0)%Z).
  Proof. exact (end_duration (o_rows o) o Hm Hvalid Hc e d). Qed.

  Lemma em_context_iff i e :
    In e (nth i (o_contexts o) []) <-> In e (all_events o) /\ ev_start e < i /\ i < ev_end_index e.
  Proof. exact (context_iff (o_rows o) o Hm Hvalid Hc i e). Qed.

  Lemma em_context_eq i :
    nth i (o_contexts o) [] =
    filter (fun e => (ev_start e <? i) && (i <? ev_end_index e)) (all_events o).
  Proof. exact (context_eq (o_rows o) o Hm Hvalid Hc i). Qed.

  Lemma em_every_event_listed e : In e (all_events o) ->
    exists i r, nth_error (o_rows o) i = Some r /\ In e (nth i (o_events o) []) /\ ev_start e = i /\
      In (ev_item e) (r_items r).
  Proof.
    intro He. destruct (event_origin (o_rows o) o Hm Hvalid Hc e He) as (i & r & Hn & Hin).
    exists i, r. split; [exact Hn|].
    rewrite (created_events_row (o_rows o) o Hm Hvalid Hc i r Hn). split; [exact Hin|].
    pose proof (row_events_times (onsets_of (o_rows o)) (length (o_rows o)) i r (skipn (S i) (o_rows o))) as Hf.
    rewrite Forall_forall in Hf. split; [apply (Hf e Hin)|].
    assert (Hit : In (ev_item e) (map ev_item (onset_events (length (o_rows o)) i r (skipn (S i) (o_rows o)) ++
                                      duration_events (onsets_of (o_rows o)) i r))) by (apply in_map; exact Hin).
    rewrite map_app, onset_events_items, duration_events_items, in_app_iff, !filter_In in Hit. tauto.
  Qed.
End Manager.

Lemma em_remaining h o : event_manager h = Ok o -> o_hed o = map (fun r => filter is_plain (r_items r)) (o_rows o).
Proof.
  intro H. pose proof (em_rows h o H) as Hr. apply rejected_only_unordered in H as [_ H].
  apply create_rows in H as [H1 H2]. rewrite H2, H1. reflexivity.
Qed.

(* ================================================================== *)
(* G. a concrete instance                                              *)
Definition ex_history : list row :=
  [ mkRow 0  [mkItem None (KOnset 1) 1; mkItem None KPlain 2; mkItem (Some 12%Z) (KOnset 2) 3];
    mkRow 8  [mkItem None (KDuration 12) 4];
    mkRow 8  [mkItem None (KOnset 1) 5];
    mkRow 16 [mkItem None (KOffset 2) 6; mkItem (Some 8%Z) (KOffset 1) 7];
    mkRow 24 [mkItem None KPlain 8] ]%Z.

Lemma ex_history_ok :
  mono (map r_onset ex_history) = true /\
  valid_timeline (split_delay_tags ex_history) /\
  (match event_manager ex_history with
   | Ok o => Some (map r_onset (o_rows o),
                   map (map (fun e => (it_id (ev_item e), ev_end e))) (o_events o),
                   map (map (fun e => it_id (ev_item e))) (o_contexts o),
                   map (map it_id) (o_hed o))
   | Exn _ => None
   end) =
  Some ([0; 8; 8; 12; 16; 24; 24]%Z,
        [[(1%N, Some 1)]; [(5%N, Some 5); (4%N, Some 5)]; []; [(3%N, Some 4)]; []; []; []],
        [[]; []; [5%N; 4%N]; [5%N; 4%N]; [5%N; 4%N]; []; []],
        [[2%N]; []; []; []; []; [8%N]; []]).
Proof.
  split; [reflexivity|]. split; [|vm_compute; reflexivity].
  unfold valid_timeline. split.
  - vm_compute. repeat (constructor; simpl; try (intuition discriminate)).
  - vm_compute. intuition.
Qed.
