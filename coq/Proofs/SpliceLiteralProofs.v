(* Proofs about Model/RefSplice.v and Model/Assemble.v (property C06): texts are spliced
   VERBATIM whatever characters they contain, and only the exact spellings "n/a" and ""
   count as a missing cell. *)
From Coq Require Import List NArith Arith Bool Lia.
From HV Require Import Base.Res Base.Str Model.RefSplice Model.Assemble Proofs.AssembleProofs.
Import ListNotations.

(* ---------- str.replace is literal ---------- *)

Lemma prefixb_app (p s : str) : prefixb p (p ++ s) = true.
Proof. induction p as [|x p IH]; simpl; [reflexivity | rewrite N.eqb_refl, IH; reflexivity]. Qed.

Lemma str_replace_skip old new : forall pre rest,
  str_replace old new (pre ++ rest) (length pre) = str_replace old new rest 0.
Proof.
  induction pre as [|c pre IH]; intros rest; simpl.
  - destruct rest; reflexivity.
  - apply IH.
Qed.

(* at an occurrence, the new text is inserted as it is -- no character of it is interpreted *)
Lemma str_replace_hit old new rest : old <> [] ->
  str_replace old new (old ++ rest) 0 = new ++ str_replace old new rest 0.
Proof.
  destruct old as [|c old]; [congruence|]. intros _.
  change ((c :: old) ++ rest) with (c :: (old ++ rest)).
  cbn [str_replace]. change (c :: old ++ rest) with ((c :: old) ++ rest).
  rewrite prefixb_app. f_equal.
  replace (length (c :: old) - 1) with (length old) by (simpl; lia).
  apply str_replace_skip.
Qed.

(* elsewhere the text is copied *)
Lemma str_replace_miss old new c s : prefixb old (c :: s) = false ->
  str_replace old new (c :: s) 0 = c :: str_replace old new s 0.
Proof. intros H. cbn [str_replace]. rewrite H. reflexivity. Qed.

(* a reference whose column text is neither "n/a" nor empty is replaced by plain, literal
   substitution, for every text, reference name and value *)
Lemma not_blank_not_empty (v : str) : is_blank v = false -> is_empty v = false.
Proof. destruct v; [discriminate | reflexivity]. Qed.

(* [keep_part v = true]: v is not "n/a", not empty and not blanks only (since d53ebab) *)
Theorem replace_ref_literal (text ref v : str) :
  keep_part v = true -> replace_ref true text ref v = Ok (str_replace (brace ref) v text 0).
Proof.
  unfold keep_part. intros H. apply andb_true_iff in H. destruct H as [Hb Hn].
  apply negb_true_iff in Hb. apply negb_true_iff in Hn.
  unfold replace_ref, replace_ref_gen. rewrite Hn, Hb, (not_blank_not_empty _ Hb). reflexivity.
Qed.

Corollary replace_ref_hit (rest ref v : str) :
  keep_part v = true ->
  replace_ref true (brace ref ++ rest) ref v = Ok (v ++ str_replace (brace ref) v rest 0).
Proof.
  intros H. rewrite (replace_ref_literal _ _ _ H). f_equal. apply str_replace_hit.
  unfold brace. simpl. discriminate.
Qed.

(* ---------- value templates ---------- *)

Lemma subst_hash_app a b x : subst_hash (a ++ b) x = subst_hash a x ++ subst_hash b x.
Proof. unfold subst_hash. apply flat_map_app. Qed.

(* every '#' is the cell text, verbatim *)
Theorem subst_hash_at (a b x : str) :
  subst_hash (a ++ ch_hash :: b) x = subst_hash a x ++ x ++ subst_hash b x.
Proof.
  rewrite subst_hash_app. reflexivity.
Qed.

(* only a cell that IS "n/a" or "" is skipped; any other cell fills the template *)
Theorem value_handler_exact (tmpl x : str) :
  skipped x = false -> value_handler true tmpl x = subst_hash tmpl x.
Proof. unfold skipped, value_handler. intros H. simpl. rewrite H. reflexivity. Qed.

Theorem skipped_exact (x : str) : skipped x = true <-> x = ch_na \/ x = [].
Proof.
  unfold skipped. rewrite orb_true_iff, str_eqb_spec. split; intros [H|H]; auto.
  - right. destruct x; [reflexivity | discriminate].
  - subst. right. reflexivity.
Qed.

(* substrings and near-misses of n/a are ordinary cell text:
   a  n  /  n/  /a  N/A  na  " n/a"  "n/a "  NA  nan *)
Definition near_misses : list str :=
  [ [97]; [110]; [47]; [110; 47]; [47; 97]; [78; 47; 65]; [110; 97]; [32; 110; 47; 97];
    [110; 47; 97; 32]; [78; 65]; [110; 97; 110] ]%N.

Theorem near_misses_not_skipped :
  forallb (fun x => negb (skipped x) && str_eqb (value_handler true [76; 47; 35]%N x) ([76; 47]%N ++ x))
          near_misses = true.
Proof. vm_compute. reflexivity. Qed.

(* a backslash text goes through a reference unchanged: "{v}, R" with "p\1q" -> "p\1q, R" *)
Example backslash_spliced :
  replace_ref true [123; 118; 125; 44; 32; 82]%N [118]%N [112; 92; 49; 113]%N
  = Ok [112; 92; 49; 113; 44; 32; 82]%N.
Proof. vm_compute. reflexivity. Qed.
