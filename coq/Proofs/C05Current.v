(* The C05 statements instantiated at the mode that matches the current /repo: every repair is in
   (fixed = true: 4719ff8, 784517a, 8fb8446; fixed5 = true: 4b4f5c6). *)
From Coq Require Import List NArith ZArith Bool.
From HV Require Import Base.Res Base.Str Base.StrOps Model.AttrCodec Model.WikiCodec Model.TsvCodec
     Proofs.AttrCodecProofs Proofs.WikiCodecProofs Proofs.TsvCodecProofs.
Import ListNotations.

Lemma cur_wiki_tag_section_roundtrip dis es lines :
  write_tag_section dis es = map Some lines ->
  Forall (fun e => name_ok (last (ti_path e) []) = true /\ desc_ok (ti_desc e) = true /\ attr_ok (ti_attrs e) = true
                   /\ wiki_text_ok (format_tag_attributes dis (ti_attrs e)) = true) es ->
  Forall2 (fun e line => row_free_of_reserved true (last (ti_path e) []) line = true) es lines ->
  paths_parents_first [] (map ti_path es) ->
  read_tag_section true [] lines = Ok (map (kept_item dis) es).
Proof. exact (wiki_tag_section_roundtrip true dis es lines). Qed.

Lemma cur_wiki_root_line_roundtrip dis n a d line :
  name_ok n = true -> desc_ok d = true ->
  attr_ok a = true -> wiki_text_ok (format_tag_attributes dis a) = true ->
  write_tag_line dis n 0 a d = Some line ->
  row_free_of_reserved true n line = true ->
  read_tag_line true line = Ok (Some (mkParsed true 0 n (filter (fun kv => negb (dis (fst kv))) a) d)).
Proof. exact (wiki_root_line_roundtrip true dis n a d line). Qed.

Lemma cur_wiki_entry_line_roundtrip dis lvl n a d line :
  ename_ok n = true -> desc_ok d = true ->
  attr_ok a = true -> wiki_text_ok (format_tag_attributes dis a) = true ->
  write_entry_line dis n (S lvl) true a d = Some line ->
  row_free_of_reserved true n line = true ->
  read_entry_line true line = Ok (Some (mkParsed false (S lvl) n (filter (fun kv => negb (dis (fst kv))) a) d)).
Proof. exact (wiki_entry_line_roundtrip true dis lvl n a d line). Qed.

Lemma cur_tsv_row_roundtrip strip_lib n a d :
  no_outer_ws n = true ->
  attr_ok a = true -> dict_get s_hedId a = None -> tsv_desc_ok d = true ->
  memb ch_slash n = false -> endswith [ch_slash; ch_hash] n = false ->
  endswith [ch_hash] n = false -> endswith s_dash_hash n = false ->
  tsv_read_row true (tsv_write_tag_row strip_lib n a d)
  = Ok (n, filter (fun kv => negb (attribute_disallowed_df strip_lib (fst kv))) a, d).
Proof. exact (tsv_row_roundtrip true strip_lib n a d). Qed.

Lemma cur_tsv_stub_row strip_lib n a d library :
  no_outer_ws n = true -> endswith s_dash_hash n = false ->
  exists a',
    tsv_read_row true (tsv_write_entry_row true strip_lib false n a d) = Ok (n, a', None)
    /\ unit_class_stub (tag_with_library library a') = true.
Proof. exact (tsv_stub_row_fixed true strip_lib n a d library). Qed.
