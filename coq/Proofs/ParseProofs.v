(* Proofs about Model/Parse.v (property C02). *)
From Coq Require Import List NArith Arith Bool Lia.
From HV Require Import Base.Res Base.Str Model.Parse.
Import ListNotations.

(* ---------- tiling ---------- *)

(* reversed token list ends at b, every token non-empty, consecutive from 0 *)
Fixpoint rtiles (o : list tok) (b : nat) : Prop :=
  match o with
  | [] => b = 0
  | (_, (x, y)) :: o' => y = b /\ x < y /\ rtiles o' x
  end.

(* forward: consecutive from a to b, non-empty *)
Fixpoint tiles (l : list tok) (a b : nat) : Prop :=
  match l with
  | [] => a = b
  | (_, (x, y)) :: l' => x = a /\ x < y /\ tiles l' y b
  end.

Lemma tiles_snoc l a x y k : tiles l a x -> x < y -> tiles (l ++ [(k, (x, y))]) a y.
Proof.
  revert a; induction l as [|[k' [x' y']] l IH]; simpl; intros a H Hxy.
  - subst. auto.
  - destruct H as (H1 & H2 & H3). auto.
Qed.

Lemma rtiles_tiles o b : rtiles o b -> tiles (rev o) 0 b.
Proof.
  revert b; induction o as [|[k [x y]] o IH]; simpl; intros b H.
  - auto.
  - destruct H as (H1 & H2 & H3). subst. apply tiles_snoc; auto.
Qed.

Lemma tiles_bounds l a b :
  tiles l a b -> a <= b /\ Forall (fun t : tok => a <= fst (snd t) /\ fst (snd t) < snd (snd t) /\ snd (snd t) <= b) l.
Proof.
  revert a; induction l as [|[k [x y]] l IH]; simpl; intros a H.
  - subst. split; [lia | constructor].
  - destruct H as (H1 & H2 & H3). subst. destruct (IH _ H3) as [Hle Hf]. split; [lia|].
    constructor; simpl; [lia|]. eapply Forall_impl; [|exact Hf]. simpl. intros t Ht. lia.
Qed.

(* ---------- invariant of the scanning loop ---------- *)

Definition sinv (s : sst) (i : nat) : Prop :=
  if found s then
    exists e, lastend s = Some e /\ e <= i /\ tstart s = None /\ rtiles (out s) e
  else
    lastend s = None /\ exists t, tstart s = Some t /\ t + spacing s < i /\ rtiles (out s) t.

Lemma sinv0 : sinv sst0 0.
Proof. unfold sinv, sst0; simpl. exists 0. repeat split; auto. Qed.

Lemma sstep_inv s i c : sinv s i -> exists s', sstep s i c = Some s' /\ sinv s' (S i).
Proof.
  unfold sinv, sstep. intros H.
  destruct (N.eqb c ch_space) eqn:Hsp.
  - eexists; split; [reflexivity|]. simpl.
    destruct (found s) eqn:Hf.
    + destruct H as (e & H1 & H2 & H3 & H4). exists e. repeat split; auto.
    + destruct H as (H1 & t & H2 & H3 & H4). split; auto. exists t. repeat split; auto. lia.
  - destruct (is_delim c) eqn:Hd.
    + destruct (found s) eqn:Hf.
      * destruct H as (e & H1 & H2 & H3 & H4). rewrite H1.
        eexists; split; [reflexivity|]. simpl. exists i. repeat split; auto.
        destruct (Nat.eqb e i) eqn:He; simpl.
        -- apply Nat.eqb_eq in He. subst. exact H4.
        -- apply Nat.eqb_neq in He. repeat split; auto. lia.
      * destruct H as (H1 & t & H2 & H3 & H4). rewrite H2.
        eexists; split; [reflexivity|]. simpl. exists (i - spacing s).
        repeat split; auto; lia.
    + destruct (found s) eqn:Hf.
      * destruct H as (e & H1 & H2 & H3 & H4). rewrite H1, H3.
        eexists; split; [reflexivity|]. simpl. split; auto. exists i. repeat split; auto; try lia.
        destruct (Nat.eqb e i) eqn:He; simpl.
        -- apply Nat.eqb_eq in He. subst. exact H4.
        -- apply Nat.eqb_neq in He. repeat split; auto. lia.
      * destruct H as (H1 & t & H2 & H3 & H4). rewrite H1, H2.
        eexists; split; [reflexivity|]. simpl. split; auto. exists t. repeat split; auto; lia.
Qed.

Lemma sloop_inv cs : forall s i, sinv s i ->
  exists s', sloop s i cs = Some s' /\ sinv s' (i + length cs).
Proof.
  induction cs as [|c cs IH]; simpl; intros s i H.
  - exists s. rewrite Nat.add_0_r. auto.
  - destruct (sstep_inv s i c H) as (s' & Hs & Hi). rewrite Hs.
    destruct (IH s' (S i) Hi) as (s'' & Hl & Hi'). exists s''. split; auto.
    replace (i + S (length cs)) with (S i + length cs) by lia. exact Hi'.
Qed.

Lemma sfinish_tiles s n : sinv s n -> tiles (sfinish s n) 0 n.
Proof.
  unfold sinv, sfinish. intros H.
  destruct (found s) eqn:Hf.
  - destruct H as (e & H1 & H2 & H3 & H4). rewrite H1, H3.
    apply rtiles_tiles.
    destruct (Nat.eqb n e) eqn:He; simpl.
    + apply Nat.eqb_eq in He. subst. exact H4.
    + apply Nat.eqb_neq in He. repeat split; auto. lia.
  - destruct H as (H1 & t & H2 & H3 & H4). rewrite H1, H2.
    apply rtiles_tiles.
    destruct (Nat.eqb (spacing s) 0) eqn:He; simpl.
    + apply Nat.eqb_eq in He. repeat split; auto; lia.
    + apply Nat.eqb_neq in He. repeat split; auto; lia.
Qed.

(* split_hed_string never reaches the state the model leaves unmodelled, and
   its tokens are non-empty, consecutive and cover [0, len s) in order. *)
Theorem split_total_tiles (s : str) :
  exists ts, split_hed_string s = Some ts /\ tiles ts 0 (length s).
Proof.
  unfold split_hed_string.
  destruct (sloop_inv s sst0 0 sinv0) as (st & Hl & Hi). rewrite Hl.
  eexists; split; [reflexivity|]. apply sfinish_tiles. exact Hi.
Qed.

(* ---------- split_into_groups never raises anything but ValueError ---------- *)

Lemma first_nonspace_bound p : forall i,
  first_nonspace p i = 0 \/ (i <= first_nonspace p i /\ first_nonspace p i < i + length p).
Proof.
  induction p as [|c p IH]; simpl; intros i; [left; reflexivity|].
  destruct (isspace c).
  - destruct (IH (S i)) as [H|H]; [left; exact H | right; lia].
  - right. lia.
Qed.

Lemma first_nonspace_lt p : p <> [] -> first_nonspace p 0 < length p.
Proof.
  intros Hp. destruct (first_nonspace_bound p 0) as [H|H].
  - rewrite H. destruct p; [congruence | simpl; lia].
  - lia.
Qed.

Definition only_value_error {A} (r : res A) : Prop :=
  match r with Ok _ => True | Exn ValueError => True | Exn _ => False end.

Lemma bstep_ok s st k a b : a < b -> b <= length s -> only_value_error (bstep s st (k, (a, b))).
Proof.
  intros Hab Hb. unfold bstep. destruct k; simpl; [exact I|].
  assert (Hlen : length (sub s a b) = b - a) by (apply sub_length; lia).
  assert (Hne : sub s a b <> []) by (intro E; rewrite E in Hlen; simpl in Hlen; lia).
  pose proof (first_nonspace_lt _ Hne) as Hlt.
  destruct (nth_error (sub s a b) (first_nonspace (sub s a b) 0)) as [c|] eqn:Hn.
  - destruct (N.eqb c ch_close).
    + destruct (if N.eqb c ch_open then _ else _) as [|[ga gch] [|[pa pch] rest]]; simpl; exact I.
    + simpl. exact I.
  - apply nth_error_None in Hn. lia.
Qed.

Lemma bloop_ok s ts : forall st,
  Forall (fun t : tok => fst (snd t) < snd (snd t) /\ snd (snd t) <= length s) ts ->
  only_value_error (bloop s st ts).
Proof.
  induction ts as [|[k [a b]] ts IH]; intros st Hf; [exact I|].
  inversion Hf as [|? ? [H1 H2] Hf']; subst; cbn [fst snd] in *.
  pose proof (bstep_ok s st k a b H1 H2) as Hb.
  change (bloop s st ((k, (a, b)) :: ts)) with
    (bind (bstep s st (k, (a, b))) (fun st' => bloop s st' ts)).
  destruct (bstep s st (k, (a, b))) as [st'|e]; cbn [bind].
  - apply IH. exact Hf'.
  - exact Hb.
Qed.

Theorem split_into_groups_only_value_error (s : str) : only_value_error (split_into_groups s).
Proof.
  unfold split_into_groups.
  destruct (split_total_tiles s) as (ts & Hs & Ht). rewrite Hs.
  apply tiles_bounds in Ht. destruct Ht as [_ Hf].
  assert (Hf' : Forall (fun t : tok => fst (snd t) < snd (snd t) /\ snd (snd t) <= length s) ts).
  { eapply Forall_impl; [|exact Hf]. simpl. intros t Ht. lia. }
  pose proof (bloop_ok s ts [(0, [])] Hf') as Hb.
  destruct (bloop s [(0, [])] ts) as [st|e]; simpl.
  - destruct st as [|[a ch] [|? ?]]; simpl; exact I.
  - exact Hb.
Qed.

(* Constructing an annotation object from any text never raises. *)
Theorem init_never_raises (s : str) : exists f, hedstring_init s = Ok f.
Proof.
  unfold hedstring_init. pose proof (split_into_groups_only_value_error s) as H.
  destruct (split_into_groups s) as [f|e]; simpl.
  - eauto.
  - destruct e; simpl in H; try contradiction. eauto.
Qed.

(* ---------- the parenthesis count check ---------- *)

Lemma balanced_from_counts s : forall d,
  balanced_from d s = true -> count ch_open s + d = count ch_close s.
Proof.
  induction s as [|c s IH]; simpl; intros d H.
  - apply Nat.eqb_eq in H. lia.
  - destruct (N.eqb c ch_open) eqn:Ho.
    + apply N.eqb_eq in Ho. subst c. simpl. apply IH in H. lia.
    + destruct (N.eqb c ch_close) eqn:Hc.
      * destruct d as [|d']; [discriminate|]. apply IH in H. lia.
      * apply IH in H. lia.
Qed.

(* sound direction: a reported count mismatch implies unbalanced text *)
Theorem count_mismatch_unbalanced (s : str) :
  paren_count_mismatch s = true -> balanced s = false.
Proof.
  unfold paren_count_mismatch, balanced. intros H.
  destruct (balanced_from 0 s) eqn:Hb; [|reflexivity].
  apply balanced_from_counts in Hb. apply negb_true_iff, Nat.eqb_neq in H. lia.
Qed.

Lemma balanced_from_iff s : forall d,
  balanced_from d s = true <->
  (count ch_open s + d = count ch_close s /\ nested_from d s = true).
Proof.
  induction s as [|c s IH]; simpl; intros d.
  - rewrite Nat.eqb_eq. split; [intros ->; auto | intros [H _]; lia].
  - destruct (N.eqb c ch_open) eqn:Ho.
    + apply N.eqb_eq in Ho. subst c. simpl. rewrite IH. split; intros [H1 H2]; split; auto; lia.
    + destruct (N.eqb c ch_close) eqn:Hc.
      * destruct d as [|d'].
        -- split; [discriminate | intros [_ H]; discriminate].
        -- rewrite IH. split; intros [H1 H2]; split; auto; lia.
      * rewrite IH. split; intros [H1 H2]; split; auto; lia.
Qed.

(* repaired check: a mismatch is reported exactly for unbalanced text *)
Theorem unbalanced_iff_mismatch (s : str) : balanced s = false <-> paren_mismatch s = true.
Proof.
  unfold balanced, paren_mismatch, paren_count_mismatch.
  pose proof (balanced_from_iff s 0) as H. rewrite Nat.add_0_r in H.
  destruct (balanced_from 0 s) eqn:Hb.
  - destruct H as [H _]. destruct (H eq_refl) as [H1 H2]. rewrite H1, H2, Nat.eqb_refl. simpl.
    split; discriminate.
  - split; [intros _ | reflexivity].
    destruct (Nat.eqb (count ch_open s) (count ch_close s)) eqn:He; simpl; [|reflexivity].
    destruct (nested_from 0 s) eqn:Hn; simpl; [|reflexivity].
    apply Nat.eqb_eq in He. destruct H as [_ H]. discriminate H. auto.
Qed.

(* The full statement "unbalanced => PARENTHESES_MISMATCH reported" is false
   of the count-only check of the unrepaired code: ")(" *)
Definition s_close_open : str := [ch_close; ch_open].
Theorem unbalanced_reports_mismatch_refuted :
  exists s, balanced s = false /\ paren_count_mismatch s = false.
Proof. exists s_close_open. split; reflexivity. Qed.

(* ---------- bounded exhaustive agreement with the character-level spec ---------- *)

Definition sigma6 : list N := [97; 32; 44; 40; 41; 47]%N.

Fixpoint all_strings (sigma : list N) (n : nat) : list str :=
  match n with
  | 0 => [[]]
  | S n' => flat_map (fun s => map (fun c => c :: s) sigma) (all_strings sigma n')
  end.

Lemma all_strings_complete sigma n s :
  length s = n -> Forall (fun c => In c sigma) s -> In s (all_strings sigma n).
Proof.
  revert s; induction n as [|n IH]; intros s Hl Hf.
  - destruct s; [left; reflexivity | discriminate].
  - destruct s as [|c s]; [discriminate|]. simpl in Hl. inversion Hl.
    inversion Hf; subst. simpl. apply in_flat_map. exists s. split.
    + apply IH; auto.
    + apply (in_map (fun c0 => c0 :: s)). assumption.
Qed.

Definition forest_of (s : str) : list node :=
  match hedstring_init s with Ok f => f | Exn _ => [] end.

(* every clause of the property that is checkable per string *)
Definition spec_ok (s : str) : bool :=
  let f := forest_of s in
  is_ok (hedstring_init s)
  && nodes_eqb f (spec_parse s)
  && (if balanced s then
        (* printing in original form and re-parsing gives an equal tree *)
        let p := print_forest s f in
        shapes_eqb (map (shape_of p) (forest_of p)) (map (shape_of s) f)
      else match f with [] => true | _ => false end).

Definition check_upto (n : nat) : bool :=
  forallb (fun k => forallb spec_ok (all_strings sigma6 k)) (seq 0 (S n)).

Lemma check_upto_sound n : check_upto n = true ->
  forall s, length s <= n -> Forall (fun c => In c sigma6) s -> spec_ok s = true.
Proof.
  unfold check_upto. intros H s Hl Hf.
  rewrite forallb_forall in H. specialize (H (length s)).
  assert (Hin : In (length s) (seq 0 (S n))) by (apply in_seq; lia).
  apply H in Hin. rewrite forallb_forall in Hin. apply Hin.
  apply all_strings_complete; auto.
Qed.

Lemma check_upto_6 : check_upto 6 = true.
Proof. vm_compute. reflexivity. Qed.

(* non-vacuity: a balanced nested string parses to a depth-2 tree *)
Definition ex_nested : str := [40; 97; 44; 40; 97; 32; 41; 41; 44; 97]%N.  (* "(a,(a )),a" *)
Example ex_nested_parse :
  balanced ex_nested = true /\
  hedstring_init ex_nested = Ok [Group 0 8 [Tag 1 2; Group 3 7 [Tag 4 5]]; Tag 9 10].
Proof. split; vm_compute; reflexivity. Qed.
