(* Concrete instances for C03: the witnesses of the two repaired defects (run on the unrepaired model),
   the casefold table check, and a non-vacuity example on the bundled schema 8.3.0 (data from T4). *)
From Coq Require Import List NArith Bool.
From HV Require Import Base.Str Base.Res Base.SchemaData Model.Schema Model.Resolve.
From HV Require Gen.Schema_8_3_0 Gen.FoldTable.
Import ListNotations.
Local Open Scope N_scope.

(* CPython's casefold table meets the side conditions of the theorems *)
Lemma casefold_table_ok : table_ok FoldTable.casefold_table = true.
Proof. vm_compute. reflexivity. Qed.

(* ---- C03-F2 (repaired): schema  A, A/#  ; text  "A/#/#/x".
   Before the repair the walk stepped onto the placeholder: short t = "A/#/x", short(short t) = "A/x". *)
Definition wit_schema : list str := [[65]; [65;47;35]].
Definition wit_text : str := [65;47;35;47;35;47;120].
Definition ascii_fold (c : N) : str := [ascii_lower c].

Lemma long_short_unrestricted_refuted_before_fix :
  exists (S : list str) (sns t : str),
    WFschema ascii_fold S = true /\
    match build_table ascii_fold S with
    | Ok T =>
        let h := hedtag_init ascii_fold (mkFixes true false) T sns t in
        let hs := hedtag_init ascii_fold (mkFixes true false) T sns (short_tag h) in
        short_tag hs <> short_tag h /\ long_tag hs <> long_tag h
    | Exn _ => False
    end.
Proof.
  exists wit_schema, [], wit_text. split; [vm_compute; reflexivity|].
  vm_compute. split; intro H; discriminate H.
Qed.

(* ---- C03-F1 (repaired): schema  Press ; folding with U+00DF -> "ss"; text "Preß/abc".
   Before the repair the extension was cut at an index of the folded text: short form "Pressabc". *)
Definition f1_table : list (N * str) := [(223, [115;115])].
Definition f1_schema : list str := [[80;114;101;115;115]].
Definition f1_text : str := [80;114;101;223;47;97;98;99].
Definition f1_bad : str := [80;114;101;115;115;97;98;99].
Definition f1_good : str := [80;114;101;115;115;47;97;98;99].

Lemma remainder_not_verbatim_before_fix :
  exists (tbl : list (N * str)) (S : list str) (t : str),
    table_ok tbl = true /\ WFschema (table_fold tbl) S = true /\
    match build_table (table_fold tbl) S with
    | Ok T =>
        short_tag (hedtag_init (table_fold tbl) (mkFixes false true) T [] t) = f1_bad /\
        short_tag (hedtag_init (table_fold tbl) (mkFixes true true) T [] t) = f1_good
    | Exn _ => False
    end.
Proof.
  exists f1_table, f1_schema, f1_text. split; [vm_compute; reflexivity|]. split; [vm_compute; reflexivity|].
  vm_compute. split; reflexivity.
Qed.

Definition names_8_3_0 : list str := map td_long Schema_8_3_0.tags.

(* "ts:temporal-VALUE/duration/3 ms" in a schema loaded with namespace "ts:", and the two old witnesses *)
Definition ex_text : str := [116;115;58;116;101;109;112;111;114;97;108;45;86;65;76;85;69;47;100;117;114;97;116;105;111;110;47;51;32;109;115].
Definition ex_entry : str := [80;114;111;112;101;114;116;121;47;68;97;116;97;45;112;114;111;112;101;114;116;121;47;68;97;116;97;45;118;97;108;117;101;47;83;112;97;116;105;111;116;101;109;112;111;114;97;108;45;118;97;108;117;101;47;84;101;109;112;111;114;97;108;45;118;97;108;117;101;47;68;117;114;97;116;105;111;110;47;35].
Definition ex_short : str := [116;115;58;68;117;114;97;116;105;111;110;47;51;32;109;115].
Definition ex_long : str := [116;115;58;80;114;111;112;101;114;116;121;47;68;97;116;97;45;112;114;111;112;101;114;116;121;47;68;97;116;97;45;118;97;108;117;101;47;83;112;97;116;105;111;116;101;109;112;111;114;97;108;45;118;97;108;117;101;47;84;101;109;112;111;114;97;108;45;118;97;108;117;101;47;68;117;114;97;116;105;111;110;47;51;32;109;115].

Definition ex_check : bool :=
  match build_table FoldTable.py_fold names_8_3_0 with
  | Ok T =>
      let h := hedtag_init FoldTable.py_fold repaired T [116;115;58] ex_text in
      let h1 := hedtag_init FoldTable.py_fold repaired T [] [80;114;101;223;47;97;98;99] in
      let h2 := hedtag_init FoldTable.py_fold repaired T [] [68;117;114;97;116;105;111;110;47;35;47;35;47;109;111;114;101] in
      match ht_entry h with
      | Some e => str_eqb (e_name e) ex_entry && str_eqb (short_tag h) ex_short
                  && str_eqb (long_tag h) ex_long && str_eqb (extension h) [51;32;109;115]
                  && negb (str_eqb ex_text ex_short)
                  && str_eqb (short_tag h1) [80;114;101;115;115;47;97;98;99]
                  && str_eqb (short_tag h2) [68;117;114;97;116;105;111;110;47;35;47;35;47;109;111;114;101]
      | None => false
      end
  | Exn _ => false
  end.

Lemma ex_resolution : ex_check = true.
Proof. vm_cast_no_check (eq_refl true). Qed.
