(* Concrete instances for C03: the witnesses of the two repaired defects (run on the unrepaired model),
   the casefold table check, and a non-vacuity example on the bundled schema 8.3.0 (data from T4). *)
From Coq Require Import List NArith Bool.
From HV Require Import Base.Str Base.Res Base.SchemaData Model.Schema Model.Resolve.
From HV Require Gen.Schema_8_3_0 Gen.FoldTable.
Import ListNotations.
Local Open Scope N_scope.

(* CPython's casefold table meets the side conditions of the theorems *)
Lemma casefold_table_ok : table_ok FoldTable.casefold_table = true.
Proof. vm_compute. reflexivity. Qed.

(* ---- C03-F2 (repaired by fix commit 03a83bd; behaviour before it): schema  A, A/#  ; text  "A/#/#/x".
   Before the repair the walk stepped onto the placeholder: short t = "A/#/x", short(short t) = "A/x". *)
Definition wit_schema : list str := [[65]; [65;47;35]].
Definition wit_text : str := [65;47;35;47;35;47;120].
Definition ascii_fold (c : N) : str := [ascii_lower c].

Lemma long_short_unrestricted_refuted_before_fix :
  exists (S : list str) (sns t : str),
    WFschema ascii_fold S = true /\
    match build_table ascii_fold S with
    | Ok T =>
        let h := hedtag_init ascii_fold (mkFixes true false) T sns t in
        let hs := hedtag_init ascii_fold (mkFixes true false) T sns (short_tag h) in
        short_tag hs <> short_tag h /\ long_tag hs <> long_tag h
    | Exn _ => False
    end.
Proof.
  exists wit_schema, [], wit_text. split; [vm_compute; reflexivity|].
  vm_compute. split; intro H; discriminate H.
Qed.

(* ---- C03-F1 (repaired by fix commit de8c862; behaviour before it): schema  Press ; folding with U+00DF -> "ss"; text "Preß/abc".
   Before the repair the extension was cut at an index of the folded text: short form "Pressabc". *)
Definition f1_table : list (N * str) := [(223, [115;115])].
Definition f1_schema : list str := [[80;114;101;115;115]].
Definition f1_text : str := [80;114;101;223;47;97;98;99].
Definition f1_bad : str := [80;114;101;115;115;97;98;99].
Definition f1_good : str := [80;114;101;115;115;47;97;98;99].

Lemma remainder_not_verbatim_before_fix :
  exists (tbl : list (N * str)) (S : list str) (t : str),
    table_ok tbl = true /\ WFschema (table_fold tbl) S = true /\
    match build_table (table_fold tbl) S with
    | Ok T =>
        short_tag (hedtag_init (table_fold tbl) (mkFixes false true) T [] t) = f1_bad /\
        short_tag (hedtag_init (table_fold tbl) (mkFixes true true) T [] t) = f1_good
    | Exn _ => False
    end.
Proof.
  exists f1_table, f1_schema, f1_text. split; [vm_compute; reflexivity|]. split; [vm_compute; reflexivity|].
  vm_compute. split; reflexivity.
Qed.

Definition names_8_3_0 : list str := map td_long Schema_8_3_0.tags.

(* "ts:temporal-VALUE/duration/3 ms" in a schema loaded with namespace "ts:", and the two old witnesses *)
Definition ex_text : str := [116;115;58;116;101;109;112;111;114;97;108;45;86;65;76;85;69;47;100;117;114;97;116;105;111;110;47;51;32;109;115].
Definition ex_entry : str := [80;114;111;112;101;114;116;121;47;68;97;116;97;45;112;114;111;112;101;114;116;121;47;68;97;116;97;45;118;97;108;117;101;47;83;112;97;116;105;111;116;101;109;112;111;114;97;108;45;118;97;108;117;101;47;84;101;109;112;111;114;97;108;45;118;97;108;117;101;47;68;117;114;97;116;105;111;110;47;35].
Definition ex_short : str := [116;115;58;68;117;114;97;116;105;111;110;47;51;32;109;115].
Definition ex_long : str := [116;115;58;80;114;111;112;101;114;116;121;47;68;97;116;97;45;112;114;111;112;101;114;116;121;47;68;97;116;97;45;118;97;108;117;101;47;83;112;97;116;105;111;116;101;109;112;111;114;97;108;45;118;97;108;117;101;47;84;101;109;112;111;114;97;108;45;118;97;108;117;101;47;68;117;114;97;116;105;111;110;47;51;32;109;115].

Definition ex_check : bool :=
  match build_table FoldTable.py_fold names_8_3_0 with
  | Ok T =>
      let h := hedtag_init FoldTable.py_fold repaired T [116;115;58] ex_text in
      let h1 := hedtag_init FoldTable.py_fold repaired T [] [80;114;101;223;47;97;98;99] in
      let h2 := hedtag_init FoldTable.py_fold repaired T [] [68;117;114;97;116;105;111;110;47;35;47;35;47;109;111;114;101] in
      match ht_entry h with
      | Some e => str_eqb (e_name e) ex_entry && str_eqb (short_tag h) ex_short
                  && str_eqb (long_tag h) ex_long && str_eqb (extension h) [51;32;109;115]
                  && negb (str_eqb ex_text ex_short)
                  && str_eqb (short_tag h1) [80;114;101;115;115;47;97;98;99]
                  && str_eqb (short_tag h2) [68;117;114;97;116;105;111;110;47;35;47;35;47;109;111;114;101]
      | None => false
      end
  | Exn _ => false
  end.

Lemma ex_resolution : ex_check = true.
Proof. vm_cast_no_check (eq_refl true). Qed.

(* the premises of remainder_verbatim on 8.3.0 *)
Definition ex_red : str := [80;114;111;112;101;114;116;121;47;83;101;110;115;111;114;121;45;112;114;111;112;101;114;116;121;47;83;101;110;115;111;114;121;45;97;116;116;114;105;98;117;116;101;47;86;105;115;117;97;108;45;97;116;116;114;105;98;117;116;101;47;67;111;108;111;114;47;67;83;83;45;99;111;108;111;114;47;82;101;100;45;99;111;108;111;114;47;82;101;100].
Definition ex_dur : str := [80;114;111;112;101;114;116;121;47;68;97;116;97;45;112;114;111;112;101;114;116;121;47;68;97;116;97;45;118;97;108;117;101;47;83;112;97;116;105;111;116;101;109;112;111;114;97;108;45;118;97;108;117;101;47;84;101;109;112;111;114;97;108;45;118;97;108;117;101;47;68;117;114;97;116;105;111;110].
Definition ex_css : str := [80;114;111;112;101;114;116;121;47;83;101;110;115;111;114;121;45;112;114;111;112;101;114;116;121;47;83;101;110;115;111;114;121;45;97;116;116;114;105;98;117;116;101;47;86;105;115;117;97;108;45;97;116;116;114;105;98;117;116;101;47;67;111;108;111;114;47;67;83;83;45;99;111;108;111;114].

Definition is_none {A} (o : option A) : bool := match o with None => true | Some _ => false end.

Definition ex_premises_on (T : table) : bool :=
  let fold := Schema.fold FoldTable.py_fold in
  let p1 := [114;69;68;45;99;111;108;111;114;47;82;69;68] in let r1 := [81;122;120;57;47;109;121;32;101;120;116] in
  let p2 := [116;101;109;112;111;114;97;108;45;86;65;76;85;69;47;100;117;114;97;116;105;111;110] in let r2 := [51;32;109;115] in
  match create_tag_entry ex_red, create_tag_entry ex_dur, get_tag_forms ex_red, get_tag_forms ex_dur with
  | Ok e1, Ok e2, Ok (_, f1), Ok (_, f2) =>
      (* Red: registered, not a value node, the spelling is a case variant of one of its forms *)
      mem ex_red names_8_3_0 && negb (is_value ex_red) && mem (fold p1) (map fold f1)
      && no_longer_form FoldTable.py_fold T p1 r1 && is_none (takes_value_child FoldTable.py_fold T e1)
      && ext_terms_free FoldTable.py_fold T r1
      && match find_tag_entry FoldTable.py_fold repaired T [] (p1 ++ ch_slash :: r1) [] with
         | Found e r => str_eqb (e_name e) ex_red && str_eqb r (ch_slash :: r1) | NotFound _ => false end
      (* Duration: has a '#' child, any value is kept on it *)
      && mem ex_dur names_8_3_0 && negb (is_value ex_dur) && mem (fold p2) (map fold f2)
      && no_longer_form FoldTable.py_fold T p2 r2 && negb (is_none (takes_value_child FoldTable.py_fold T e2))
      && match find_tag_entry FoldTable.py_fold repaired T [] (p2 ++ ch_slash :: r2) [] with
         | Found e r => str_eqb (e_name e) (ex_dur ++ s_slash_hash) && str_eqb r (ch_slash :: r2)
         | NotFound _ => false end
      (* a remainder that continues to a deeper registered form is not an extension *)
      && negb (no_longer_form FoldTable.py_fold T [99;111;108;111;114;47;67;83;83;45;99;111;108;111;114] [82;101;100;45;99;111;108;111;114;47;82;101;100])
  | _, _, _, _ => false
  end.

Definition ex_premises : bool :=
  match build_table FoldTable.py_fold names_8_3_0 with Ok T => ex_premises_on T | Exn _ => false end.

Lemma ex_premises_ok : ex_premises = true.
Proof. vm_cast_no_check (eq_refl true). Qed.
