(* Concrete instances for C03: a witness refuting the unrestricted round-trip law, and a
   non-vacuity example on the bundled schema 8.3.0 (data from translator T4). *)
From Coq Require Import List NArith.
From HV Require Import Base.Str Base.Res Base.SchemaData Model.Schema Model.Resolve.
From HV Require Gen.Schema_8_3_0.
Import ListNotations.
Local Open Scope N_scope.

(* schema  A, A/#  ; text  "A/#/#/x" : short(short t) = "A/x" but short t = "A/#/x" *)
Definition wit_schema : list str := [[65]; [65;47;35]].
Definition wit_text : str := [65;47;35;47;35;47;120].

Lemma long_short_unrestricted_refuted :
  exists (S : list str) (sns t : str),
    WFschema ascii_lower S = true /\
    match build_table ascii_lower S with
    | Ok T =>
        let h := hedtag_init ascii_lower T sns t in
        let hs := hedtag_init ascii_lower T sns (short_tag h) in
        short_tag hs <> short_tag h /\ long_tag hs <> long_tag h
    | Exn _ => False
    end.
Proof.
  exists wit_schema, [], wit_text. split; [vm_compute; reflexivity|].
  vm_compute. split; intro H; discriminate H.
Qed.

Definition names_8_3_0 : list str := map td_long Schema_8_3_0.tags.

(* "ts:temporal-VALUE/duration/3 ms" in a schema loaded with namespace "ts:" *)
Definition ex_text : str := [116;115;58;116;101;109;112;111;114;97;108;45;86;65;76;85;69;47;100;117;114;97;116;105;111;110;47;51;32;109;115].
Definition ex_entry : str := [80;114;111;112;101;114;116;121;47;68;97;116;97;45;112;114;111;112;101;114;116;121;47;68;97;116;97;45;118;97;108;117;101;47;83;112;97;116;105;111;116;101;109;112;111;114;97;108;45;118;97;108;117;101;47;84;101;109;112;111;114;97;108;45;118;97;108;117;101;47;68;117;114;97;116;105;111;110;47;35].
Definition ex_short : str := [116;115;58;68;117;114;97;116;105;111;110;47;51;32;109;115].
Definition ex_long : str := [116;115;58;80;114;111;112;101;114;116;121;47;68;97;116;97;45;112;114;111;112;101;114;116;121;47;68;97;116;97;45;118;97;108;117;101;47;83;112;97;116;105;111;116;101;109;112;111;114;97;108;45;118;97;108;117;101;47;84;101;109;112;111;114;97;108;45;118;97;108;117;101;47;68;117;114;97;116;105;111;110;47;51;32;109;115].

Definition ex_check : bool :=
  match build_table ascii_lower names_8_3_0 with
  | Ok T =>
      let h := hedtag_init ascii_lower T [116;115;58] ex_text in
      match ht_entry h with
      | Some e => str_eqb (e_name e) ex_entry && str_eqb (short_tag h) ex_short
                  && str_eqb (long_tag h) ex_long && str_eqb (extension h) [51;32;109;115]
                  && negb (str_eqb ex_text ex_short)
      | None => false
      end
  | Exn _ => false
  end.

Lemma ex_resolution : ex_check = true.
Proof. vm_cast_no_check (eq_refl true). Qed.
