(* Lemmas about the spec layer Model/Defs.v (C09). *)
From Coq Require Import List NArith Arith Bool Lia Permutation.
From HV Require Import Base.Res Base.Str Model.Defs.
Import ListNotations.

(* ------------------------------------------------------------------ induction on nodes *)

Section NodeInd.
  Variable P : node -> Prop.
  Hypothesis HT : forall t, P (T t).
  Hypothesis HG : forall ch, Forall P ch -> P (G ch).
  Fixpoint node_ind2 (n : node) : P n :=
    match n with
    | T t => HT t
    | G ch => HG ch ((fix go (l : list node) : Forall P l :=
                        match l with
                        | [] => Forall_nil P
                        | x :: l' => Forall_cons x (node_ind2 x) (go l')
                        end) ch)
    end.
End NodeInd.

(* ------------------------------------------------------------------ small facts *)

Lemma filter_nil_iff {A} (p : A -> bool) (l : list A) :
  filter p l = [] <-> Forall (fun x => p x = false) l.
Proof.
  induction l as [|x l IH]; simpl.
  - split; auto.
  - destruct (p x) eqn:E; split; intro H.
    + discriminate.
    + inversion H; congruence.
    + constructor; [assumption | apply IH; assumption].
    + inversion H; subst. apply IH; assumption.
Qed.

Lemma is_nil_true {A} (l : list A) : is_nil l = true <-> l = [].
Proof. destruct l; simpl; split; intro H; congruence. Qed.

Lemma str_eqb_refl s : str_eqb s s = true.
Proof. apply str_eqb_spec. reflexivity. Qed.

Lemma set_base_back t : tbase t = BDef -> set_base (set_base t BDefExpand) BDef = t.
Proof. destruct t as [b e o ns]; simpl; intro H; subst; reflexivity. Qed.

(* ------------------------------------------------------------------ acceptance *)

Definition def_name (dt : tag) : str := fst (strip_value_placeholder (text dt)).
Definition def_takes (dt : tag) : bool := snd (strip_value_placeholder (text dt)).
Definition content_group (g : list node) : option (list node) := hd_error (direct_groups g).

(* the acceptance conditions, as a boolean that follows the order of the code *)
Definition acceptb (D : dict) (dt : tag) (g : list node) : bool :=
  negb (1 <? length (direct_groups g)) &&
  negb ((length (direct_groups g) =? 0) && contains ch_hash (text dt)) &&
  (length (direct_tags g) =? 1) &&
  negb (contains ch_slash (def_name dt) || contains ch_hash (def_name dt)) &&
  is_nil (validate_contents (content_group g)) &&
  is_nil (validate_placeholders (content_group g) (def_takes dt)) &&
  negb (mem_key (lower (def_name dt)) D).

Definition new_dict (D : dict) (dt : tag) (g : list node) : dict :=
  D ++ [(lower (def_name dt), mk_entry (def_name dt) (content_group g) (def_takes dt))].

Lemma app_not_nil {A} (l1 l2 : list A) : l2 <> [] -> l1 ++ l2 <> [].
Proof. destruct l1; simpl; [auto | discriminate]. Qed.

Lemma is_nil_false_ne {A} (l : list A) : is_nil l = false -> l <> [].
Proof. destruct l; simpl; [discriminate | intros _ H; discriminate]. Qed.

Lemma check_one_spec D dt g :
  (acceptb D dt g = true /\ check_one D dt g = (new_dict D dt g, [])) \/
  (acceptb D dt g = false /\ fst (check_one D dt g) = D /\ snd (check_one D dt g) <> []).
Proof.
  unfold check_one, acceptb, new_dict, find_group, def_name, def_takes, content_group.
  destruct (strip_value_placeholder (text dt)) as [name takes] eqn:Es. cbn [fst snd].
  destruct (1 <? length (direct_groups g)) eqn:E1; cbn [negb andb].
  { right. cbn [app is_nil negb]. split; [reflexivity|]. split; [reflexivity | discriminate]. }
  destruct ((length (direct_groups g) =? 0) && contains ch_hash (text dt)) eqn:E2; cbn [negb andb].
  { right. cbn [app is_nil negb]. split; [reflexivity|]. split; [reflexivity | discriminate]. }
  destruct (length (direct_tags g) =? 1) eqn:E3; cbn [negb andb app].
  2:{ right. cbn [is_nil negb]. split; [reflexivity|]. split; [reflexivity | discriminate]. }
  destruct (contains ch_slash name || contains ch_hash name) eqn:E4; cbn [negb andb app is_nil].
  { right. split; [reflexivity|]. split; [reflexivity | discriminate]. }
  destruct (is_nil (validate_contents (hd_error (direct_groups g)))) eqn:E5; cbn [andb].
  2:{ right. apply is_nil_false_ne in E5.
      destruct (validate_contents (hd_error (direct_groups g)) ++
                validate_placeholders (hd_error (direct_groups g)) takes) eqn:E6.
      - apply app_eq_nil in E6. tauto.
      - cbn [is_nil negb fst snd]. split; [reflexivity|]. split; [reflexivity | discriminate]. }
  apply is_nil_true in E5. rewrite E5. cbn [app].
  destruct (is_nil (validate_placeholders (hd_error (direct_groups g)) takes)) eqn:E6; cbn [andb negb].
  2:{ right. apply is_nil_false_ne in E6.
      destruct (validate_placeholders (hd_error (direct_groups g)) takes) eqn:E7; [congruence|].
      cbn [is_nil negb fst snd]. split; [reflexivity|]. split; [reflexivity | discriminate]. }
  destruct (mem_key (lower name) D) eqn:E7; cbn [negb].
  - right. split; [reflexivity|]. split; [reflexivity | discriminate].
  - left. split; reflexivity.
Qed.

(* the same conditions in words (Prop) *)
Definition acceptable (D : dict) (dt : tag) (g : list node) : Prop :=
  let tags := group_tags (content_group g) in
  length (direct_groups g) <= 1 /\                                   (* at most one content group *)
  length (direct_tags g) = 1 /\                                      (* no tag beside Definition *)
  (length (direct_groups g) = 0 -> contains ch_hash (text dt) = false) /\
  contains ch_slash (def_name dt) = false /\                         (* name without '/' *)
  contains ch_hash (def_name dt) = false /\                          (* name without '#' *)
  Forall (fun t => is_defish (tbase t) = false) tags /\              (* no Def/Def-expand/Definition inside *)
  Forall (fun t => has_ur (tbase t) = false) tags /\                 (* no unique/required tag inside *)
  Forall (fun t => hashes t <= 1) tags /\                            (* no tag with two '#' *)
  (def_takes dt = true ->                                            (* name ends in "/#": exactly one *)
     exists p, filter (fun t => 1 <=? hashes t) tags = [p] /\        (*   '#', on a value-taking tag *)
               takes_value (tbase p) = true) /\
  (def_takes dt = false ->                                           (* otherwise: not exactly one *)
     length (filter (fun t => 1 <=? hashes t) tags) <> 1) /\
  mem_key (lower (def_name dt)) D = false.                           (* not a duplicate *)

Lemma validate_contents_nil grp :
  validate_contents grp = [] <->
  Forall (fun t => is_defish (tbase t) = false) (group_tags grp) /\
  Forall (fun t => has_ur (tbase t) = false) (group_tags grp).
Proof.
  unfold validate_contents. split.
  - intro H. apply app_eq_nil in H as [H1 H2].
    apply map_eq_nil in H1. apply map_eq_nil in H2.
    split; apply filter_nil_iff; assumption.
  - intros [H1 H2].
    apply (filter_nil_iff (fun t => is_defish (tbase t))) in H1.
    apply (filter_nil_iff (fun t => has_ur (tbase t))) in H2.
    rewrite H1, H2. reflexivity.
Qed.

Lemma validate_placeholders_nil grp takes :
  validate_placeholders grp takes = [] <->
  Forall (fun t => hashes t <= 1) (group_tags grp) /\
  (takes = true -> exists p, filter (fun t => 1 <=? hashes t) (group_tags grp) = [p] /\
                             takes_value (tbase p) = true) /\
  (takes = false -> length (filter (fun t => 1 <=? hashes t) (group_tags grp)) <> 1).
Proof.
  unfold validate_placeholders.
  set (tags := group_tags grp).
  set (ph := filter (fun t => 1 <=? hashes t) tags).
  assert (Hbad : filter (fun t => 2 <=? hashes t) tags = [] <-> Forall (fun t => hashes t <= 1) tags).
  { rewrite filter_nil_iff. split; intro H; eapply Forall_impl; try exact H; cbn beta; intros a Ha.
    - apply Nat.leb_gt in Ha. lia.
    - apply Nat.leb_gt. lia. }
  destruct (filter (fun t => 2 <=? hashes t) tags) as [|b bs] eqn:Eb; cbn [is_nil].
  - assert (Hb : Forall (fun t => hashes t <= 1) tags) by (apply Hbad; reflexivity).
    destruct (length ph =? 1) eqn:E1; destruct takes; cbn [Bool.eqb negb app].
    + apply Nat.eqb_eq in E1.
      destruct ph as [|p [|q r]] eqn:Ep; cbn in E1; try discriminate.
      destruct (takes_value (tbase p)) eqn:Etv.
      * split; [intros _|reflexivity]. split; [assumption|]. split; [|discriminate].
        intros _. exists p. split; [reflexivity | assumption].
      * split; [discriminate|]. intros (_ & H2 & _). destruct (H2 eq_refl) as (p' & Hp & Ht).
        inversion Hp; subst. congruence.
    + split; [discriminate|]. intros (_ & _ & H3). apply Nat.eqb_eq in E1. exfalso. apply (H3 eq_refl). exact E1.
    + split; [discriminate|]. intros (_ & H2 & _). destruct (H2 eq_refl) as (p & Hp & _).
      rewrite Hp in E1. discriminate.
    + split; [intros _|reflexivity]. split; [assumption|]. split; [discriminate|].
      intros _. apply Nat.eqb_neq in E1. exact E1.
  - split.
    + intro H. exfalso.
      destruct (negb (Bool.eqb (length ph =? 1) takes)); [discriminate|].
      destruct takes; [|discriminate].
      destruct ph as [|p r]; [discriminate|]. destruct (takes_value (tbase p)); discriminate.
    + intros (H1 & _). apply Hbad in H1. discriminate.
Qed.

Lemma acceptb_iff D dt g : acceptb D dt g = true <-> acceptable D dt g.
Proof.
  unfold acceptb, acceptable. cbv zeta.
  rewrite !andb_true_iff, !negb_true_iff, !is_nil_true.
  rewrite validate_contents_nil, validate_placeholders_nil.
  rewrite Nat.ltb_ge, Nat.eqb_eq, orb_false_iff, andb_false_iff, Nat.eqb_neq.
  split.
  - intros ((((((H1 & H2) & H3) & H4 & H5) & H6 & H7) & H8 & H9 & H10) & H11).
    repeat split; try assumption.
    intro Hz. destruct H2 as [H2|H2]; [congruence | assumption].
  - intros (H1 & H2 & H3 & H4 & H5 & H6 & H7 & H8 & H9 & H10 & H11).
    repeat split; try assumption.
    destruct (Nat.eq_dec (length (direct_groups g)) 0) as [Hz|Hz]; [right; auto | left; assumption].
Qed.

(* accept_iff *)
Lemma accept_iff D dt g :
  (acceptable D dt g <-> check_one D dt g = (new_dict D dt g, [])) /\
  (~ acceptable D dt g -> fst (check_one D dt g) = D /\ snd (check_one D dt g) <> []).
Proof.
  rewrite <- acceptb_iff.
  destruct (check_one_spec D dt g) as [[Ha Hc] | [Ha [H1 H2]]].
  - split; [split; auto|]. intro H. congruence.
  - split.
    + split; [congruence|]. intro Hc. rewrite Hc in H2. cbn in H2. congruence.
    + intros _. split; assumption.
Qed.

(* the literal "iff" of the statement follows from acceptance *)
Lemma accept_placeholder_iff D dt g :
  acceptable D dt g ->
  (def_takes dt = true <->
   exists p, filter (fun t => 1 <=? hashes t) (group_tags (content_group g)) = [p] /\
             hashes p = 1 /\ takes_value (tbase p) = true).
Proof.
  intros (_ & _ & _ & _ & _ & _ & _ & H8 & H9 & H10 & _). split.
  - intro Ht. destruct (H9 Ht) as (p & Hp & Htv). exists p. split; [assumption|]. split; [|assumption].
    assert (Hin : In p (filter (fun t => 1 <=? hashes t) (group_tags (content_group g)))) by (rewrite Hp; left; reflexivity).
    apply filter_In in Hin as [Hin Hge]. apply Nat.leb_le in Hge.
    rewrite Forall_forall in H8. specialize (H8 p Hin). lia.
  - intros (p & Hp & _). destruct (def_takes dt) eqn:E; [reflexivity|].
    exfalso. apply (H10 eq_refl). rewrite Hp. reflexivity.
Qed.

(* duplicate_ignored *)
Lemma duplicate_ignored D dt g :
  mem_key (lower (def_name dt)) D = true ->
  fst (check_one D dt g) = D /\ snd (check_one D dt g) <> [].
Proof.
  intro Hm. apply (proj2 (accept_iff D dt g)).
  intros (_ & _ & _ & _ & _ & _ & _ & _ & _ & _ & H). congruence.
Qed.

(* the dictionary only ever grows at the end: stored entries are never overwritten *)
Lemma check_one_prefix D dt g : exists l, fst (check_one D dt g) = D ++ l.
Proof.
  destruct (check_one_spec D dt g) as [[_ Hc] | [_ [H1 _]]].
  - rewrite Hc. cbn. unfold new_dict. eexists; reflexivity.
  - exists []. rewrite app_nil_r. assumption.
Qed.

(* ------------------------------------------------------------------ tags of a node, predicates *)

Definition tags_all (p : tag -> bool) (n : node) : bool := forallb p (all_tags n).
Definition no_def (t : tag) : bool := negb (is_def (tbase t)).
Definition no_de (t : tag) : bool := negb (is_defexpand (tbase t)).
Definition no_defish (t : tag) : bool := negb (is_defish (tbase t)).

Lemma forallb_flat_map {A B} (p : B -> bool) (f : A -> list B) (l : list A) :
  forallb p (flat_map f l) = forallb (fun x => forallb p (f x)) l.
Proof. induction l as [|x l IH]; simpl; [reflexivity|]. rewrite forallb_app, IH. reflexivity. Qed.

Lemma existsb_flat_map {A B} (p : B -> bool) (f : A -> list B) (l : list A) :
  existsb p (flat_map f l) = existsb (fun x => existsb p (f x)) l.
Proof. induction l as [|x l IH]; simpl; [reflexivity|]. rewrite existsb_app, IH. reflexivity. Qed.

Lemma no_defish_no_def t : no_defish t = true -> no_def t = true.
Proof. unfold no_defish, no_def, is_defish. destruct (tbase t); simpl; auto. Qed.
Lemma no_defish_no_de t : no_defish t = true -> no_de t = true.
Proof. unfold no_defish, no_de, is_defish. destruct (tbase t); simpl; auto. Qed.

(* ------------------------------------------------------------------ substitution *)

Lemma subst_node_G v d ch :
  subst_node v d (G ch) = let '(d', ch') := subst_list v d ch in (d', G ch').
Proof.
  cbn [subst_node].
  assert (H : forall l d0,
    (fix go (done : bool) (l : list node) {struct l} : bool * list node :=
       match l with
       | [] => (done, [])
       | x :: l' => let '(d1, x') := subst_node v done x in
                    let '(d2, l'') := go d1 l' in (d2, x' :: l'')
       end) d0 l = subst_list v d0 l).
  { induction l as [|x l IH]; intro d0; cbn; [reflexivity|].
    destruct (subst_node v d0 x) as [d1 x']. rewrite IH. reflexivity. }
  rewrite H. reflexivity.
Qed.

(* substitution keeps the bases of all tags (it only rewrites one extension) *)
Lemma subst_node_bases v n : forall d,
  map tbase (all_tags (snd (subst_node v d n))) = map tbase (all_tags n).
Proof.
  induction n as [t | ch IH] using node_ind2; intro d.
  - cbn [subst_node]. destruct d; [reflexivity|]. destruct (is_placeholder t); reflexivity.
  - rewrite subst_node_G.
    assert (H : forall d0, map tbase (all_tags_f (snd (subst_list v d0 ch))) = map tbase (all_tags_f ch)).
    { induction IH as [|x l Hx Hl IHl]; intro d0; cbn; [reflexivity|].
      specialize (Hx d0). destruct (subst_node v d0 x) as [d1 x']. cbn in Hx.
      specialize (IHl d1). destruct (subst_list v d1 l) as [d2 l'']. cbn in IHl. cbn.
      unfold all_tags_f in *. cbn. rewrite !map_app, Hx, IHl. reflexivity. }
    specialize (H d). destruct (subst_list v d ch) as [d' ch']. cbn in *. exact H.
Qed.

Lemma subst_list_bases v l : forall d,
  map tbase (all_tags_f (snd (subst_list v d l))) = map tbase (all_tags_f l).
Proof.
  induction l as [|x l IH]; intro d; cbn; [reflexivity|].
  pose proof (subst_node_bases v x d) as Hx. destruct (subst_node v d x) as [d1 x']. cbn in Hx.
  specialize (IH d1). destruct (subst_list v d1 l) as [d2 l'']. cbn in *.
  unfold all_tags_f in *. cbn. rewrite !map_app, Hx, IH. reflexivity.
Qed.

Lemma forallb_bases (q : base -> bool) (l1 l2 : list tag) :
  map tbase l1 = map tbase l2 ->
  forallb (fun t => q (tbase t)) l1 = forallb (fun t => q (tbase t)) l2.
Proof.
  revert l2; induction l1 as [|x l1 IH]; destruct l2 as [|y l2]; cbn; intro H; try discriminate; [reflexivity|].
  inversion H. rewrite H1. f_equal. apply IH. assumption.
Qed.

(* done-flag of the substitution = "a placeholder tag exists" *)
Lemma subst_node_done v n : forall d,
  fst (subst_node v d n) = d || existsb is_placeholder (all_tags n).
Proof.
  induction n as [t | ch IH] using node_ind2; intro d.
  - cbn [subst_node all_tags existsb]. destruct d; [reflexivity|]. destruct (is_placeholder t); reflexivity.
  - rewrite subst_node_G.
    assert (H : forall d0, fst (subst_list v d0 ch) = d0 || existsb is_placeholder (all_tags_f ch)).
    { induction IH as [|x l Hx Hl IHl]; intro d0; cbn; [rewrite orb_false_r; reflexivity|].
      specialize (Hx d0). destruct (subst_node v d0 x) as [d1 x']. cbn in Hx.
      specialize (IHl d1). destruct (subst_list v d1 l) as [d2 l'']. cbn in *.
      unfold all_tags_f in *. cbn. rewrite existsb_app, IHl, Hx. rewrite orb_assoc. reflexivity. }
    specialize (H d). destruct (subst_list v d ch) as [d' ch']. cbn in *. exact H.
Qed.

Lemma subst_list_done v l : forall d,
  fst (subst_list v d l) = d || existsb is_placeholder (all_tags_f l).
Proof.
  induction l as [|x l IH]; intro d; cbn; [rewrite orb_false_r; reflexivity|].
  pose proof (subst_node_done v x d) as Hx. destruct (subst_node v d x) as [d1 x']. cbn in Hx.
  specialize (IH d1). destruct (subst_list v d1 l) as [d2 l'']. cbn in *.
  unfold all_tags_f in *. cbn. rewrite existsb_app, IH, Hx, orb_assoc. reflexivity.
Qed.

(* ------------------------------------------------------------------ get_definition *)

(* the result depends on the tag only through its first element *)
Lemma get_definition_shape e ph :
  (exists x, forall t', get_definition e t' ph = Exn x) \/
  (forall t', get_definition e t' ph = Ok None) \/
  (exists c, (c = [] \/ exists c', c = [G c']) /\
             (forall t', get_definition e t' ph = Ok (Some (T t' :: c))) /\
             (forall q, q (BOther [] false false) = true ->
                match econtents e with
                | Some c0 => forallb (fun t => q (tbase t)) (all_tags_f c0) = true
                | None => True
                end -> forallb (fun t => q (tbase t)) (all_tags_f c) = true)).
Proof.
  unfold get_definition.
  destruct (Bool.eqb (etakes e) (is_nil ph)); [right; left; reflexivity|].
  destruct (econtents e) as [[|c0 c]|] eqn:Ec.
  - right; right. exists []. split; [left; reflexivity|]. split; [reflexivity|]. intros; reflexivity.
  - destruct (is_nil ph).
    + right; right. exists [G (c0 :: c)]. split; [right; eexists; reflexivity|]. split; [reflexivity|].
      intros q _ H. unfold all_tags_f in *. cbn [flat_map all_tags]. rewrite app_nil_r. exact H.
    + pose proof (subst_list_bases ph (c0 :: c) false) as Hb.
      destruct (subst_list ph false (c0 :: c)) as [d c'] eqn:Es. cbn [snd] in Hb.
      destruct d.
      * right; right. exists [G c']. split; [right; eexists; reflexivity|]. split; [reflexivity|].
        intros q _ H. unfold all_tags_f at 1. cbn [flat_map all_tags]. rewrite app_nil_r.
        fold (all_tags_f c'). rewrite (forallb_bases q _ _ Hb). exact H.
      * left. exists ValueError. reflexivity.
  - right; right. exists []. split; [left; reflexivity|]. split; [reflexivity|]. intros; reflexivity.
Qed.

(* ------------------------------------------------------------------ well-formed dictionaries *)

Lemma wf_lookup D k e : wf_dict D = true -> lookup k D = Some e -> wf_entry e = true.
Proof.
  induction D as [|[k' e'] D IH]; cbn; [discriminate|].
  intros H Hl. apply andb_true_iff in H as [H1 H2].
  destruct (str_eqb k k'); [inversion Hl; subst; exact H1 | auto].
Qed.

(* a well-formed entry never raises the internal ValueError *)
Lemma wf_no_exn e t ph x : wf_entry e = true -> get_definition e t ph <> Exn x.
Proof.
  unfold wf_entry, get_definition. intro Hw.
  destruct (Bool.eqb (etakes e) (is_nil ph)) eqn:E1; [discriminate|].
  destruct (econtents e) as [[|c0 c]|]; try discriminate.
  destruct (is_nil ph) eqn:E2; [discriminate|].
  pose proof (subst_list_done ph (c0 :: c) false) as Hd.
  destruct (subst_list ph false (c0 :: c)) as [d c']. cbn [fst] in Hd.
  apply andb_true_iff in Hw as [_ Hw].
  destruct (etakes e); [|discriminate].
  unfold has_placeholder in Hw. rewrite Hw in Hd. cbn in Hd. subst d. discriminate.
Qed.

(* what a Def tag expands to: Def-expand tag first, then [] or one group without definition tags *)
Lemma expansion_shape D t ch :
  wf_dict D = true -> expansion D t = Some ch ->
  exists c, ch = T (set_base t BDefExpand) :: c /\ (c = [] \/ exists c', c = [G c']) /\
            forallb no_defish (all_tags_f c) = true.
Proof.
  unfold expansion, def_entry. intros Hw H.
  destruct (lookup (lower (fst (partition_slash (text t)))) D) as [e|] eqn:El; [|discriminate].
  pose proof (wf_lookup _ _ _ Hw El) as He.
  destruct (get_definition_shape e (def_placeholder t)) as [[x Hx] | [Hn | (c & Hc & Hs & Hq)]].
  - rewrite Hx in H. discriminate.
  - rewrite Hn in H. discriminate.
  - rewrite Hs in H. inversion H; subst. exists c. split; [reflexivity|]. split; [assumption|].
    apply (Hq (fun b => negb (is_defish b))); [reflexivity|].
    unfold wf_entry in He. destruct (econtents e); [|exact I].
    apply andb_true_iff in He as [He _]. exact He.
Qed.

(* ------------------------------------------------------------------ expansion: only Def tags change *)

(* the relation "f' is f with some Def tags replaced by their expansion and nothing else" *)
Inductive exp_rel (D : dict) : node -> node -> Prop :=
| ER_other t : is_def (tbase t) = false -> exp_rel D (T t) (T t)
| ER_unmatched t : is_def (tbase t) = true -> expansion D t = None -> exp_rel D (T t) (T t)
| ER_def t ch : is_def (tbase t) = true -> expansion D t = Some ch -> exp_rel D (T t) (G ch)
| ER_group ch ch' : Forall2 (exp_rel D) ch ch' -> exp_rel D (G ch) (G ch').

Lemma expand_only_defs D f : Forall2 (exp_rel D) f (expand_t D f).
Proof.
  assert (H : forall n, exp_rel D n (expand_node D n)).
  { induction n as [t | ch IH] using node_ind2; cbn [expand_node].
    - destruct (is_def (tbase t)) eqn:E; [|constructor; assumption].
      destruct (expansion D t) eqn:Ex; [apply ER_def | apply ER_unmatched]; assumption.
    - apply ER_group. induction IH; cbn; constructor; assumption. }
  unfold expand_t. induction f; cbn; constructor; auto.
Qed.

(* ------------------------------------------------------------------ idempotence *)

Lemma expand_node_id D n : tags_all no_def n = true -> expand_node D n = n.
Proof.
  unfold tags_all.
  induction n as [t | ch IH] using node_ind2; cbn [expand_node all_tags].
  - cbn. unfold no_def. destruct (is_def (tbase t)); cbn; [discriminate | reflexivity].
  - intro H. f_equal. rewrite forallb_flat_map in H.
    induction IH as [|x l Hx Hl IHl]; cbn in *; [reflexivity|].
    apply andb_true_iff in H as [H1 H2]. rewrite Hx, IHl; auto.
Qed.

Lemma expand_list_id D l : forallb no_def (all_tags_f l) = true -> map (expand_node D) l = l.
Proof.
  unfold all_tags_f. rewrite forallb_flat_map.
  induction l as [|x l IH]; cbn; [reflexivity|]. intro H. apply andb_true_iff in H as [H1 H2].
  rewrite expand_node_id, IH; auto.
Qed.

Lemma forallb_impl {A} (p q : A -> bool) l :
  (forall x, p x = true -> q x = true) -> forallb p l = true -> forallb q l = true.
Proof. intros H. induction l; cbn; [auto|]. rewrite !andb_true_iff. intros [H1 H2]. auto. Qed.

Lemma expand_node_idem D n : wf_dict D = true -> expand_node D (expand_node D n) = expand_node D n.
Proof.
  intro Hw. induction n as [t | ch IH] using node_ind2; cbn [expand_node].
  - destruct (is_def (tbase t)) eqn:E.
    + destruct (expansion D t) as [c|] eqn:Ex.
      * destruct (expansion_shape D t c Hw Ex) as (c1 & -> & _ & Hc).
        cbn [expand_node map]. cbn [set_base tbase is_def]. f_equal. f_equal.
        apply expand_list_id. eapply forallb_impl; [|exact Hc]. apply no_defish_no_def.
      * cbn [expand_node]. rewrite E, Ex. reflexivity.
    + cbn [expand_node]. rewrite E. reflexivity.
  - f_equal. induction IH as [|x l Hx Hl IHl]; cbn; [reflexivity|]. rewrite Hx, IHl. reflexivity.
Qed.

Lemma expand_idem_t D f : wf_dict D = true -> expand_t D (expand_t D f) = expand_t D f.
Proof.
  intro Hw. unfold expand_t. induction f as [|x f IH]; cbn; [reflexivity|].
  rewrite expand_node_idem, IH; auto.
Qed.

(* ------------------------------------------------------------------ round trip *)

Lemma de_tags_nil ch : forallb no_de (direct_tags ch) = true -> de_tags ch = [].
Proof.
  unfold de_tags. intro H. apply filter_nil_iff. rewrite forallb_forall in H.
  apply Forall_forall. intros x Hx. specialize (H x Hx). unfold no_de in H.
  destruct (is_defexpand (tbase x)); [discriminate | reflexivity].
Qed.

Lemma direct_tags_groups c : (c = [] \/ exists c', c = [G c']) -> direct_tags c = [].
Proof. intros [-> | [c' ->]]; reflexivity. Qed.

Lemma multi_de_false n : tags_all no_de n = true -> multi_de n = false.
Proof.
  unfold tags_all.
  induction n as [t | ch IH] using node_ind2; cbn [multi_de all_tags]; [reflexivity|].
  intro H. rewrite forallb_flat_map in H.
  assert (Hd : de_tags ch = []).
  { apply de_tags_nil. unfold direct_tags. rewrite forallb_flat_map.
    clear IH. induction ch as [|x l IHl]; cbn in *; [reflexivity|].
    apply andb_true_iff in H as [H1 H2]. rewrite IHl by assumption.
    destruct x; cbn in *; [|reflexivity]. rewrite H1. reflexivity. }
  rewrite Hd. cbn.
  induction IH as [|x l Hx Hl IHl]; cbn in *; [reflexivity|].
  apply andb_true_iff in H as [H1 H2]. rewrite Hx, IHl; auto.
  apply de_tags_nil. unfold direct_tags. rewrite forallb_flat_map.
  clear - H2. induction l as [|y l IHl]; cbn in *; [reflexivity|].
  apply andb_true_iff in H2 as [H1 H2]. rewrite IHl by assumption.
  destruct y; cbn in *; [|reflexivity]. rewrite H1. reflexivity.
Qed.

Lemma multi_de_list_false l : forallb no_de (all_tags_f l) = true -> existsb multi_de l = false.
Proof.
  unfold all_tags_f. rewrite forallb_flat_map.
  induction l as [|x l IH]; cbn; [reflexivity|]. intro H. apply andb_true_iff in H as [H1 H2].
  rewrite multi_de_false, IH; auto.
Qed.

Lemma direct_tags_expand D ch :
  forallb no_de (direct_tags ch) = true ->
  forallb no_de (direct_tags (map (expand_node D) ch)) = true.
Proof.
  induction ch as [|x l IH]; cbn; [reflexivity|].
  destruct x as [t|c]; cbn [expand_node].
  - cbn. intro H. apply andb_true_iff in H as [H1 H2].
    destruct (is_def (tbase t)); [destruct (expansion D t)|]; cbn; rewrite ?H1; auto.
  - cbn. auto.
Qed.

Lemma all_direct ch : forallb no_de (flat_map all_tags ch) = true -> forallb no_de (direct_tags ch) = true.
Proof.
  induction ch as [|x l IH]; cbn; [reflexivity|]. rewrite forallb_app. intro H.
  apply andb_true_iff in H as [H1 H2]. destruct x as [t|c]; cbn in *.
  - rewrite andb_true_r in H1. rewrite H1. auto.
  - auto.
Qed.

Lemma shrink_expand_node D n :
  wf_dict D = true -> tags_all no_de n = true ->
  shrink_node (expand_node D n) = n /\ multi_de (expand_node D n) = false.
Proof.
  intro Hw. unfold tags_all.
  induction n as [t | ch IH] using node_ind2; cbn [expand_node all_tags]; intro Hn.
  - destruct (is_def (tbase t)) eqn:E; [|split; reflexivity].
    destruct (expansion D t) as [c|] eqn:Ex; [|split; reflexivity].
    destruct (expansion_shape D t c Hw Ex) as (c1 & -> & Hs & Hc).
    assert (Hde : de_tags (T (set_base t BDefExpand) :: c1) = [set_base t BDefExpand]).
    { unfold de_tags. cbn [direct_tags flat_map app]. fold (direct_tags c1).
      rewrite (direct_tags_groups c1 Hs). reflexivity. }
    split.
    + cbn [shrink_node]. rewrite Hde. f_equal. apply set_base_back.
      destruct (tbase t); cbn in E; congruence.
    + cbn [multi_de]. rewrite Hde. cbn [length Nat.leb orb existsb multi_de].
      apply multi_de_list_false. eapply forallb_impl; [|exact Hc]. apply no_defish_no_de.
  - assert (Hd : de_tags (map (expand_node D) ch) = []).
    { apply de_tags_nil. apply direct_tags_expand. apply all_direct. exact Hn. }
    rewrite forallb_flat_map in Hn.
    cbn [shrink_node multi_de]. rewrite Hd. cbn [length Nat.leb orb].
    assert (H : map shrink_node (map (expand_node D) ch) = ch /\
                existsb multi_de (map (expand_node D) ch) = false).
    { clear Hd. induction IH as [|x l Hx Hl IHl]; cbn in *; [split; reflexivity|].
      apply andb_true_iff in Hn as [H1 H2].
      destruct (Hx H1) as [Ha Hb]. destruct (IHl H2) as [Hc Hdd].
      rewrite Ha, Hb, Hc, Hdd. split; reflexivity. }
    destruct H as [H1 H2]. rewrite H1, H2. split; reflexivity.
Qed.

Lemma shrink_expand_t D f :
  wf_dict D = true -> forallb no_de (all_tags_f f) = true ->
  shrink_t (expand_t D f) = Ok f.
Proof.
  intros Hw Hn. unfold shrink_t, expand_t, shrink_pure.
  unfold all_tags_f in Hn. rewrite forallb_flat_map in Hn.
  assert (H : map shrink_node (map (expand_node D) f) = f /\
              existsb multi_de (map (expand_node D) f) = false).
  { induction f as [|x l IH]; cbn in *; [split; reflexivity|].
    apply andb_true_iff in Hn as [H1 H2].
    destruct (shrink_expand_node D x Hw H1) as [Ha Hb]. destruct (IH H2) as [Hc Hd].
    rewrite Ha, Hb, Hc, Hd. split; reflexivity. }
  destruct H as [H1 H2]. rewrite H2, H1. reflexivity.
Qed.

(* ------------------------------------------------------------------ Def-expand validation *)

Lemma tag_eq_refl t : tag_eq t t = true.
Proof. unfold tag_eq. apply str_eqb_refl. Qed.

Lemma node_eq_refl n : node_eq n n = true.
Proof.
  induction n as [t | ch IH] using node_ind2; cbn [node_eq]; [apply tag_eq_refl|].
  induction IH as [|x l Hx Hl IHl]; [reflexivity|]. rewrite Hx, IHl. reflexivity.
Qed.

Lemma nodes_eq_refl l : nodes_eq l l = true.
Proof. induction l as [|x l IH]; cbn; [reflexivity|]. rewrite node_eq_refl, IH. reflexivity. Qed.

(* record (fs = false, behaviour before fix commit cbb8087): exact characterisation of what
   the ordered comparison accepted: ordered HedTag/HedGroup
   equality with the stored (sorted) expansion, tag first *)
Lemma defexpand_valid_partial D t g :
  defexpand_accepted false D t g = true <->
  exists e ch, def_entry D t = Some e /\
               get_definition e t (def_placeholder t) = Ok (Some ch) /\
               nodes_eq g ch = true.
Proof.
  unfold defexpand_accepted, validate_def_contents. split.
  - destruct (def_entry D t) as [e|] eqn:Ee; [|discriminate].
    destruct (get_definition e t (def_placeholder t)) as [[ch|]|x] eqn:Eg; try discriminate.
    destruct (nodes_eq g ch) eqn:E; [|discriminate]. intros _. exists e, ch. auto.
  - intros (e & ch & -> & -> & ->). reflexivity.
Qed.

(* the stored-order spelling is always accepted *)
Lemma defexpand_stored_order_accepted D t e ch :
  def_entry D t = Some e -> get_definition e t (def_placeholder t) = Ok (Some ch) ->
  defexpand_accepted false D t ch = true.
Proof.
  intros H1 H2. apply defexpand_valid_partial. exists e, ch. repeat split; auto. apply nodes_eq_refl.
Qed.

(* ------------------------------------------------------------------ sorting is a permutation *)

Lemma insert_by_perm key x l : Permutation (x :: l) (insert_by key x l).
Proof.
  induction l as [|y l IH]; cbn; [reflexivity|].
  destruct (str_leb (key x) (key y)); [reflexivity|].
  rewrite perm_swap. constructor. exact IH.
Qed.

Lemma sort_by_perm key l : Permutation l (sort_by key l).
Proof.
  induction l as [|x l IH]; cbn; [reflexivity|].
  rewrite <- insert_by_perm. constructor. exact IH.
Qed.

Lemma sort2_perm l : Permutation l (sort2 l).
Proof. unfold sort2. rewrite <- !sort_by_perm. reflexivity. Qed.

Lemma filter_split_perm {A} (p : A -> bool) l :
  Permutation l (filter p l ++ filter (fun x => negb (p x)) l).
Proof.
  induction l as [|x l IH]; cbn; [reflexivity|].
  destruct (p x); cbn.
  - constructor. exact IH.
  - rewrite <- Permutation_middle. constructor. exact IH.
Qed.

Lemma sort_children_perm ch : Permutation ch (sort_children ch).
Proof.
  unfold sort_children. rewrite <- !sort2_perm. apply filter_split_perm.
Qed.

Lemma flat_map_perm {A B} (f : A -> list B) l1 l2 :
  Permutation l1 l2 -> Permutation (flat_map f l1) (flat_map f l2).
Proof.
  induction 1; cbn.
  - reflexivity.
  - apply Permutation_app_head. assumption.
  - rewrite !app_assoc. apply Permutation_app_tail. apply Permutation_app_comm.
  - etransitivity; eassumption.
Qed.

(* sorting keeps the multiset of tags of a node *)
Lemma sort_node_tags n : Permutation (all_tags n) (all_tags (sort_node n)).
Proof.
  induction n as [t | ch IH] using node_ind2; cbn [sort_node all_tags]; [reflexivity|].
  rewrite <- (flat_map_perm all_tags _ _ (sort_children_perm (map sort_node ch))).
  induction IH as [|x l Hx Hl IHl]; cbn; [reflexivity|].
  apply Permutation_app; assumption.
Qed.

Lemma sorted_children_tags c : Permutation (all_tags_f c) (all_tags_f (sorted_children c)).
Proof.
  unfold sorted_children, all_tags_f.
  rewrite <- (flat_map_perm all_tags _ _ (sort_children_perm (map sort_node c))).
  induction c as [|x l IH]; cbn; [reflexivity|].
  apply Permutation_app; [apply sort_node_tags | exact IH].
Qed.

Lemma forallb_perm {A} (p : A -> bool) l1 l2 : Permutation l1 l2 -> forallb p l1 = forallb p l2.
Proof.
  induction 1; cbn; try congruence.
  - rewrite !andb_assoc. f_equal. apply andb_comm.
Qed.

Lemma existsb_perm {A} (p : A -> bool) l1 l2 : Permutation l1 l2 -> existsb p l1 = existsb p l2.
Proof.
  induction 1; cbn; try congruence.
  - rewrite !orb_assoc. f_equal. apply orb_comm.
Qed.

(* ------------------------------------------------------------------ acceptance keeps the dictionary well formed *)

Lemma hashes_placeholder p :
  contains ch_hash (tag_head p) = false -> 1 <= hashes p -> is_placeholder p = true.
Proof.
  unfold hashes, is_placeholder, short_tag, contains. intros Hb Hh.
  assert (Hc : forall s, 1 <= count ch_hash s -> existsb (N.eqb ch_hash) s = true).
  { induction s as [|c s IH]; cbn [count existsb]; [lia|]. rewrite (N.eqb_sym ch_hash c).
    destruct (N.eqb c ch_hash); cbn [orb]; [reflexivity|]. cbn [Nat.add]. exact IH. }
  destruct (text p) as [|c s] eqn:Et.
  - apply Hc in Hh. congruence.
  - rewrite count_app in Hh.
    assert (count ch_hash (tag_head p) = 0).
    { destruct (count ch_hash (tag_head p)) eqn:E0; [reflexivity|].
      assert (1 <= count ch_hash (tag_head p)) by lia. apply Hc in H. congruence. }
    cbn [count] in Hh. change (N.eqb ch_slash ch_hash) with false in Hh. cbn in Hh.
    rewrite (Hc (c :: s)); [apply orb_true_r | cbn [count]; lia].
Qed.

(* schema short names and namespaces hold no '#': side condition on the content tags *)
Definition clean_names (l : list tag) : Prop :=
  Forall (fun t => contains ch_hash (tag_head t) = false) l.

Lemma check_one_wf D dt g :
  clean_names (group_tags (content_group g)) ->
  wf_dict D = true -> wf_dict (fst (check_one D dt g)) = true.
Proof.
  intros Hcl Hw.
  destruct (check_one_spec D dt g) as [[Ha Hc] | [_ [H1 _]]]; [|rewrite H1; exact Hw].
  rewrite Hc. cbn [fst]. unfold new_dict, wf_dict. rewrite forallb_app. fold (wf_dict D). rewrite Hw.
  cbn [forallb snd andb]. rewrite andb_true_r.
  apply acceptb_iff in Ha. destruct Ha as (_ & _ & _ & _ & _ & H6 & _ & H8 & H9 & _ & _).
  unfold wf_entry, mk_entry. cbn [econtents etakes].
  destruct (content_group g) as [c|] eqn:Ec; cbn [option_map group_tags] in *.
  - fold (sorted_children c).
    rewrite <- (forallb_perm _ _ _ (sorted_children_tags c)).
    apply andb_true_iff. split.
    + apply forallb_forall. intros x Hx. rewrite Forall_forall in H6. specialize (H6 x Hx).
      unfold no_defish. rewrite H6. reflexivity.
    + destruct (def_takes dt) eqn:Et; [|reflexivity].
      destruct (H9 eq_refl) as (p & Hp & _).
      unfold has_placeholder. rewrite <- (existsb_perm _ _ _ (sorted_children_tags c)).
      apply existsb_exists. exists p.
      assert (Hin : In p (filter (fun t => 1 <=? hashes t) (all_tags_f c))) by (rewrite Hp; left; reflexivity).
      apply filter_In in Hin as [Hin Hge]. split; [assumption|].
      apply hashes_placeholder; [|apply Nat.leb_le; assumption].
      unfold clean_names in Hcl. rewrite Forall_forall in Hcl. apply Hcl. assumption.
  - destruct (def_takes dt) eqn:Et; [|reflexivity].
    destruct (H9 eq_refl) as (p & Hp & _). cbn in Hp. discriminate.
Qed.

(* ------------------------------------------------------------------ equality up to sibling order *)

(* same tags (HedTag.__eq__) and, at every level, the same members in any order *)
Inductive nsim : node -> node -> Prop :=
| NS_T a b : tag_eq a b = true -> nsim (T a) (T b)
| NS_G l1 l2 l2' : Forall2 nsim l1 l2' -> Permutation l2' l2 -> nsim (G l1) (G l2).

Definition lsim (l1 l2 : list node) : Prop :=
  exists l2', Forall2 nsim l1 l2' /\ Permutation l2' l2.

Lemma tag_eq_sym a b : tag_eq a b = true -> tag_eq b a = true.
Proof. unfold tag_eq. rewrite !str_eqb_spec. auto. Qed.

Lemma tag_eq_trans a b c : tag_eq a b = true -> tag_eq b c = true -> tag_eq a c = true.
Proof. unfold tag_eq. rewrite !str_eqb_spec. congruence. Qed.

Lemma Forall2_perm_l {A B} (R : A -> B -> Prop) l1 l1' :
  Permutation l1 l1' -> forall l2, Forall2 R l1 l2 ->
  exists l2', Permutation l2 l2' /\ Forall2 R l1' l2'.
Proof.
  induction 1 as [| x l1 l1' Hp IH | x y l1 | l1 l1' l1'' Hp1 IH1 Hp2 IH2]; intros l2 HF.
  - inversion HF; subst. exists []. split; constructor.
  - inversion HF as [|? y ? l2t Hxy Ht]; subst. destruct (IH _ Ht) as (l2' & Hp' & HF').
    exists (y :: l2'). split; [constructor; assumption | constructor; assumption].
  - inversion HF as [|? a ? l2t Hya Ht]; subst. inversion Ht as [|? b ? l2u Hxb Hu]; subst.
    exists (b :: a :: l2u). split; [apply perm_swap | repeat constructor; assumption].
  - destruct (IH1 _ HF) as (l2' & Hp' & HF'). destruct (IH2 _ HF') as (l2'' & Hp'' & HF'').
    exists l2''. split; [etransitivity; eassumption | assumption].
Qed.

Lemma Forall2_flip {A B} (R : A -> B -> Prop) l1 l2 :
  Forall2 R l1 l2 -> Forall2 (fun b a => R a b) l2 l1.
Proof. induction 1; constructor; assumption. Qed.

Lemma nsim_sym a : forall b, nsim a b -> nsim b a.
Proof.
  induction a as [t | ch IH] using node_ind2; intros b H; inversion H as [? b0 Ht | ? l2 l2' HF Hp]; subst.
  - constructor. apply tag_eq_sym. assumption.
  - assert (HF' : Forall2 nsim l2' ch).
    { clear H Hp. revert l2' HF. induction IH as [|x l Hx Hl IHl]; intros l2' HF; inversion HF; subst; constructor; auto. }
    destruct (Forall2_perm_l nsim l2' l2 Hp ch HF') as (l1'' & Hp1 & HF1).
    apply NS_G with (l2' := l1''); [assumption | symmetry; assumption].
Qed.

Lemma nsim_trans a : forall b c, nsim a b -> nsim b c -> nsim a c.
Proof.
  induction a as [t | ch IH] using node_ind2; intros b c H1 H2;
    inversion H1 as [? b0 Ht1 | ? l2 l2' HF1 Hp1]; subst;
    inversion H2 as [? c0 Ht2 | ? l3 l3' HF2 Hp2]; subst.
  - constructor. eapply tag_eq_trans; eassumption.
  - destruct (Forall2_perm_l nsim l2 l2' (Permutation_sym Hp1) l3' HF2) as (l3'' & Hp3 & HF3).
    assert (HF : Forall2 nsim ch l3'').
    { clear H1 H2 Hp1 Hp2 HF2 Hp3. revert l2' l3'' HF1 HF3.
      induction IH as [|x l Hx Hl IHl]; intros l2' l3'' HF1 HF3; inversion HF1; subst; inversion HF3; subst;
        constructor; eauto. }
    apply NS_G with (l2' := l3''); [assumption|]. etransitivity; [symmetry; eassumption | assumption].
Qed.

Lemma node_eq_nsim a : forall b, node_eq a b = true -> nsim a b.
Proof.
  induction a as [t | ch IH] using node_ind2; intros [u | ch2]; cbn [node_eq]; try discriminate.
  - intro H. constructor. assumption.
  - intro H. apply NS_G with (l2' := ch2); [|reflexivity].
    revert ch2 H. induction IH as [|x l Hx Hl IHl]; intros [|y l2] H; try discriminate; constructor.
    + apply Hx. apply andb_true_iff in H. tauto.
    + apply IHl. apply andb_true_iff in H. tauto.
Qed.

Lemma nodes_eq_Forall2 l1 : forall l2, nodes_eq l1 l2 = true -> Forall2 nsim l1 l2.
Proof.
  induction l1 as [|x l IH]; intros [|y l2] H; cbn in H; try discriminate; constructor.
  - apply node_eq_nsim. apply andb_true_iff in H. tauto.
  - apply IH. apply andb_true_iff in H. tauto.
Qed.

Lemma nsim_sort_node n : nsim n (sort_node n).
Proof.
  induction n as [t | ch IH] using node_ind2; cbn [sort_node].
  - constructor. apply tag_eq_refl.
  - apply NS_G with (l2' := map sort_node ch); [|apply sort_children_perm].
    induction IH; cbn; constructor; assumption.
Qed.

Lemma lsim_sorted l : lsim l (sorted_children l).
Proof.
  exists (map sort_node l). split; [|apply sort_children_perm].
  induction l; cbn; constructor; [apply nsim_sort_node | assumption].
Qed.

Lemma Forall2_nsim_sym l1 l2 : Forall2 nsim l1 l2 -> Forall2 nsim l2 l1.
Proof. induction 1; constructor; [apply nsim_sym|]; assumption. Qed.

Lemma Forall2_nsim_trans l1 l2 l3 : Forall2 nsim l1 l2 -> Forall2 nsim l2 l3 -> Forall2 nsim l1 l3.
Proof.
  intro H. revert l3. induction H; intros l3 H3; inversion H3; subst; constructor.
  - eapply nsim_trans; eassumption.
  - auto.
Qed.

Lemma lsim_sym l1 l2 : lsim l1 l2 -> lsim l2 l1.
Proof.
  intros (l2' & HF & Hp).
  destruct (Forall2_perm_l nsim l2' l2 Hp l1 (Forall2_nsim_sym _ _ HF)) as (l1' & Hp1 & HF1).
  exists l1'. split; [assumption | symmetry; assumption].
Qed.

Lemma lsim_trans l1 l2 l3 : lsim l1 l2 -> lsim l2 l3 -> lsim l1 l3.
Proof.
  intros (l2' & HF1 & Hp1) (l3' & HF2 & Hp2).
  destruct (Forall2_perm_l nsim l2 l2' (Permutation_sym Hp1) l3' HF2) as (l3'' & Hp3 & HF3).
  exists l3''. split; [eapply Forall2_nsim_trans; eassumption|].
  etransitivity; [symmetry; eassumption | assumption].
Qed.

(* soundness of the repaired comparison, all inputs: an accepted Def-expand group
   equals the expansion of its definition up to sibling order at every level *)
Lemma defexpand_valid_sound D t g :
  defexpand_accepted true D t g = true ->
  exists e ch, def_entry D t = Some e /\
               get_definition e t (def_placeholder t) = Ok (Some ch) /\
               lsim g ch.
Proof.
  unfold defexpand_accepted, validate_def_contents.
  destruct (def_entry D t) as [e|] eqn:Ee; [|discriminate].
  destruct (get_definition e t (def_placeholder t)) as [[ch|]|x] eqn:Eg; try discriminate.
  destruct (nodes_eq (sorted_children g) (sorted_children ch)) eqn:E; [|discriminate].
  intros _. exists e, ch. split; [reflexivity|]. split; [exact Eg|].
  apply lsim_trans with (l2 := sorted_children g); [apply lsim_sorted|].
  apply lsim_trans with (l2 := sorted_children ch); [|apply lsim_sym; apply lsim_sorted].
  exists (sorted_children ch). split; [apply nodes_eq_Forall2; assumption | reflexivity].
Qed.

(* ------------------------------------------------------------------ several definitions in one string *)

(* check_one over the definition groups of a string, one after the other *)
Fixpoint check_defs (D : dict) (dgs : list (tag * list node)) : dict * list dissue :=
  match dgs with
  | [] => (D, [])
  | dg :: r => let '(D1, i1) := check_one D (fst dg) (snd dg) in
               let '(D2, i2) := check_defs D1 r in (D2, i1 ++ i2)
  end.

Lemma check_fold_gen dgs : forall D is0,
  fold_left (fun acc dg => let '(D1, is1) := check_one (fst acc) (fst dg) (snd dg) in
                           (D1, snd acc ++ is1)) dgs (D, is0) =
  (fst (check_defs D dgs), is0 ++ snd (check_defs D dgs)).
Proof.
  induction dgs as [|dg r IH]; intros D is0; cbn [fold_left check_defs fst snd].
  - rewrite app_nil_r. reflexivity.
  - destruct (check_one D (fst dg) (snd dg)) as [D1 i1]. rewrite IH.
    destruct (check_defs D1 r) as [D2 i2]. cbn [fst snd]. rewrite app_assoc. reflexivity.
Qed.

(* DefinitionDict.check_for_definitions = the fold of check_one over the definition
   groups of the string: nothing but the dictionary is carried from one to the next *)
Lemma check_for_definitions_fold D f :
  check_for_definitions D f = check_defs D (find_top_level_definitions f).
Proof.
  unfold check_for_definitions. rewrite check_fold_gen. cbn [app].
  destruct (check_defs D (find_top_level_definitions f)); reflexivity.
Qed.

Lemma check_defs_app l1 : forall D l2,
  check_defs D (l1 ++ l2) =
  let '(D1, i1) := check_defs D l1 in let '(D2, i2) := check_defs D1 l2 in (D2, i1 ++ i2).
Proof.
  induction l1 as [|dg r IH]; intros D l2; cbn [app check_defs].
  - destruct (check_defs D l2); reflexivity.
  - destruct (check_one D (fst dg) (snd dg)) as [D1 i1]. rewrite IH.
    destruct (check_defs D1 r) as [D2 i2]. destruct (check_defs D2 l2) as [D3 i3].
    rewrite app_assoc. reflexivity.
Qed.

Lemma find_top_app f1 f2 :
  find_top_level_definitions (f1 ++ f2) = find_top_level_definitions f1 ++ find_top_level_definitions f2.
Proof. unfold find_top_level_definitions, direct_groups. rewrite !flat_map_app. reflexivity. Qed.

(* one string holding the definitions of two strings = the two strings one after the other *)
Lemma check_for_definitions_split D f1 f2 :
  check_for_definitions D (f1 ++ f2) =
  let '(D1, i1) := check_for_definitions D f1 in
  let '(D2, i2) := check_for_definitions D1 f2 in (D2, i1 ++ i2).
Proof. rewrite !check_for_definitions_fold, find_top_app, check_defs_app.
  destruct (check_defs D (find_top_level_definitions f1)) as [D1 i1].
  rewrite check_for_definitions_fold. reflexivity.
Qed.

(* the verdict of a definition = its verdict alone, and its name not stored yet *)
Lemma accept_context D dt g :
  acceptable D dt g <-> acceptable [] dt g /\ mem_key (lower (def_name dt)) D = false.
Proof. unfold acceptable. cbn [mem_key lookup]. tauto. Qed.

(* ... wherever it stands in its string: after any predecessors [pre] the definition is
   stored exactly when it is acceptable alone and no predecessor (or earlier string)
   stored its name; what the predecessors looked like is otherwise irrelevant *)
Lemma verdict_in_string D pre dt g post :
  let Dp := fst (check_defs D pre) in
  (acceptable [] dt g /\ mem_key (lower (def_name dt)) Dp = false <->
   check_one Dp dt g = (new_dict Dp dt g, [])) /\
  fst (check_defs D (pre ++ (dt, g) :: post)) = fst (check_defs (fst (check_one Dp dt g)) post).
Proof.
  cbv zeta. split.
  - rewrite <- accept_context. apply accept_iff.
  - rewrite check_defs_app. destruct (check_defs D pre) as [Dp ip]. cbn [check_defs fst snd].
    destruct (check_one Dp dt g) as [D1 i1]. cbn [fst snd]. destruct (check_defs D1 post) as [D2 i2]. reflexivity.
Qed.

(* ------------------------------------------------------------------ namespaces *)

(* the Def <-> Def-expand switch (short_base_tag setter) keeps the library namespace, the
   extension and the original text; only the printed base name changes *)
Lemma switch_keeps_namespace t b :
  tns (set_base t b) = tns t /\ text (set_base t b) = text t /\ torg (set_base t b) = torg t /\
  tbase (set_base t b) = b /\
  short_tag (set_base t b) =
    tns t ++ base_name b ++ match text t with [] => [] | e => ch_slash :: e end.
Proof.
  repeat split. unfold short_tag, tag_head, set_base. cbn [text tns tbase].
  destruct (text t); [rewrite app_nil_r | rewrite app_assoc]; reflexivity.
Qed.

(* what a Def tag of any namespace is replaced by starts with the same tag printed as
   <namespace>Def-expand/<extension> *)
Lemma expand_keeps_namespace D t ch :
  wf_dict D = true -> expansion D t = Some ch ->
  exists t' c, ch = T t' :: c /\ tns t' = tns t /\ text t' = text t /\
               short_tag t' = tns t ++ s_defexpand ++ match text t with [] => [] | e => ch_slash :: e end.
Proof.
  intros Hw He. destruct (expansion_shape D t ch Hw He) as (c & -> & _ & _).
  exists (set_base t BDefExpand), c.
  destruct (switch_keeps_namespace t BDefExpand) as (H1 & H2 & _ & _ & H5). auto.
Qed.

(* ------------------------------------------------------------------ the substituted content, declaratively *)

(* "content with '#' replaced by v": every tag that holds a placeholder gets v for each '#' *)
Definition plug (v : str) (t : tag) : tag := if is_placeholder t then replace_placeholder t v else t.
Fixpoint plug_node (v : str) (n : node) : node :=
  match n with
  | T t => T (plug v t)
  | G ch => G (map (plug_node v) ch)
  end.

Definition ph_count (l : list node) : nat := length (filter is_placeholder (all_tags_f l)).

Lemma subst_list_done_true v l : subst_list v true l = (true, l).
Proof.
  assert (Hn : forall n, subst_node v true n = (true, n)).
  { induction n as [t | ch IH] using node_ind2; [reflexivity|]. rewrite subst_node_G.
    assert (H : subst_list v true ch = (true, ch)).
    { induction IH as [|x r Hx Hr IHr]; [reflexivity|]. cbn [subst_list]. rewrite Hx, IHr. reflexivity. }
    rewrite H. reflexivity. }
  induction l as [|x r IH]; [reflexivity|]. cbn [subst_list]. rewrite Hn, IH. reflexivity.
Qed.

Lemma plug_node_id v n : existsb is_placeholder (all_tags n) = false -> plug_node v n = n.
Proof.
  induction n as [t | ch IH] using node_ind2; cbn [all_tags plug_node existsb].
  - rewrite orb_false_r. unfold plug. intros ->. reflexivity.
  - rewrite existsb_flat_map. intro H. f_equal.
    induction IH as [|x r Hx Hr IHr]; [reflexivity|]. cbn [existsb map] in *.
    apply orb_false_iff in H as [H1 H2]. rewrite Hx, IHr; auto.
Qed.

Lemma plug_list_id v l : existsb is_placeholder (all_tags_f l) = false -> map (plug_node v) l = l.
Proof.
  unfold all_tags_f. rewrite existsb_flat_map.
  induction l as [|x r IH]; [reflexivity|]. cbn [existsb map]. intro H.
  apply orb_false_iff in H as [H1 H2]. rewrite plug_node_id, IH; auto.
Qed.

Lemma filter_nil_existsb {A} (p : A -> bool) l : length (filter p l) = 0 -> existsb p l = false.
Proof.
  induction l as [|x r IH]; [reflexivity|]. cbn [filter existsb].
  destruct (p x); cbn [length]; [discriminate | exact IH].
Qed.

Lemma ph_count_app l1 l2 :
  length (filter is_placeholder (l1 ++ l2)) =
  length (filter is_placeholder l1) + length (filter is_placeholder l2).
Proof. rewrite filter_app, app_length. reflexivity. Qed.

(* with at most one placeholder tag, "the first one" is "every one" *)
Lemma subst_node_plug v n :
  length (filter is_placeholder (all_tags n)) <= 1 -> snd (subst_node v false n) = plug_node v n.
Proof.
  induction n as [t | ch IH] using node_ind2; intro Hc.
  - cbn [subst_node plug_node]. unfold plug. destruct (is_placeholder t); reflexivity.
  - rewrite subst_node_G. cbn [plug_node all_tags] in *.
    assert (H : snd (subst_list v false ch) = map (plug_node v) ch).
    { induction IH as [|x r Hx Hr IHr]; [reflexivity|].
      cbn [flat_map] in Hc. rewrite ph_count_app in Hc. cbn [subst_list map].
      pose proof (subst_node_done v x false) as Hd. cbn [orb] in Hd.
      assert (Hx1 : snd (subst_node v false x) = plug_node v x) by (apply Hx; lia).
      destruct (subst_node v false x) as [d1 x'] eqn:Ex. cbn [fst snd] in Hd, Hx1.
      assert (Hx' : x' = plug_node v x) by exact Hx1.
      destruct d1.
      - (* the placeholder was in x: the rest has none *)
        rewrite subst_list_done_true. cbn [snd]. rewrite Hx'. f_equal. symmetry.
        apply plug_list_id. unfold all_tags_f. apply filter_nil_existsb.
        assert (1 <= length (filter is_placeholder (all_tags x))).
        { destruct (filter is_placeholder (all_tags x)) eqn:Ef; [|cbn; lia].
          exfalso. symmetry in Hd. rewrite <- Ef in *.
          assert (existsb is_placeholder (all_tags x) = false)
            by (apply filter_nil_existsb; rewrite Ef; reflexivity). congruence. }
        lia.
      - destruct (subst_list v false r) as [d2 r'] eqn:Er. cbn [snd] in *.
        rewrite Hx'. f_equal. apply IHr. lia. }
    destruct (subst_list v false ch) as [d ch']. cbn [snd] in *. rewrite H. reflexivity.
Qed.

Lemma subst_list_plug v l : ph_count l <= 1 -> snd (subst_list v false l) = map (plug_node v) l.
Proof.
  intro H. pose proof (subst_node_plug v (G l)) as Hn. cbn [all_tags] in Hn. specialize (Hn H).
  rewrite subst_node_G in Hn. destruct (subst_list v false l) as [d l']. cbn [snd plug_node] in *.
  inversion Hn. reflexivity.
Qed.

(* What a Def tag is replaced by, stated without the model's substitution function:
   (Def-expand/Name[/v], stored content with v for every '#') when the definition takes
   a value and one is given; (Def-expand/Name, stored content) when it takes none and
   none is given; (Def-expand/Name) alone when the definition has no content *)
Lemma expansion_declarative D t e :
  wf_dict D = true -> def_entry D t = Some e ->
  let v := def_placeholder t in
  let head := T (set_base t BDefExpand) in
  (etakes e = is_nil v -> expansion D t = None) /\
  (etakes e = negb (is_nil v) ->
     match econtents e with
     | Some (c0 :: c) =>
         if is_nil v then expansion D t = Some [head; G (c0 :: c)]
         else ph_count (c0 :: c) <= 1 -> expansion D t = Some [head; G (map (plug_node v) (c0 :: c))]
     | _ => expansion D t = Some [head]
     end).
Proof.
  intros Hw He. cbv zeta. unfold expansion. rewrite He. unfold get_definition.
  pose proof (wf_lookup _ _ _ Hw He) as Hwe.
  split; intro Ht.
  - rewrite Ht. destruct (is_nil (def_placeholder t)); reflexivity.
  - rewrite Ht. destruct (is_nil (def_placeholder t)) eqn:En; cbn [negb Bool.eqb].
    + destruct (econtents e) as [[|c0 c]|]; reflexivity.
    + destruct (econtents e) as [[|c0 c]|] eqn:Ec; try reflexivity.
      intro Hc. pose proof (subst_list_plug (def_placeholder t) (c0 :: c) Hc) as Hp.
      pose proof (subst_list_done (def_placeholder t) (c0 :: c) false) as Hd. cbn [orb] in Hd.
      destruct (subst_list (def_placeholder t) false (c0 :: c)) as [d c'] eqn:Es. cbn [fst snd] in *.
      unfold wf_entry in Hwe. rewrite Ec, Ht in Hwe. cbn [negb] in Hwe.
      apply andb_true_iff in Hwe as [_ Hph]. unfold has_placeholder in Hph.
      rewrite Hph in Hd. subst d. rewrite Hp. reflexivity.
Qed.

(* under a well-formed dictionary "left alone" never hides an exception: a Def tag is
   not expanded exactly when its definition is missing or its value-ness does not match *)
Lemma expansion_none_iff D t :
  wf_dict D = true ->
  (expansion D t = None <->
   def_entry D t = None \/
   exists e, def_entry D t = Some e /\ etakes e = is_nil (def_placeholder t)).
Proof.
  intro Hw. unfold expansion. destruct (def_entry D t) as [e|] eqn:He.
  - pose proof (wf_lookup _ _ _ Hw He) as Hwe.
    destruct (get_definition e (set_base t BDefExpand) (def_placeholder t)) as [[ch|]|x] eqn:Eg.
    + split; [discriminate|]. intros [H|(e' & H1 & H2)]; [discriminate|]. inversion H1; subst e'.
      unfold get_definition in Eg. rewrite H2 in Eg.
      destruct (is_nil (def_placeholder t)); discriminate.
    + split; [|reflexivity]. intros _. right. exists e. split; [reflexivity|].
      unfold get_definition in Eg.
      destruct (etakes e), (is_nil (def_placeholder t)); cbn [Bool.eqb] in *; try reflexivity;
        destruct (econtents e) as [[|c0 c]|]; try discriminate;
        try (destruct (subst_list (def_placeholder t) false (c0 :: c)) as [[] ?]; discriminate).
    + exfalso. eapply wf_no_exn; eauto.
  - split; [left; reflexivity | reflexivity].
Qed.
