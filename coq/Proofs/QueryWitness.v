(* Concrete witnesses for property C15: records of the repaired defects (fx = false:
   behaviour before fix commits 81fa420, 1bd4096, 0643166) and non-vacuity
   examples on the current code (fx = true). *)
From Coq Require Import List NArith Arith Bool Permutation Relations.
From HV Require Import Base.Res Base.Str Model.Query Model.QueryParse Model.QueryEdit Proofs.QueryEditProofs
  Proofs.QueryProofs Proofs.QueryParseProofs Proofs.QueryBalanceProofs Proofs.QuerySiblingProofs.
Import ListNotations.

(* RECORD OF THE REPAIRED DEFECT (fx = false: behaviour before fix commit 81fa420):
     forall q a b, sperm a b -> search q a = search q b
   was false: the duplicate filter of && compared groups by content
   (HedGroup.__eq__), so two negation results on distinct groups with equal
   content collapsed. *)
Lemma sibling_order_refuted :
  exists q a b, sperm a b /\ uniq a /\ search false 0 q a = Ok false /\ search false 0 q b = Ok true.
Proof.
  exists w_query, w_ann1, w_ann2. split; [exact w_sperm|].
  split; [unfold uniq; vm_compute; repeat constructor; simpl; intuition discriminate|].
  split; vm_compute; reflexivity.
Qed.

(* the same witness on the current code (fix commit 81fa420) *)
Lemma sibling_witness_fixed :
  search true 100 w_query w_ann1 = Ok true /\ search true 100 w_query w_ann2 = Ok true.
Proof. split; vm_compute; reflexivity. Qed.

(* sibling order, stated on [search] (query text), current code *)
Lemma sibling_order_search limit q a b :
  sperm a b -> is_tag a = false -> uniq a -> search true limit q a = search true limit q b.
Proof.
  intros Hs Ha Hu. unfold search. destruct (compile true limit q) as [e|x]; [|reflexivity]. simpl.
  destruct (sibling_order_invariant_fixed a b Hs Ha Hu) as (_ & _ & H). rewrite (H e). reflexivity.
Qed.

(* Color || "blue" || Sens* *)
Definition w_query_or : str := [67; 111; 108; 111; 114; 32; 124; 124; 32; 34; 98; 108; 117; 101; 34; 32; 124; 124; 32; 83; 101; 110; 115; 42]%N.

Lemma nonvacuous :
  search true 100 w_query w_ann2 = Ok true /\ distinct_groups w_ann2 /\ uniq w_ann1 /\ sperm w_ann1 w_ann2 /\
  (exists e, compile true 100 w_query_or = Ok e /\ term_or_query e = true /\ matches true e w_ann1 = true) /\
  forallb (fun q => negb (balanced_groupers q) &&
                    match compile true 100 q with Exn ValueError => true | _ => false end) unbalanced_examples = true.
Proof.
  split; [vm_compute; reflexivity|]. split; [exact w_ann2_distinct|].
  split; [unfold uniq; vm_compute; repeat constructor; simpl; intuition discriminate|].
  split; [exact w_sperm|].
  split; [|exact unbalanced_examples_rejected].
  eexists. split; [vm_compute; reflexivity|]. split; vm_compute; reflexivity.
Qed.

(* depth (fix commit 0643166): a nesting deeper than the available depth is reported as ValueError *)
Lemma depth_exceeded_valueerror :
  compile true 2 [ch_open; ch_open; ch_open; 97%N; ch_close; ch_close; ch_close] = Exn ValueError /\
  exists e, compile true 4 [ch_open; ch_open; ch_open; 97%N; ch_close; ch_close; ch_close] = Ok e.
Proof. split; [vm_compute; reflexivity | eexists; vm_compute; reflexivity]. Qed.

(* && is associative on the current code, no hypothesis *)
Lemma and_assoc_fixed t1 t2 t3 t4 a b c i ch :
  matches true (EAnd t1 (EAnd t2 a b) c) (Group i ch) = matches true (EAnd t3 a (EAnd t4 b c)) (Group i ch).
Proof. apply and_assoc_general. left; reflexivity. Qed.

(* behaviour before fix commit 81fa420: under the hypothesis that no two distinct groups compare equal *)
Lemma and_assoc_prefix t1 t2 t3 t4 a b c i ch :
  distinct_groups (Group i ch) ->
  matches false (EAnd t1 (EAnd t2 a b) c) (Group i ch) = matches false (EAnd t3 a (EAnd t4 b c)) (Group i ch).
Proof. intro H. apply and_assoc_general. right; exact H. Qed.

Lemma sibling_order_matches a b :
  sperm a b -> is_tag a = false -> uniq a -> forall e, matches true e a = matches true e b.
Proof. intros Hs Ha Hu. apply (sibling_order_invariant_fixed a b Hs Ha Hu). Qed.

(* a tag appended to the second group of (Red,Blue),(Red,Blue) is found by a quoted and by a star term *)
Definition w_green : node := Tag 9 [[99; 111; 108; 111; 114]%N; [103; 114; 101; 101; 110]%N] [71; 114; 101; 101; 110]%N [71; 114; 101; 101; 110]%N.
Lemma append_example :
  path_ok [1] w_ann1 = true /\
  search true 100 [34; 71; 114; 101; 101; 110; 34]%N w_ann1 = Ok false /\ search true 100 [34; 71; 114; 101; 101; 110; 34]%N (append_at [1] w_green w_ann1) = Ok true /\
  search true 100 [71; 114; 101; 42]%N w_ann1 = Ok false /\ search true 100 [71; 114; 101; 42]%N (append_at [1] w_green w_ann1) = Ok true.
Proof. repeat split; vm_compute; reflexivity. Qed.

(* depth, before the except clause: an exhausted depth is RecursionError, a value
   of its own; a stray closer is a genuine ValueError whatever the depth *)
Lemma depth_raw_example :
  compile_raw true 2 [ch_open; ch_open; ch_open; 97%N; ch_close; ch_close; ch_close] = Exn RecursionError /\
  (exists e, compile_raw true 8 [ch_open; ch_open; ch_open; 97%N; ch_close; ch_close; ch_close] = Ok e) /\
  compile_raw true 8 [97%N; ch_close] = Exn ValueError /\
  S (length (tokenize (fold [ch_open; ch_open; ch_open; 97%N; ch_close; ch_close; ch_close]))) = 8.
Proof. split; [vm_compute; reflexivity|]. split; [eexists; vm_compute; reflexivity|]. split; vm_compute; reflexivity. Qed.
