(* Proofs about Model/Dups.v (property C04), part 4: what the duplicate check
   needs of the key of the second (canonical) sort.

   The sorted view is recomputed here with an ARBITRARY key [key : view -> str]
   for the second pass ([sv_k], [sorted_view_k]); the code as it is (since fix commit 7597eca) is the
   instance key = _sort_key = [vkey Fx] ([sv_k_real]).
     * sufficient: a key that only depends on the canonical form and is
       injective on well-formed canonical forms gives order invariance
       ([dup_perm_good_key]);
     * a key that forgets nesting (the case-folded tags of the sorted form,
       flattened) is not injective and the check becomes order dependent
       again ([dup_invariant_refuted_flat_key]). *)
From Coq Require Import List NArith Arith Bool Lia Permutation Sorted.
From HV Require Import Base.Res Base.Str Model.Dups Proofs.DupsProofs Proofs.DupsCount.
Import ListNotations.

Definition arrange_k (key : view -> str) (ps : list (str * view)) : list view :=
  map snd (arrange_pairs (fun p => key (snd p)) (arrange_pairs oldkey ps)).

Fixpoint sv_k (key : view -> str) (t : tree) : view :=
  match t with
  | T a => VT a
  | G l => VL (arrange_k key (map (fun c => (print c, sv_k key c)) l))
  end.

Definition sorted_view_k (key : view -> str) (top : list tree) : list view :=
  arrange_k key (map (fun c => (print c, sv_k key c)) top).

Lemma arrange_k_real ps : arrange_k (vkey Fx) ps = arrange Fx ps.
Proof. reflexivity. Qed.

(* the code as it is is the instance key = _sort_key *)
Lemma sv_k_real t : sv_k (vkey Fx) t = sv Fx t.
Proof.
  induction t as [a|l IH] using tree_ind2; [reflexivity|].
  cbn [sv_k sv]. rewrite arrange_k_real. do 2 f_equal.
  induction IH as [|x l Hx _ IHl]; [reflexivity|]. cbn [map]. rewrite Hx, IHl. reflexivity.
Qed.

Lemma sorted_view_k_real top : sorted_view_k (vkey Fx) top = sorted_view Fx top.
Proof.
  unfold sorted_view_k, sorted_view. rewrite arrange_k_real. f_equal.
  apply map_ext. intro c. rewrite sv_k_real. reflexivity.
Qed.

Lemma arrange_k_perm key ps : Permutation (arrange_k key ps) (map snd ps).
Proof.
  unfold arrange_k. apply Permutation_map. rewrite arrange_pairs_perm. apply arrange_pairs_perm.
Qed.

Section GoodKey.
  Context (key : view -> str) (kc : cview -> str).
  (* the key only depends on the canonical form ... *)
  Context (Hfac : forall v, key v = kc (canon v)).
  (* ... and separates well-formed canonical forms (in particular forms that
     differ only in nesting) *)
  Context (Hinj : forall c d, wfc c = true -> wfc d = true -> kc c = kc d -> c = d).

  Definition kkeyed (cs : list cview) : list (str * cview) := map (fun c => (kc c, c)) cs.

  Definition karrange (cs : list cview) : list cview :=
    map snd (sort_k (filter (fun q => is_ct (snd q)) (kkeyed cs))) ++
    map snd (sort_k (filter (fun q => negb (is_ct (snd q))) (kkeyed cs))).

  Lemma canon_arrange_pairs_k qs :
    map (fun p => canon (snd p)) (arrange_pairs (fun p => key (snd p)) qs)
    = karrange (map (fun p => canon (snd p)) qs).
  Proof.
    unfold arrange_pairs, karrange, kkeyed. rewrite map_app.
    assert (Hk : map (fun c => (kc c, c)) (map (fun p : str * view => canon (snd p)) qs)
                 = map (fun q : str * (str * view) => (fst q, canon (snd (snd q))))
                       (map (fun p => (key (snd p), p)) qs)).
    { rewrite !map_map. apply map_ext. intro p. cbn [fst snd]. rewrite Hfac. reflexivity. }
    rewrite Hk. clear Hk. set (keyed := map (fun p => (key (snd p), p)) qs).
    rewrite !(filter_map_comm (fun q : str * (str * view) => (fst q, canon (snd (snd q))))). cbn [snd].
    rewrite !(sort_k_map (fun p : str * view => canon (snd p))). rewrite !map_map. cbn [snd].
    f_equal.
    - f_equal. f_equal. apply filter_ext. intro q. apply is_vt_canon.
    - f_equal. f_equal. apply filter_ext. intro q. rewrite is_vt_canon. reflexivity.
  Qed.

  Lemma kkeyed_inj cs : forallb wfc cs = true ->
    forall p q, In p (kkeyed cs) -> In q (kkeyed cs) -> fst p = fst q -> p = q.
  Proof.
    intros Hw p q Hp Hq He. unfold kkeyed in *. rewrite in_map_iff in Hp, Hq.
    destruct Hp as (c & Ec & Hc). destruct Hq as (d & Ed & Hd). subst p q. simpl in He.
    rewrite forallb_forall in Hw. rewrite (Hinj c d); auto.
  Qed.

  Lemma karrange_perm cs cs' :
    Permutation cs cs' -> forallb wfc cs = true -> karrange cs = karrange cs'.
  Proof.
    intros Hp Hw. unfold karrange.
    assert (Hpk : Permutation (kkeyed cs) (kkeyed cs')) by (apply Permutation_map; exact Hp).
    assert (Hgen : forall f, sort_k (filter f (kkeyed cs)) = sort_k (filter f (kkeyed cs'))).
    { intro f. apply sorted_perm_unique.
      - apply sort_k_sorted.
      - apply sort_k_sorted.
      - rewrite !sort_k_perm. apply perm_filter. exact Hpk.
      - intros p q Hp' Hq'. apply (kkeyed_inj cs Hw).
        + apply (Permutation_in _ (sort_k_perm _)) in Hp'. apply filter_In in Hp'. tauto.
        + apply (Permutation_in _ (sort_k_perm _)) in Hq'. apply filter_In in Hq'. tauto. }
    rewrite !Hgen. reflexivity.
  Qed.

  Lemma canon_arrange_k ps :
    forallb wfc (map (fun p => canon (snd p)) ps) = true ->
    map canon (arrange_k key ps) = karrange (map (fun p => canon (snd p)) ps).
  Proof.
    intro Hw. unfold arrange_k. rewrite map_map, canon_arrange_pairs_k.
    symmetry. apply karrange_perm; [|exact Hw].
    apply Permutation_map. apply Permutation_sym. apply arrange_pairs_perm.
  Qed.

  Definition csvk (t : tree) : cview := canon (sv_k key t).

  Lemma wfc_csvk t : wft t = true -> wfc (csvk t) = true.
  Proof.
    induction t as [a|l IH] using tree_ind2; intro H; [exact H|].
    unfold csvk. cbn [sv_k canon wfc].
    rewrite (forallb_perm _ _ _ (Permutation_map canon (arrange_k_perm key _))). rewrite !map_map. cbn [snd].
    cbn [wft] in H. rewrite forallb_forall in *. intros c Hc. rewrite in_map_iff in Hc.
    destruct Hc as (t & Et & Ht). subst c. rewrite Forall_forall in IH. apply IH; auto.
  Qed.

  Lemma forallb_wfc_csvk l : forallb wft l = true -> forallb wfc (map csvk l) = true.
  Proof.
    intro H. rewrite forallb_forall in *. intros c Hc. rewrite in_map_iff in Hc.
    destruct Hc as (t & Et & Ht). subst c. apply wfc_csvk. auto.
  Qed.

  Lemma csvk_G l : forallb wft l = true -> csvk (G l) = CL (karrange (map csvk l)).
  Proof.
    intro H. unfold csvk. cbn [sv_k canon]. rewrite canon_arrange_k; rewrite !map_map; cbn [snd].
    - reflexivity.
    - apply (forallb_wfc_csvk l H).
  Qed.

  Lemma csvk_perm_mut :
    (forall t t', PermTree t t' -> wft t = true -> wft t' = true /\ csvk t = csvk t') /\
    (forall l l', PermForest l l' -> forallb wft l = true ->
                  forallb wft l' = true /\ Permutation (map csvk l) (map csvk l')).
  Proof.
    apply PermTF_mind.
    - intros t H. auto.
    - intros l l' _ IH H. cbn [wft] in *. destruct (IH H) as [H' Hp]. split; [exact H'|].
      rewrite !csvk_G by assumption. f_equal. apply karrange_perm; [exact Hp|]. apply forallb_wfc_csvk. exact H.
    - intros _. split; [reflexivity|constructor].
    - intros t t' l l' _ IHt _ IHl H. cbn [forallb] in *. apply andb_true_iff in H as [H1 H2].
      destruct (IHt H1) as [H1' E]. destruct (IHl H2) as [H2' P].
      split; [rewrite H1', H2'; reflexivity|]. cbn [map]. rewrite E. constructor. exact P.
    - intros a b l H. split.
      + cbn [forallb] in *. rewrite andb_assoc, (andb_comm (wft b)), <- andb_assoc. exact H.
      + cbn [map]. apply perm_swap.
    - intros l1 l2 l3 _ IH1 _ IH2 H. destruct (IH1 H) as [H2 P1]. destruct (IH2 H2) as [H3 P2].
      split; [exact H3|]. etransitivity; eauto.
  Qed.

  Lemma csvk_sorted_view top : forallb wft top = true ->
    map canon (sorted_view_k key top) = karrange (map csvk top).
  Proof.
    intro H. unfold sorted_view_k. rewrite canon_arrange_k; rewrite !map_map; cbn [snd].
    - reflexivity.
    - apply (forallb_wfc_csvk top H).
  Qed.

  (* THEOREM: with any such key the reported repeats do not depend on sibling order *)
  Lemma dup_perm_good_key top top' :
    PermForest top top' -> forallb wft top = true ->
    dup_p Fx (VL (sorted_view_k key top)) = dup_p Fx (VL (sorted_view_k key top')).
  Proof.
    intros Hp Hw. apply dup_p_canon. cbn [canon]. f_equal.
    destruct (proj2 csvk_perm_mut _ _ Hp Hw) as [Hw' P].
    rewrite !csvk_sorted_view by assumption.
    apply karrange_perm; [exact P|]. apply forallb_wfc_csvk. exact Hw.
  Qed.
End GoodKey.

(* the key of the code as it is satisfies both conditions *)
Lemma real_key_is_good :
  (forall v, vkey Fx v = ckey (canon v)) /\
  (forall c d, wfc c = true -> wfc d = true -> ckey c = ckey d -> c = d).
Proof. split; [exact vkey_canon|exact ckey_inj]. Qed.

(* ---- a key that forgets nesting ---- *)

Fixpoint flat_tags (v : view) : list str :=
  match v with VT a => [t_shortf a] | VL l => flat_map flat_tags l end.
(* the case-folded tags of the sorted form, in order, without the parentheses *)
Definition flatkey (v : view) : str := join [ch_comma] (flat_tags v).

(* (Blue,(Red)),((Red,Blue)),((Red),Blue)   versus   (Blue,(Red)),((Red,Blue)),(Blue,(Red))
   (members of the last group reordered): all three groups get the same flat key, so
   their order falls back to the text as written and ((Red,Blue)) separates the copies *)
Definition w_flat_1 : list tree := [G [Blue; G [Red]]; G [G [Red; Blue]]; G [G [Red]; Blue]].
Definition w_flat_2 : list tree := [G [Blue; G [Red]]; G [G [Red; Blue]]; G [Blue; G [Red]]].

Lemma dup_invariant_refuted_flat_key :
  PermForest w_flat_1 w_flat_2 /\ forallb wft w_flat_1 = true /\
  (* the flat key does not separate groups that differ in nesting *)
  flatkey (sv_k flatkey (G [Blue; G [Red]])) = flatkey (sv_k flatkey (G [G [Red; Blue]])) /\
  dup_p Fx (VL (sorted_view_k flatkey w_flat_1)) = [] /\
  dup_p Fx (VL (sorted_view_k flatkey w_flat_2)) = [K_TAG_REPEATED_GROUP] /\
  (* the real key reports the copies in both *)
  check_for_duplicate_groups Fx w_flat_1 = Ok [K_TAG_REPEATED_GROUP] /\
  check_for_duplicate_groups Fx w_flat_2 = Ok [K_TAG_REPEATED_GROUP].
Proof.
  split; [|vm_compute; repeat split; reflexivity].
  unfold w_flat_1, w_flat_2.
  apply PF_skip; [apply PT_refl|]. apply PF_skip; [apply PT_refl|].
  apply PF_skip; [|apply PF_nil]. apply PT_group. apply PF_swap.
Qed.

(* ---- a key that normalises values ----
   Any key that identifies DIFFERENT tags (here: the character "0" is ignored, so that
   "3.5" and "3.05", "7" and "07" get the same key -- the effect of padding digit runs with
   zeros) is not injective on canonical forms either: a look-alike sibling whose text as
   written sorts between two differently written copies separates them.
   ((Red),Duration/3.5 s),(Duration/3.05 s,(Red)),(Duration/3.5 s,(Red))
     versus the same with the members of the first group swapped *)
Fixpoint zerokey (v : view) : str :=
  match v with
  | VT a => filter (fun c => negb (N.eqb c 48)) (t_shortf a)
  | VL l => ch_open :: join [ch_comma] (map zerokey l) ++ [ch_close]
  end.

Definition D35 := tg (s [68;117;114;97;116;105;111;110;47;51;46;53;32;115])
                     (s [100;117;114;97;116;105;111;110;47;51;46;53;32;115])
                     (s [100;117;114;97;116;105;111;110;47;51;46;53;32;115]).
Definition D305 := tg (s [68;117;114;97;116;105;111;110;47;51;46;48;53;32;115])
                      (s [100;117;114;97;116;105;111;110;47;51;46;48;53;32;115])
                      (s [100;117;114;97;116;105;111;110;47;51;46;48;53;32;115]).
Definition w_zero_1 : list tree := [G [G [Red]; D35]; G [D305; G [Red]]; G [D35; G [Red]]].
Definition w_zero_2 : list tree := [G [D35; G [Red]]; G [D305; G [Red]]; G [D35; G [Red]]].

Lemma dup_invariant_refuted_value_normalising_key :
  PermForest w_zero_1 w_zero_2 /\ forallb wft w_zero_1 = true /\
  zerokey (sv_k zerokey (G [D35; G [Red]])) = zerokey (sv_k zerokey (G [D305; G [Red]])) /\
  dup_p Fx (VL (sorted_view_k zerokey w_zero_1)) = [] /\
  dup_p Fx (VL (sorted_view_k zerokey w_zero_2)) = [K_TAG_REPEATED_GROUP] /\
  check_for_duplicate_groups Fx w_zero_1 = Ok [K_TAG_REPEATED_GROUP] /\
  check_for_duplicate_groups Fx w_zero_2 = Ok [K_TAG_REPEATED_GROUP].
Proof.
  split; [|vm_compute; repeat split; reflexivity].
  unfold w_zero_1, w_zero_2.
  apply PF_skip; [|apply PermForest_refl]. apply PT_group. apply PF_swap.
Qed.
