(* Lemmas about Model/Backup.v (property C18). *)
From Coq Require Import List NArith Arith Bool Lia ZifyBool.
From HV Require Import Base.Res Base.Str Model.Backup.
Import ListNotations.

(* ------------------------------------------------------------------ *)
(* Paths and lookups                                                   *)
(* ------------------------------------------------------------------ *)
Lemma path_eqb_spec a b : path_eqb a b = true <-> a = b.
Proof.
  revert b; induction a as [|x a IH]; destruct b as [|y b]; simpl; split; intro H;
    try reflexivity; try discriminate.
  - apply andb_true_iff in H as [H1 H2]. apply str_eqb_spec in H1. apply IH in H2. congruence.
  - inversion H; subst. apply andb_true_iff. split; [apply str_eqb_spec | apply IH]; reflexivity.
Qed.

Lemma path_eqb_refl a : path_eqb a a = true.
Proof. apply path_eqb_spec. reflexivity. Qed.

Lemma path_eqb_neq a b : a <> b -> path_eqb a b = false.
Proof.
  intro H. destruct (path_eqb a b) eqn:E; [|reflexivity]. apply path_eqb_spec in E. contradiction.
Qed.

Lemma path_eqb_false a b : path_eqb a b = false -> a <> b.
Proof. intros H E. subst. rewrite path_eqb_refl in H. discriminate. Qed.

Lemma str_eqb_refl a : str_eqb a a = true.
Proof. apply str_eqb_spec. reflexivity. Qed.

Lemma lookup_set p n f q :
  lookup (set p n f) q = if path_eqb p q then Some n else lookup f q.
Proof. reflexivity. Qed.

Lemma lookup_set_same p n f : lookup (set p n f) p = Some n.
Proof. rewrite lookup_set, path_eqb_refl. reflexivity. Qed.

Lemma lookup_set_other p n f q : p <> q -> lookup (set p n f) q = lookup f q.
Proof. intro H. rewrite lookup_set, path_eqb_neq; auto. Qed.

Lemma lookup_remove p f q :
  lookup (remove p f) q = if path_eqb p q then None else lookup f q.
Proof.
  induction f as [|[r n] f IH]; simpl.
  - destruct (path_eqb p q); reflexivity.
  - destruct (path_eqb r p) eqn:Erp; simpl.
    + apply path_eqb_spec in Erp. subst r. rewrite IH.
      destruct (path_eqb p q); reflexivity.
    + destruct (path_eqb r q) eqn:Erq.
      * apply path_eqb_spec in Erq. subst r.
        assert (path_eqb p q = false) as ->; [|reflexivity].
        apply path_eqb_neq. intro; subst. rewrite path_eqb_refl in Erp. discriminate.
      * apply IH.
Qed.

Lemma strip_app p r : strip p (p ++ r) = Some r.
Proof. induction p as [|x p IH]; simpl; [reflexivity|]. rewrite str_eqb_refl. apply IH. Qed.

Lemma strip_some p q r : strip p q = Some r -> q = p ++ r.
Proof.
  revert q; induction p as [|x p IH]; intros q H; simpl in *.
  - congruence.
  - destruct q as [|y q]; [discriminate|].
    destruct (str_eqb x y) eqn:E; [|discriminate].
    apply str_eqb_spec in E. subst. f_equal. apply IH. exact H.
Qed.

Lemma under_app p r : under p (p ++ r) = true.
Proof. unfold under. rewrite strip_app. reflexivity. Qed.

Lemma under_true p q : under p q = true -> exists r, q = p ++ r.
Proof.
  unfold under. destruct (strip p q) eqn:E; [|discriminate].
  intros _. eexists. apply strip_some. exact E.
Qed.

Lemma under_trans_prefix p q r : under p q = true -> under p (q ++ r) = true.
Proof. intro H. apply under_true in H as [x ->]. rewrite <- app_assoc. apply under_app. Qed.

(* a prefix of a path outside p is outside p *)
Lemma not_under_firstn p q j : under p q = false -> under p (firstn j q) = false.
Proof.
  intro H. destruct (under p (firstn j q)) eqn:E; [|reflexivity].
  rewrite <- (firstn_skipn j q) in H. rewrite under_trans_prefix in H; [discriminate | exact E].
Qed.

(* ------------------------------------------------------------------ *)
(* backup_lock.json: load (dump ks) = ks, and no proper prefix loads   *)
(* ------------------------------------------------------------------ *)
Definition json_ok (s : str) : Prop := Forall (fun c => (32 <= c)%N) s.

Lemma jrun_app st a b :
  jrun st (a ++ b) = match jrun st a with Some st' => jrun st' b | None => None end.
Proof.
  revert st; induction a as [|c a IH]; intro st; simpl; [reflexivity|].
  destruct (jstep st c); [apply IH | reflexivity].
Qed.

Lemma jstep_key_plain acc ks c : (32 <= c)%N -> N.eqb c 34 = false -> N.eqb c 92 = false ->
  jstep (JKey acc, ks) c = Some (JKey (acc ++ [c]), ks).
Proof.
  intros H1 H2 H3. unfold jstep, ch_quote, ch_bslash. rewrite H2, H3.
  assert (N.ltb c 32 = false) as -> by (apply N.ltb_ge; exact H1). reflexivity.
Qed.

Lemma jstep_val_plain ks c : (32 <= c)%N -> N.eqb c 34 = false -> N.eqb c 92 = false ->
  jstep (JVal, ks) c = Some (JVal, ks).
Proof.
  intros H1 H2 H3. unfold jstep, ch_quote, ch_bslash. rewrite H2, H3.
  assert (N.ltb c 32 = false) as -> by (apply N.ltb_ge; exact H1). reflexivity.
Qed.

Lemma jrun_key acc ks k rest :
  json_ok k -> jrun (JKey acc, ks) (esc k ++ rest) = jrun (JKey (acc ++ k), ks) rest.
Proof.
  intro H. revert acc. induction H as [|c k Hc Hk IH]; intro acc.
  - simpl. rewrite app_nil_r. reflexivity.
  - replace (acc ++ c :: k) with ((acc ++ [c]) ++ k) by (rewrite <- app_assoc; reflexivity).
    rewrite <- IH. unfold esc at 1. simpl flat_map. fold (esc k).
    destruct (N.eqb c ch_quote) eqn:E1.
    + apply N.eqb_eq in E1. subst c. reflexivity.
    + destruct (N.eqb c ch_bslash) eqn:E2.
      * apply N.eqb_eq in E2. subst c. reflexivity.
      * simpl orb. cbv iota. simpl app. cbn [jrun]. rewrite jstep_key_plain; auto.
Qed.

Lemma jrun_val ks k rest :
  json_ok k -> jrun (JVal, ks) (esc k ++ rest) = jrun (JVal, ks) rest.
Proof.
  intro H. induction H as [|c k Hc Hk IH].
  - reflexivity.
  - rewrite <- IH. unfold esc at 1. simpl flat_map. fold (esc k).
    destruct (N.eqb c ch_quote) eqn:E1.
    + apply N.eqb_eq in E1. subst c. reflexivity.
    + destruct (N.eqb c ch_bslash) eqn:E2.
      * apply N.eqb_eq in E2. subst c. reflexivity.
      * simpl orb. cbv iota. simpl app. cbn [jrun]. rewrite jstep_val_plain; auto.
Qed.

Definition opener (s : jst) : Prop := s = J1 \/ s = JNext.

Lemma jrun_member s ks ts k rest :
  opener s -> json_ok k -> json_ok ts ->
  jrun (s, ks) (member ts k ++ rest) = jrun (JAfter, ks ++ [k]) rest.
Proof.
  intros Hs Hk Hts. unfold member, indent4, quote.
  assert (H4 : forall r, jrun (s, ks) (ch_space :: ch_space :: ch_space :: ch_space :: ch_quote :: r)
                         = jrun (JKey [], ks) r).
  { intro r. destruct Hs as [-> | ->]; reflexivity. }
  simpl app. rewrite H4.
  rewrite <- !app_assoc. rewrite jrun_key by exact Hk. simpl.
  change (ch_quote :: esc ts ++ [ch_quote]) with ([ch_quote] ++ esc ts ++ [ch_quote]).
  simpl. rewrite <- app_assoc. rewrite jrun_val by exact Hts. reflexivity.
Qed.

Lemma jrun_members ts : json_ok ts -> forall ks' s ks,
  ks' <> [] -> opener s -> Forall json_ok ks' ->
  jrun (s, ks) (members ts ks' ++ [ch_nl; ch_rbrace]) = Some (JEnd, ks ++ ks').
Proof.
  intros Hts. induction ks' as [|k r IH]; intros s ks Hne Hs Hok; [congruence|].
  inversion Hok as [|? ? Hk Hr]; subst.
  destruct r as [|k2 r].
  - simpl members. rewrite jrun_member by assumption. reflexivity.
  - change (members ts (k :: k2 :: r)) with (member ts k ++ [ch_comma; ch_nl] ++ members ts (k2 :: r)).
    rewrite <- !app_assoc. rewrite jrun_member by assumption.
    simpl app at 1. simpl jrun at 1.
    change (jrun (JNext, ks ++ [k]) (ch_nl :: members ts (k2 :: r) ++ [ch_nl; ch_rbrace]))
      with (jrun (JNext, ks ++ [k]) (members ts (k2 :: r) ++ [ch_nl; ch_rbrace])).
    rewrite IH; [| congruence | right; reflexivity | exact Hr].
    rewrite <- app_assoc. reflexivity.
Qed.

Lemma jrun_dump ks ts :
  Forall json_ok ks -> json_ok ts -> jrun (J0, []) (dump ks ts) = Some (JEnd, ks).
Proof.
  intros Hks Hts. destruct ks as [|k r]; [reflexivity|].
  assert (H0 : forall x, jrun (J0, []) ([ch_lbrace; ch_nl] ++ x) = jrun (J1, []) x) by reflexivity.
  unfold dump. rewrite H0.
  rewrite jrun_members; [reflexivity | exact Hts | congruence | left; reflexivity | exact Hks].
Qed.

Lemma load_dump ks ts :
  Forall json_ok ks -> json_ok ts -> load (dump ks ts) = Some ks.
Proof. intros Hks Hts. unfold load. rewrite jrun_dump by assumption. reflexivity. Qed.

Lemma jrun_end_ws ks t st : jrun (JEnd, ks) t = Some st -> Forall (fun c => is_ws c = true) t.
Proof.
  revert ks; induction t as [|c t IH]; intros ks H; [constructor|].
  simpl in H. destruct (is_ws c) eqn:E; [|discriminate].
  constructor; [exact E | eapply IH; exact H].
Qed.

Lemma dump_last ks ts : exists body, dump ks ts = body ++ [ch_rbrace].
Proof.
  destruct ks as [|k r].
  - exists [ch_lbrace]. reflexivity.
  - exists ([ch_lbrace; ch_nl] ++ members ts (k :: r) ++ [ch_nl]).
    unfold dump. rewrite <- !app_assoc. reflexivity.
Qed.

Lemma load_prefix ks ts n :
  Forall json_ok ks -> json_ok ts -> n < length (dump ks ts) ->
  load (firstn n (dump ks ts)) = None.
Proof.
  intros Hks Hts Hn.
  pose proof (jrun_dump ks ts Hks Hts) as Hfull.
  rewrite <- (firstn_skipn n (dump ks ts)) in Hfull. rewrite jrun_app in Hfull.
  unfold load. destruct (jrun (J0, []) (firstn n (dump ks ts))) as [[s ks']|] eqn:E; [|reflexivity].
  destruct s; try reflexivity.
  exfalso. apply jrun_end_ws in Hfull.
  destruct (dump_last ks ts) as [body Hb].
  assert (Hlen : length (skipn n (dump ks ts)) > 0) by (rewrite skipn_length; lia).
  assert (Hin : In ch_rbrace (skipn n (dump ks ts))).
  { rewrite Hb. rewrite Hb in Hn. rewrite app_length in Hn. simpl in Hn.
    rewrite skipn_app. apply in_or_app. right.
    replace (n - length body) with 0 by lia. simpl. left. reflexivity. }
  rewrite Forall_forall in Hfull. apply Hfull in Hin. discriminate.
Qed.

(* ------------------------------------------------------------------ *)
(* Effects that read from a frozen region and write outside it         *)
(* ------------------------------------------------------------------ *)
Lemma read_lookup f p c : read f p = Some c <-> lookup f p = Some (File c).
Proof.
  unfold read. destruct (lookup f p) as [[|b]|]; split; intro H; try discriminate; congruence.
Qed.

Section Frozen.
  Variable R : path -> bool.   (* frozen region: never written *)
  Variable g : path -> path.   (* the source a destination is copied from *)

  Definition okG (e : effect) : Prop :=
    match e with
    | Mkdir p => R p = false
    | Copy s d => R s = true /\ R d = false /\ s = g d
    | Write _ _ => False
    end.

  Lemma R_neq p q : R p = false -> R q = true -> p <> q.
  Proof. intros H1 H2 E. subst. congruence. Qed.

  Lemma apply_frozen e f f' p :
    okG e -> apply e f = Ok f' -> R p = true -> lookup f' p = lookup f p.
  Proof.
    intros Hok Hap Hp. destruct e as [q|s d|q c]; simpl in *.
    - destruct (lookup f q) as [[|b]|] eqn:E; inversion Hap; subst; [reflexivity|].
      apply lookup_set_other. apply R_neq; assumption.
    - destruct Hok as (Hs & Hd & _).
      destruct (lookup f s) as [[|c]|]; try discriminate.
      destruct (lookup f d) as [[|b]|]; inversion Hap; subst;
        apply lookup_set_other; apply R_neq; assumption.
    - contradiction.
  Qed.

  Lemma partial_frozen e k f f' p :
    okG e -> partial e k f = Some f' -> R p = true -> lookup f' p = lookup f p.
  Proof.
    intros Hok Hap Hp. destruct e as [q|s d|q c]; simpl in *.
    - discriminate.
    - destruct Hok as (Hs & Hd & _).
      destruct (lookup f s) as [[|c]|]; try discriminate.
      destruct (lookup f d) as [[|b]|]; try discriminate;
        destruct (k <? length c); inversion Hap; subst;
        apply lookup_set_other; apply R_neq; assumption.
    - contradiction.
  Qed.

  Lemma exec_frozen es : forall f f' r p,
    Forall okG es -> exec f es = (f', r) -> R p = true -> lookup f' p = lookup f p.
  Proof.
    induction es as [|e es IH]; intros f f' r p Hok Hex Hp; simpl in Hex.
    - inversion Hex; subst. reflexivity.
    - inversion Hok as [|? ? He Hes]; subst.
      destruct (apply e f) as [f1|x] eqn:Ea.
      + rewrite (IH _ _ _ _ Hes Hex Hp). eapply apply_frozen; eassumption.
      + inversion Hex; subst. reflexivity.
  Qed.

  Lemma crash_frozen es : forall f i k p,
    Forall okG es -> R p = true -> lookup (crash f es i k) p = lookup f p.
  Proof.
    induction es as [|e es IH]; intros f i k p Hok Hp; simpl; [reflexivity|].
    inversion Hok as [|? ? He Hes]; subst.
    destruct i as [|i].
    - destruct k as [n|]; [|reflexivity].
      destruct (partial e n f) as [f1|] eqn:Ep; [|reflexivity].
      eapply partial_frozen; eassumption.
    - destruct (apply e f) as [f1|x] eqn:Ea; [|reflexivity].
      rewrite IH by assumption. eapply apply_frozen; eassumption.
  Qed.

  (* a completed copy is not disturbed by the remaining effects *)
  Lemma exec_keeps es : forall f f' d c,
    Forall okG es -> exec f es = (f', Ok tt) -> R d = false -> R (g d) = true ->
    read f d = Some c -> read f (g d) = Some c -> read f' d = Some c.
  Proof.
    induction es as [|e es IH]; intros f f' d c Hok Hex Hd Hgd Hrd Hrs; simpl in Hex.
    - inversion Hex; subst. exact Hrd.
    - inversion Hok as [|? ? He Hes]; subst.
      destruct (apply e f) as [f1|x] eqn:Ea; [|discriminate].
      apply (IH f1 f' d c Hes Hex Hd Hgd).
      + (* read f1 d *)
        apply read_lookup in Hrd.
        destruct e as [q|s d2|q c2]; simpl in Ea, He.
        * destruct (lookup f q) as [[|b]|] eqn:E; inversion Ea; subst.
          -- apply read_lookup. exact Hrd.
          -- apply read_lookup. rewrite lookup_set_other; [exact Hrd|].
             intro; subst. congruence.
        * destruct He as (Hs & Hd2 & Hg).
          destruct (lookup f s) as [[|cs]|] eqn:Es; try discriminate.
          assert (Hset : f1 = set d2 (File cs) f).
          { destruct (lookup f d2) as [[|b]|]; inversion Ea; reflexivity. }
          subst f1. apply read_lookup. rewrite lookup_set.
          destruct (path_eqb d2 d) eqn:Ed.
          -- apply path_eqb_spec in Ed. subst d2. subst s.
             apply read_lookup in Hrs. congruence.
          -- exact Hrd.
        * contradiction.
      + (* read f1 (g d) *)
        apply read_lookup. rewrite (apply_frozen e f f1 (g d) He Ea Hgd).
        apply read_lookup. exact Hrs.
  Qed.

  Lemma exec_copies es : forall f f',
    Forall okG es -> exec f es = (f', Ok tt) ->
    forall s d, In (Copy s d) es -> exists c, read f s = Some c /\ read f' d = Some c.
  Proof.
    induction es as [|e es IH]; intros f f' Hok Hex s d Hin; [contradiction|].
    simpl in Hex. inversion Hok as [|? ? He Hes]; subst.
    destruct (apply e f) as [f1|x] eqn:Ea; [|discriminate].
    destruct Hin as [-> | Hin].
    - simpl in Ea, He. destruct He as (Hs & Hd & Hg).
      destruct (lookup f s) as [[|cs]|] eqn:Es; try discriminate.
      exists cs. split; [apply read_lookup; exact Es|].
      assert (Hset : f1 = set d (File cs) f).
      { destruct (lookup f d) as [[|b]|]; inversion Ea; reflexivity. }
      subst f1. apply (exec_keeps es _ f' d cs Hes Hex Hd).
      + rewrite <- Hg. exact Hs.
      + apply read_lookup. apply lookup_set_same.
      + apply read_lookup. rewrite lookup_set_other.
        * rewrite <- Hg. exact Es.
        * apply R_neq; [exact Hd | rewrite <- Hg; exact Hs].
    - destruct (IH f1 f' Hes Hex s d Hin) as (c & H1 & H2).
      exists c. split; [|exact H2].
      assert (HRs : R s = true).
      { rewrite Forall_forall in Hes. apply Hes in Hin. simpl in Hin. tauto. }
      apply read_lookup. rewrite <- (apply_frozen e f f1 s He Ea HRs). apply read_lookup. exact H1.
  Qed.
End Frozen.

(* ------------------------------------------------------------------ *)
(* File keys                                                           *)
(* ------------------------------------------------------------------ *)
(* a directory or file name as the file system can hold it and the model covers it: not
   empty, not "." or "..", no '/', no control characters.  Names that merely START with
   a period (".orig", "..x", ".a.b"), contain blanks or are long are ordinary names. *)
Definition valid_comp (c : str) : Prop :=
  c <> [] /\ c <> [ch_dot] /\ ~ In ch_slash c /\ json_ok c /\ c <> [ch_dot; ch_dot].
Definition valid_file (f : path) : Prop := f <> [] /\ Forall valid_comp f.

Lemma split_nosep c s : ~ In c s -> split_on c s = [s].
Proof.
  induction s as [|x s IH]; intro H; simpl; [reflexivity|].
  destruct (N.eqb x c) eqn:E.
  - apply N.eqb_eq in E. subst. exfalso. apply H. left. reflexivity.
  - rewrite IH; [reflexivity|]. intro Hin. apply H. right. exact Hin.
Qed.

Lemma split_app c a r : ~ In c a -> split_on c (a ++ c :: r) = a :: split_on c r.
Proof.
  induction a as [|x a IH]; intro H; simpl.
  - rewrite N.eqb_refl. reflexivity.
  - destruct (N.eqb x c) eqn:E.
    + apply N.eqb_eq in E. subst. exfalso. apply H. left. reflexivity.
    + rewrite IH; [reflexivity|]. intro Hin. apply H. right. exact Hin.
Qed.

Lemma split_join l :
  l <> [] -> Forall (fun s => ~ In ch_slash s) l -> split_on ch_slash (join slash l) = l.
Proof.
  induction l as [|x l IH]; intros Hne H; [congruence|].
  inversion H as [|? ? Hx Hl]; subst.
  destruct l as [|y l].
  - simpl. apply split_nosep. exact Hx.
  - change (join slash (x :: y :: l)) with (x ++ slash ++ join slash (y :: l)).
    unfold slash at 1. simpl app. rewrite split_app by exact Hx.
    f_equal. apply IH; [congruence | exact Hl].
Qed.

Lemma filter_all {A} (p : A -> bool) l : Forall (fun x => p x = true) l -> filter p l = l.
Proof.
  induction l as [|x l IH]; intro H; simpl; [reflexivity|].
  inversion H; subst. rewrite H2. f_equal. apply IH. assumption.
Qed.

Lemma str_eqb_neq a b : a <> b -> str_eqb a b = false.
Proof.
  intro H. destruct (str_eqb a b) eqn:E; [|reflexivity]. apply str_eqb_spec in E. contradiction.
Qed.

Lemma key_path_file_key f : valid_file f -> key_path (get_file_key f) = f.
Proof.
  intros [Hne Hv]. unfold key_path, get_file_key.
  rewrite split_join.
  - apply filter_all. eapply Forall_impl; [|exact Hv].
    intros c (H1 & H2 & _). simpl. rewrite !str_eqb_neq by assumption. reflexivity.
  - exact Hne.
  - eapply Forall_impl; [|exact Hv]. intros c (_ & _ & H & _). exact H.
Qed.

Lemma json_ok_app a b : json_ok a -> json_ok b -> json_ok (a ++ b).
Proof. intros. apply Forall_app. split; assumption. Qed.

Lemma json_ok_file_key f : Forall valid_comp f -> json_ok (get_file_key f).
Proof.
  unfold get_file_key. induction f as [|x f IH]; intro H; [constructor|].
  inversion H as [|? ? Hx Hf]; subst. destruct Hx as (_ & _ & _ & Hx & _).
  destruct f as [|y f]; [exact Hx|].
  change (join slash (x :: y :: f)) with (x ++ slash ++ join slash (y :: f)).
  apply json_ok_app; [exact Hx|]. apply json_ok_app; [|apply IH; exact Hf].
  constructor; [|constructor]. unfold ch_slash. lia.
Qed.

Lemma mem_str_spec s l : mem_str s l = true <-> In s l.
Proof.
  induction l as [|x l IH]; simpl; split; intro H; try discriminate; try contradiction.
  - apply orb_true_iff in H as [H|H]; [left; apply str_eqb_spec; exact H | right; apply IH; exact H].
  - apply orb_true_iff. destruct H as [->|H]; [left; apply str_eqb_refl | right; apply IH; exact H].
Qed.

Lemma keys_of_in files : forall acc k,
  In k (keys_of files acc) -> In k acc \/ exists f, In f files /\ k = get_file_key f.
Proof.
  induction files as [|f r IH]; intros acc k H; simpl in H; [left; exact H|].
  apply IH in H as [H | (f' & Hf & ->)].
  - destruct (mem_str (get_file_key f) acc); [left; exact H|].
    apply in_app_or in H as [H|[<-|[]]]; [left; exact H|].
    right. exists f. split; [left|]; reflexivity.
  - right. exists f'. split; [right; exact Hf | reflexivity].
Qed.

Lemma keys_of_complete files : forall acc f,
  In f files -> In (get_file_key f) (keys_of files acc).
Proof.
  assert (Hmono : forall files acc k, In k acc -> In k (keys_of files acc)).
  { induction files0 as [|f r IH]; intros acc k H; simpl; [exact H|].
    apply IH. destruct (mem_str (get_file_key f) acc); [exact H|]. apply in_or_app. left. exact H. }
  induction files as [|f r IH]; intros acc f' H; [contradiction|].
  simpl. destruct H as [->|H]; [|apply IH; exact H].
  apply Hmono. destruct (mem_str (get_file_key f') acc) eqn:E.
  - apply mem_str_spec. exact E.
  - apply in_or_app. right. left. reflexivity.
Qed.

(* ------------------------------------------------------------------ *)
(* get_backups / check_one inversion                                   *)
(* ------------------------------------------------------------------ *)
Lemma check_one_ok_inv f b rec :
  check_one f b = Ok rec ->
  exists c, lookup f (backup_lock b) = Some (File c) /\ load c = Some rec.
Proof.
  unfold check_one, check_backup_consistency.
  destruct (negb (isdir f (backup_dir b))); [discriminate|].
  destruct (negb (length (listdir f (backup_dir b)) =? 2)); [discriminate|].
  destruct (negb (exists_ f (backup_lock b))); [discriminate|].
  destruct (negb (isdir f (backup_root b))); [discriminate|].
  destruct (lookup f (backup_lock b)) as [[|c]|]; try discriminate.
  destruct (load c) as [keys|] eqn:El; [|discriminate].
  simpl. destruct (diff_paths _ _); [|discriminate].
  destruct (diff_paths _ _); [|discriminate].
  intro H. inversion H; subst. exists c. split; [reflexivity | exact El].
Qed.

Lemma get_backups_loop_inv f b rec : forall bs m,
  get_backups_loop f bs = Ok m -> mgr_get m b = Some rec -> check_one f b = Ok rec.
Proof.
  induction bs as [|x bs IH]; intros m H Hg; simpl in H.
  - inversion H; subst. discriminate.
  - destruct (check_one f x) as [ks|] eqn:Ec; [|discriminate]. simpl in H.
    destruct (get_backups_loop f bs) as [m'|] eqn:El; [|discriminate]. simpl in H.
    inversion H; subst. simpl in Hg.
    destruct (str_eqb x b) eqn:E.
    + apply str_eqb_spec in E. subst. congruence.
    + eapply IH; [reflexivity | exact Hg].
Qed.

Lemma get_backups_inv f b m rec :
  get_backups f = Ok m -> mgr_get m b = Some rec -> check_one f b = Ok rec.
Proof.
  unfold get_backups. destruct (negb (isdir f backups_path)); [discriminate|].
  apply get_backups_loop_inv.
Qed.

(* ------------------------------------------------------------------ *)
(* Crash points of a concatenated trace                                *)
(* ------------------------------------------------------------------ *)
Lemma crash_app a : forall f r i k,
  crash f (a ++ r) i k =
  if i <? length a then crash f a i k
  else match exec f a with
       | (f1, Ok _) => crash f1 r (i - length a) k
       | (f1, Exn _) => f1
       end.
Proof.
  induction a as [|e a IH]; intros f r i k.
  - simpl. rewrite Nat.sub_0_r. reflexivity.
  - destruct i as [|i].
    + reflexivity.
    + simpl app. cbn [crash exec length]. change (S i <? S (length a)) with (i <? length a).
      destruct (apply e f) as [f1|x] eqn:Ea.
      * rewrite IH. reflexivity.
      * destruct (i <? length a); reflexivity.
Qed.

(* ------------------------------------------------------------------ *)
(* create_backup: crash consistency and completeness                   *)
(* ------------------------------------------------------------------ *)
Lemma backup_root_eq b r : backup_root b ++ r = backup_dir b ++ s_backup_root :: r.
Proof. unfold backup_root. rewrite <- app_assoc. reflexivity. Qed.

Lemma backup_lock_eq b : backup_lock b = backup_dir b ++ [s_backup_lock].
Proof. reflexivity. Qed.

Lemma under_dir_root b r : under (backup_dir b) (backup_root b ++ r) = true.
Proof. rewrite backup_root_eq. apply under_app. Qed.

Lemma under_dir_lock b : under (backup_dir b) (backup_lock b) = true.
Proof. rewrite backup_lock_eq. apply under_app. Qed.

Lemma under_dir_self b : under (backup_dir b) (backup_dir b) = true.
Proof. rewrite <- (app_nil_r (backup_dir b)) at 2. apply under_app. Qed.

Lemma root_neq_lock b r : backup_root b ++ r <> backup_lock b.
Proof.
  rewrite backup_root_eq, backup_lock_eq. intro H. apply app_inv_head in H.
  inversion H.
Qed.

Lemma dir_neq_lock b : backup_dir b <> backup_lock b.
Proof.
  rewrite backup_lock_eq. intro H. rewrite <- (app_nil_r (backup_dir b)) in H at 1.
  apply app_inv_head in H. discriminate.
Qed.

Lemma in_mkdirs e base rel : In e (mkdirs base rel) -> exists j, e = Mkdir (base ++ firstn j rel).
Proof.
  unfold mkdirs. intro H. apply in_map_iff in H as (j & <- & _). exists j. reflexivity.
Qed.

Section Create.
  Variable b : name.
  Variable files : list path.
  Variable ts : str.
  Variable f0 : fs.
  Hypothesis fresh : forall p, under (backup_dir b) p = true -> lookup f0 p = None.
  Hypothesis outside : Forall (fun f => under (backup_dir b) f = false) files.
  Hypothesis valid : Forall valid_file files.
  Hypothesis ts_ok : json_ok ts.

  (* frozen while the copies are made: everything outside the backup's
     directory, and the record path *)
  Definition Rc (p : path) : bool := negb (under (backup_dir b) p) || path_eqb p (backup_lock b).
  Definition gc (d : path) : path :=
    match strip (backup_root b) d with Some s => s | None => [] end.

  Lemma Rc_root r : Rc (backup_root b ++ r) = false.
  Proof.
    unfold Rc. rewrite under_dir_root. rewrite path_eqb_neq by apply root_neq_lock. reflexivity.
  Qed.

  Lemma gbp_valid f : valid_file f -> get_backup_path b f = backup_root b ++ f.
  Proof. intro H. unfold get_backup_path. rewrite key_path_file_key by exact H. reflexivity. Qed.

  Lemma copies_ok : Forall (okG Rc gc) (copies_part b files).
  Proof.
    unfold copies_part. apply Forall_app. split.
    - constructor; [|constructor; [|constructor]]; simpl.
      + unfold Rc. rewrite under_dir_self. rewrite path_eqb_neq by apply dir_neq_lock. reflexivity.
      + rewrite <- (app_nil_r (backup_root b)). apply Rc_root.
    - apply Forall_forall. intros e He. apply in_flat_map in He as (f & Hf & He).
      pose proof (proj1 (Forall_forall _ _) valid f Hf) as Hv.
      pose proof (proj1 (Forall_forall _ _) outside f Hf) as Ho. cbv beta in Ho.
      unfold copy_effects in He. apply in_app_or in He as [He | [<- | []]].
      + apply in_mkdirs in He as (j & ->). simpl. apply Rc_root.
      + simpl. rewrite gbp_valid by exact Hv. repeat split.
        * unfold Rc. rewrite Ho. reflexivity.
        * apply Rc_root.
        * unfold gc. rewrite strip_app. reflexivity.
  Qed.

  Lemma Rc_lock : Rc (backup_lock b) = true.
  Proof. unfold Rc. rewrite path_eqb_refl. apply orb_true_r. Qed.

  Lemma keys_json_ok : Forall json_ok (keys_of files []).
  Proof.
    apply Forall_forall. intros k Hk. apply keys_of_in in Hk as [[] | (f & Hf & ->)].
    apply json_ok_file_key. apply (proj1 (Forall_forall _ _) valid f Hf).
  Qed.

  Lemma copy_in_copies f : In f files -> In (Copy f (backup_root b ++ f)) (copies_part b files).
  Proof.
    intro Hf. unfold copies_part. apply in_or_app. right. apply in_flat_map.
    exists f. split; [exact Hf|]. unfold copy_effects. apply in_or_app. right. left.
    rewrite gbp_valid by (apply (proj1 (Forall_forall _ _) valid f Hf)). reflexivity.
  Qed.

  (* every recorded key has its file complete, given all copies ran *)
  Lemma copies_complete f1 :
    exec f0 (copies_part b files) = (f1, Ok tt) ->
    forall k, In k (keys_of files []) ->
      exists c, read f0 (key_path k) = Some c /\ read f1 (backup_root b ++ key_path k) = Some c.
  Proof.
    intros Hex k Hk. apply keys_of_in in Hk as [[] | (f & Hf & ->)].
    rewrite key_path_file_key by (apply (proj1 (Forall_forall _ _) valid f Hf)).
    eapply exec_copies; [apply copies_ok | exact Hex | apply copy_in_copies; exact Hf].
  Qed.

  Definition listed_complete (f' : fs) : Prop :=
    forall m rec, get_backups f' = Ok m -> mgr_get m b = Some rec ->
      rec = keys_of files [] /\
      forall k, In k rec ->
        exists c, read f0 (key_path k) = Some c /\ read f' (backup_root b ++ key_path k) = Some c.

  Lemma no_lock_not_listed f' :
    lookup f' (backup_lock b) = None -> listed_complete f'.
  Proof.
    intros Hl m rec Hg Hm. exfalso.
    apply (get_backups_inv _ _ _ _ Hg) in Hm. apply check_one_ok_inv in Hm as (c & Hc & _).
    congruence.
  Qed.

  Lemma crash_consistent_lemma : forall i k,
    listed_complete (crash f0 (create_effects b files ts) i k).
  Proof.
    intros i k.
    change (create_effects b files ts)
      with (copies_part b files ++ [Write (backup_lock b) (dump (keys_of files []) ts)]).
    rewrite crash_app.
    pose proof (fresh _ (under_dir_lock b)) as Hl0.
    destruct (i <? length (copies_part b files)).
    { apply no_lock_not_listed. rewrite (crash_frozen Rc gc); [exact Hl0 | apply copies_ok | apply Rc_lock]. }
    destruct (exec f0 (copies_part b files)) as [f1 r] eqn:Hex.
    assert (Hl1 : lookup f1 (backup_lock b) = None).
    { rewrite (exec_frozen Rc gc _ _ _ _ _ copies_ok Hex Rc_lock). exact Hl0. }
    destruct r as [[]|x]; [|apply no_lock_not_listed; exact Hl1].
    set (d := dump (keys_of files []) ts).
    destruct (i - length (copies_part b files)) as [|j]; cbn [crash].
    - destruct k as [n|]; [|apply no_lock_not_listed; exact Hl1].
      cbn [partial]. rewrite Hl1.
      destruct (n <? length d) eqn:En; [|apply no_lock_not_listed; exact Hl1].
      intros m rec Hg Hm. exfalso.
      apply (get_backups_inv _ _ _ _ Hg) in Hm. apply check_one_ok_inv in Hm as (c & Hc & Hload).
      rewrite lookup_set_same in Hc. inversion Hc; subst c.
      unfold d in Hload. rewrite load_prefix in Hload; [discriminate | apply keys_json_ok | exact ts_ok |].
      apply Nat.ltb_lt in En. exact En.
    - cbn [apply]. rewrite Hl1. cbn [crash].
      intros m rec Hg Hm.
      apply (get_backups_inv _ _ _ _ Hg) in Hm. apply check_one_ok_inv in Hm as (c & Hc & Hload).
      rewrite lookup_set_same in Hc. inversion Hc; subst c.
      unfold d in Hload. rewrite load_dump in Hload by (apply keys_json_ok || exact ts_ok).
      inversion Hload; subst rec. split; [reflexivity|].
      intros k0 Hk0. destruct (copies_complete f1 Hex k0 Hk0) as (c & H1 & H2).
      exists c. split; [exact H1|].
      apply read_lookup. rewrite lookup_set_other; [apply read_lookup; exact H2|].
      intro E. symmetry in E. revert E. apply root_neq_lock.
  Qed.

  (* the run to completion, as create_backup performs it *)
  Lemma fresh_not_exists : exists_ f0 (backup_dir b) = false.
  Proof. unfold exists_. rewrite (fresh _ (under_dir_self b)). reflexivity. Qed.

  Lemma create_backup_complete fx m f2 m2 :
    mgr_get m b = None ->
    create_backup fx m f0 files b ts = (f2, m2, Ok true) ->
    mgr_get m2 b = Some (keys_of files []) /\
    read f2 (backup_lock b) = Some (dump (keys_of files []) ts) /\
    (forall p, under (backup_dir b) p = false -> lookup f2 p = lookup f0 p) /\
    forall f, In f files ->
      exists c, read f0 f = Some c /\ read f2 (backup_root b ++ f) = Some c.
  Proof.
    intros Hm Hc. unfold create_backup in Hc. rewrite Hm in Hc.
    rewrite fresh_not_exists, andb_false_r in Hc.
    destruct (exec f0 (copies_part b files)) as [f1 r] eqn:Hex.
    destruct r as [[]|x]; [|inversion Hc].
    pose proof (fresh _ (under_dir_lock b)) as Hl0.
    assert (Hl1 : lookup f1 (backup_lock b) = None).
    { rewrite (exec_frozen Rc gc _ _ _ _ _ copies_ok Hex Rc_lock). exact Hl0. }
    cbn [apply] in Hc. rewrite Hl1 in Hc. inversion Hc; subst f2 m2. clear Hc.
    split; [|split; [|split]].
    - unfold mgr_set. simpl. rewrite str_eqb_refl. reflexivity.
    - apply read_lookup. apply lookup_set_same.
    - intros p Hp. rewrite lookup_set_other.
      + apply (exec_frozen Rc gc _ _ _ _ _ copies_ok Hex). unfold Rc. rewrite Hp. reflexivity.
      + intro E. subst p. rewrite under_dir_lock in Hp. discriminate.
    - intros f Hf.
      destruct (exec_copies Rc gc _ _ _ copies_ok Hex _ _ (copy_in_copies f Hf)) as (c & H1 & H2).
      exists c. split; [exact H1|].
      apply read_lookup. rewrite lookup_set_other; [apply read_lookup; exact H2|].
      intro E. symmetry in E. revert E. apply root_neq_lock.
  Qed.
End Create.

(* never overwritten: a listed name makes create_backup a no-op (both versions) *)
Lemma never_overwritten_listed fx m f files b ts ks :
  mgr_get m b = Some ks -> create_backup fx m f files b ts = (f, m, Ok false).
Proof. intro H. unfold create_backup. rewrite H. reflexivity. Qed.

(* the current code (after fix commit fb42f68): whatever the manager's dictionary says, a name that exists on
   disk (as a directory, a file, a half-made backup) is refused without any effect *)
Lemma never_overwritten_lemma m f files b ts :
  exists_ f (backup_dir b) = true -> create_backup true m f files b ts = (f, m, Ok false).
Proof.
  intro H. unfold create_backup. destruct (mgr_get m b); [reflexivity|]. rewrite H. reflexivity.
Qed.

Lemma check_one_ok_dir f b rec : check_one f b = Ok rec -> exists_ f (backup_dir b) = true.
Proof.
  unfold check_one, isdir, exists_.
  destruct (lookup f (backup_dir b)) as [[|c]|]; simpl; try discriminate. reflexivity.
Qed.

(* ... in particular every backup that a fresh manager would list, for ANY (possibly
   stale) manager object [m] *)
Lemma never_overwritten_listed_on_disk m f files b ts mdisk rec :
  get_backups f = Ok mdisk -> mgr_get mdisk b = Some rec ->
  create_backup true m f files b ts = (f, m, Ok false).
Proof.
  intros Hg Hm. apply never_overwritten_lemma.
  eapply check_one_ok_dir. eapply get_backups_inv; eassumption.
Qed.

(* existence is monotone along a trace and its crash points *)
Lemma apply_exists e f f' p : apply e f = Ok f' -> exists_ f p = true -> exists_ f' p = true.
Proof.
  unfold exists_. intros Ha Hp. destruct e as [q|s d|q c]; simpl in Ha.
  - destruct (lookup f q) as [[|x]|] eqn:E; inversion Ha; subst; [exact Hp|].
    rewrite lookup_set. destruct (path_eqb q p); [reflexivity | exact Hp].
  - destruct (lookup f s) as [[|cs]|]; try discriminate.
    destruct (lookup f d) as [[|x]|]; inversion Ha; subst;
      rewrite lookup_set; destruct (path_eqb d p); try reflexivity; exact Hp.
  - destruct (lookup f q) as [[|x]|]; inversion Ha; subst;
      rewrite lookup_set; destruct (path_eqb q p); try reflexivity; exact Hp.
Qed.

Lemma partial_exists e k f f' p : partial e k f = Some f' -> exists_ f p = true -> exists_ f' p = true.
Proof.
  unfold exists_. intros Ha Hp. destruct e as [q|s d|q c]; simpl in Ha.
  - discriminate.
  - destruct (lookup f s) as [[|cs]|]; try discriminate.
    destruct (lookup f d) as [[|x]|]; try discriminate;
      destruct (k <? length cs); inversion Ha; subst;
      rewrite lookup_set; destruct (path_eqb d p); try reflexivity; exact Hp.
  - destruct (lookup f q) as [[|x]|]; try discriminate;
      destruct (k <? length c); inversion Ha; subst;
      rewrite lookup_set; destruct (path_eqb q p); try reflexivity; exact Hp.
Qed.

Lemma crash_exists es : forall f i k p,
  exists_ f p = true -> exists_ (crash f es i k) p = true.
Proof.
  induction es as [|e es IH]; intros f i k p Hp; simpl; [exact Hp|].
  destruct i as [|i].
  - destruct k as [n|]; [|exact Hp].
    destruct (partial e n f) as [f1|] eqn:Ep; [|exact Hp]. eapply partial_exists; eassumption.
  - destruct (apply e f) as [f1|x] eqn:Ea; [|exact Hp].
    apply IH. eapply apply_exists; eassumption.
Qed.

Lemma crash_cons_S e r f f1 i k :
  apply e f = Ok f1 -> crash f (e :: r) (S i) k = crash f1 r i k.
Proof. intro H. simpl. rewrite H. reflexivity. Qed.

(* After ANY crash of create_backup, a later create_backup of the same name by ANY
   manager object (current code, after fix commit fb42f68) either finds the untouched initial state
   (nothing had happened yet) or refuses without any effect: a half-made
   backups/<name> is never completed, overwritten or made valid behind the
   constructor's back. *)
Lemma crash_then_create_lemma b files ts f0 :
  (forall p, under (backup_dir b) p = true -> lookup f0 p = None) ->
  forall i k m files' ts',
    let fc := crash f0 (create_effects b files ts) i k in
    fc = f0 \/ create_backup true m fc files' b ts' = (fc, m, Ok false).
Proof.
  intros Hfresh i k m files' ts' fc. subst fc.
  destruct i as [|i].
  - left. unfold create_effects. simpl. destruct k; reflexivity.
  - right. apply never_overwritten_lemma.
    unfold create_effects. cbn [app].
    rewrite (crash_cons_S _ _ f0 (set (backup_dir b) Dir f0)).
    + apply crash_exists. unfold exists_. rewrite lookup_set_same. reflexivity.
    + cbn [apply]. rewrite (Hfresh _ (under_dir_self b)). reflexivity.
Qed.

(* ------------------------------------------------------------------ *)
(* restore_backup                                                      *)
(* ------------------------------------------------------------------ *)
Definition etarget (e : effect) : path :=
  match e with Mkdir p => p | Copy _ d => d | Write p _ => p end.

Lemma apply_other e f f' p :
  apply e f = Ok f' -> etarget e <> p -> lookup f' p = lookup f p.
Proof.
  intros Ha Hne. destruct e as [q|s d|q c]; simpl in *.
  - destruct (lookup f q) as [[|x]|]; inversion Ha; subst; [reflexivity|].
    apply lookup_set_other. exact Hne.
  - destruct (lookup f s) as [[|cs]|]; try discriminate.
    destruct (lookup f d) as [[|x]|]; inversion Ha; subst; apply lookup_set_other; exact Hne.
  - destruct (lookup f q) as [[|x]|]; inversion Ha; subst; apply lookup_set_other; exact Hne.
Qed.

Lemma exec_touches es : forall f f' r p,
  exec f es = (f', r) -> (forall e, In e es -> etarget e <> p) -> lookup f' p = lookup f p.
Proof.
  induction es as [|e es IH]; intros f f' r p Hex Hne; simpl in Hex.
  - inversion Hex; subst. reflexivity.
  - destruct (apply e f) as [f1|x] eqn:Ea.
    + rewrite (IH _ _ _ _ Hex) by (intros e' He'; apply Hne; right; exact He').
      eapply apply_other; [exact Ea | apply Hne; left; reflexivity].
    + inversion Hex; subst. reflexivity.
Qed.

Definition is_prefix (p q : path) : Prop := exists j, p = firstn j q.

Lemma removelast_firstn_prefix j (d : path) : is_prefix (firstn j (removelast d)) d.
Proof.
  rewrite removelast_firstn_len. rewrite firstn_firstn. eexists. reflexivity.
Qed.

Lemma restore_one_targets b tasks k e :
  In e (restore_one b tasks k) ->
  (tasks = [] \/ task_selected tasks (backup_root b ++ key_path k) = true) /\
  is_prefix (etarget e) (key_path k) /\
  (forall s d, e = Copy s d -> s = backup_root b ++ key_path k /\ d = key_path k).
Proof.
  unfold restore_one. intro H.
  assert (Hgen : In e (mkdirs [] (removelast (key_path k)) ++
                       [Copy (backup_root b ++ key_path k) (key_path k)]) ->
                 is_prefix (etarget e) (key_path k) /\
                 (forall s d, e = Copy s d -> s = backup_root b ++ key_path k /\ d = key_path k)).
  { intro Hin. apply in_app_or in Hin as [Hin | [<- | []]].
    - apply in_mkdirs in Hin as (j & ->). simpl. split; [apply removelast_firstn_prefix|].
      intros s d E. discriminate.
    - simpl. split.
      + exists (length (key_path k)). symmetry. apply firstn_all.
      + intros s d E. inversion E; subst. split; reflexivity. }
  destruct tasks as [|t tasks].
  - split; [left; reflexivity | apply Hgen; exact H].
  - destruct (task_selected (t :: tasks) (backup_root b ++ key_path k)) eqn:Eg; [|contradiction].
    split; [right; reflexivity | apply Hgen; exact H].
Qed.

Lemma restore_touches_only_lemma m f b tasks f' r p :
  restore_backup m f b tasks = (f', r) ->
  (forall keys k, mgr_get m b = Some keys -> In k keys ->
     (tasks = [] \/ task_selected tasks (backup_root b ++ key_path k) = true) ->
     ~ is_prefix p (key_path k)) ->
  lookup f' p = lookup f p.
Proof.
  unfold restore_backup. intros Hr Hno.
  destruct (mgr_get m b) as [keys|] eqn:Em; [|inversion Hr; subst; reflexivity].
  destruct keys as [|k0 keys0] eqn:Ek; [inversion Hr; subst; reflexivity|].
  rewrite <- Ek in *. clear Ek.
  eapply exec_touches; [exact Hr|].
  intros e He. unfold restore_effects in He. apply in_flat_map in He as (k & Hk & He).
  apply restore_one_targets in He as (Ht & Hp & _).
  intro E. subst p. eapply Hno; [reflexivity | exact Hk | exact Ht | exact Hp].
Qed.

Lemma uops_frozen b us : forall f p,
  Forall (fun u => under (backup_dir b) (utarget u) = false) us ->
  under (backup_dir b) p = true ->
  lookup (fold_left (fun f u => uapply u f) us f) p = lookup f p.
Proof.
  induction us as [|u us IH]; intros f p Hu Hp; simpl; [reflexivity|].
  inversion Hu as [|? ? H1 H2]; subst. rewrite IH by assumption.
  assert (Hne : utarget u <> p) by (intro E; subst; congruence).
  destruct u as [q c|q|q]; simpl in *.
  - apply lookup_set_other. exact Hne.
  - rewrite lookup_remove. rewrite path_eqb_neq by exact Hne. reflexivity.
  - apply lookup_set_other. exact Hne.
Qed.

Lemma restore_effects_ok b files :
  Forall valid_file files ->
  Forall (fun f => under (backup_dir b) f = false) files ->
  Forall (okG (fun p => under (backup_dir b) p) (fun d => backup_root b ++ d))
         (restore_effects b [] (keys_of files [])).
Proof.
  intros Hv Ho. apply Forall_forall. intros e He.
  unfold restore_effects in He. apply in_flat_map in He as (k & Hk & He).
  apply keys_of_in in Hk as [[] | (f & Hf & ->)].
  pose proof (proj1 (Forall_forall _ _) Hv f Hf) as Hvf.
  pose proof (proj1 (Forall_forall _ _) Ho f Hf) as Hof. cbv beta in Hof.
  unfold restore_one in He. rewrite key_path_file_key in He by exact Hvf.
  apply in_app_or in He as [He | [<- | []]].
  - apply in_mkdirs in He as (j & ->). simpl.
    rewrite removelast_firstn_len, firstn_firstn. apply not_under_firstn. exact Hof.
  - simpl. repeat split; [apply under_dir_root | exact Hof].
Qed.

Lemma restore_identical_lemma fx b files ts f0 m f1 m1 us f3 :
  (forall p, under (backup_dir b) p = true -> lookup f0 p = None) ->
  Forall (fun f => under (backup_dir b) f = false) files ->
  Forall valid_file files -> json_ok ts ->
  mgr_get m b = None ->
  create_backup fx m f0 files b ts = (f1, m1, Ok true) ->
  Forall (fun u => under (backup_dir b) (utarget u) = false) us ->
  restore_backup m1 (fold_left (fun f u => uapply u f) us f1) b [] = (f3, Ok tt) ->
  forall f, In f files -> exists c, read f0 f = Some c /\ read f3 f = Some c.
Proof.
  intros Hfresh Hout Hval Hts Hm Hc Hus Hr f Hf.
  destruct (create_backup_complete b files ts f0 Hfresh Hout Hval fx m f1 m1 Hm Hc)
    as (Hm1 & _ & _ & Hfiles).
  unfold restore_backup in Hr. rewrite Hm1 in Hr.
  destruct (keys_of files []) as [|k0 ks0] eqn:Ek; [discriminate|]. rewrite <- Ek in Hr.
  set (f2 := fold_left (fun f u => uapply u f) us f1) in *.
  assert (Hin : In (Copy (backup_root b ++ f) f) (restore_effects b [] (keys_of files []))).
  { unfold restore_effects. apply in_flat_map. exists (get_file_key f).
    split; [apply keys_of_complete; exact Hf|].
    unfold restore_one. rewrite key_path_file_key by (apply (proj1 (Forall_forall _ _) Hval f Hf)).
    apply in_or_app. right. left. reflexivity. }
  destruct (exec_copies _ _ _ _ _ (restore_effects_ok b files Hval Hout) Hr _ _ Hin) as (c & H1 & H2).
  destruct (Hfiles f Hf) as (c' & H3 & H4).
  exists c. split; [|exact H2].
  unfold f2 in H1. apply read_lookup in H1.
  rewrite (uops_frozen b us f1 _ Hus (under_dir_root b f)) in H1.
  apply read_lookup in H1. congruence.
Qed.

(* ------------------------------------------------------------------ *)
(* run_remodel twice = once                                            *)
(* ------------------------------------------------------------------ *)
Inductive kind := KD | KF.
Definition node_kind (n : node) : kind := match n with Dir => KD | File _ => KF end.
Definition kind_at (f : fs) (p : path) : option kind := option_map node_kind (lookup f p).

Definition rtarget (e : reffect) : path :=
  match e with Plain e => etarget e | Transform _ d => d end.
Definition rsrc (e : reffect) : option path :=
  match e with Plain (Copy s _) => Some s | Transform s _ => Some s | _ => None end.
Definition out_kind (e : reffect) : kind :=
  match e with Plain (Mkdir _) => KD | _ => KF end.

Section Idem.
  Variable op : str -> str.
  Variable R : path -> bool.      (* the backup region: read, never written *)

  Definition okP (e : reffect) : Prop :=
    R (rtarget e) = false /\ match rsrc e with Some s => R s = true | None => True end.

  Definition content (f : fs) (s : path) : str :=
    match lookup f s with Some (File c) => c | _ => [] end.
  Definition val (f : fs) (e : reffect) : node :=
    match e with
    | Plain (Mkdir _) => Dir
    | Plain (Copy s _) => File (content f s)
    | Plain (Write _ c) => File c
    | Transform s _ => File (op (content f s))
    end.

  Lemma rapply_spec e f f' :
    rapply op e f = Ok f' ->
    lookup f' (rtarget e) = Some (val f e) /\
    (forall p, rtarget e <> p -> lookup f' p = lookup f p) /\
    (forall K, kind_at f (rtarget e) = Some K -> K = out_kind e) /\
    (forall s, rsrc e = Some s -> exists c, lookup f s = Some (File c)).
  Proof.
    unfold kind_at, content. destruct e as [[q|s d|q c]|s d]; simpl; intro Ha.
    - destruct (lookup f q) as [[|x]|] eqn:E; inversion Ha; subst.
      + rewrite E. repeat split; try reflexivity; try discriminate.
        intros K HK. simpl in HK. congruence.
      + rewrite lookup_set_same. repeat split; try discriminate.
        intros p Hp. apply lookup_set_other. exact Hp.
    - unfold content. destruct (lookup f s) as [[|cs]|] eqn:Es; try discriminate.
      destruct (lookup f d) as [[|x]|] eqn:Ed; inversion Ha; subst;
        rewrite lookup_set_same; (split; [reflexivity|]);
        (split; [intros p Hp; apply lookup_set_other; exact Hp|]);
        (split; [intros K HK; simpl in HK; congruence|]);
        intros s0 Hs0; inversion Hs0; subst; eexists; exact Es.
    - destruct (lookup f q) as [[|x]|] eqn:E; inversion Ha; subst;
        rewrite lookup_set_same; (split; [reflexivity|]);
        (split; [intros p Hp; apply lookup_set_other; exact Hp|]);
        (split; [intros K HK; simpl in HK; congruence|]);
        intros s0 Hs0; discriminate.
    - unfold content. destruct (lookup f s) as [[|cs]|] eqn:Es; try discriminate.
      destruct (lookup f d) as [[|x]|] eqn:Ed; inversion Ha; subst;
        rewrite lookup_set_same; (split; [reflexivity|]);
        (split; [intros p Hp; apply lookup_set_other; exact Hp|]);
        (split; [intros K HK; simpl in HK; congruence|]);
        intros s0 Hs0; inversion Hs0; subst; eexists; exact Es.
  Qed.

  Lemma val_kind f e : node_kind (val f e) = out_kind e.
  Proof. destruct e as [[q|s d|q c]|s d]; reflexivity. Qed.

  Lemma rapply_frozen e f f' p :
    okP e -> rapply op e f = Ok f' -> R p = true -> lookup f' p = lookup f p.
  Proof.
    intros [Ht _] Ha Hp. apply rapply_spec in Ha as (_ & Ho & _).
    apply Ho. intro E. subst. congruence.
  Qed.

  Lemma rexec_frozen es : forall f f' r p,
    Forall okP es -> rexec op f es = (f', r) -> R p = true -> lookup f' p = lookup f p.
  Proof.
    induction es as [|e es IH]; intros f f' r p Hok Hex Hp; simpl in Hex.
    - inversion Hex; subst. reflexivity.
    - inversion Hok as [|? ? He Hes]; subst.
      destruct (rapply op e f) as [f1|x] eqn:Ea.
      + rewrite (IH _ _ _ _ Hes Hex Hp). eapply rapply_frozen; eassumption.
      + inversion Hex; subst. reflexivity.
  Qed.

  Lemma val_frozen f f' e :
    okP e -> (forall p, R p = true -> lookup f' p = lookup f p) -> val f' e = val f e.
  Proof.
    intros [_ Hs] Hfr. destruct e as [[q|s d|q c]|s d]; simpl in *; try reflexivity;
      unfold content; rewrite Hfr by exact Hs; reflexivity.
  Qed.

  (* value at p after the program, as a function of the value before *)
  Definition F (vs : reffect -> node) (p : path) (es : list reffect) (v : option node) :=
    fold_left (fun v e => if path_eqb (rtarget e) p then Some (vs e) else v) es v.

  Lemma F_ext vs1 vs2 p es : forall v,
    (forall e, In e es -> vs1 e = vs2 e) -> F vs1 p es v = F vs2 p es v.
  Proof.
    induction es as [|e es IH]; intros v H; [reflexivity|]. unfold F in *. simpl.
    rewrite (H e) by (left; reflexivity). apply IH. intros e' He'. apply H. right. exact He'.
  Qed.

  Lemma F_const_or_id vs p es :
    (forall v, F vs p es v = v) \/ (exists c, forall v, F vs p es v = c).
  Proof.
    induction es as [|e es IH]; [left; reflexivity|].
    unfold F in *. simpl. destruct (path_eqb (rtarget e) p).
    - right. eexists. intro v. reflexivity.
    - destruct IH as [IH | (c & IH)]; [left | right; exists c]; intro v; apply IH.
  Qed.

  Lemma F_idem vs p es v : F vs p es (F vs p es v) = F vs p es v.
  Proof.
    destruct (F_const_or_id vs p es) as [H | (c & H)]; rewrite !H; reflexivity.
  Qed.

  Lemma rexec_post es : forall f f' p,
    Forall okP es -> rexec op f es = (f', Ok tt) ->
    lookup f' p = F (val f) p es (lookup f p).
  Proof.
    induction es as [|e es IH]; intros f f' p Hok Hex; simpl in Hex.
    - inversion Hex; subst. reflexivity.
    - inversion Hok as [|? ? He Hes]; subst.
      destruct (rapply op e f) as [f1|x] eqn:Ea; [|discriminate].
      rewrite (IH f1 f' p Hes Hex).
      rewrite (F_ext (val f1) (val f) p es).
      + unfold F. simpl. f_equal.
        apply rapply_spec in Ea as (Hv & Ho & _).
        destruct (path_eqb (rtarget e) p) eqn:E.
        * apply path_eqb_spec in E. subst p. exact Hv.
        * apply Ho. apply path_eqb_false. exact E.
      + intros e' He'. apply val_frozen.
        * apply (proj1 (Forall_forall _ _) Hes e' He').
        * intros q Hq. eapply rapply_frozen; eassumption.
  Qed.

  Lemma kind_preserved es : forall f f' q K,
    rexec op f es = (f', Ok tt) -> kind_at f q = Some K -> kind_at f' q = Some K.
  Proof.
    induction es as [|e es IH]; intros f f' q K Hex HK; simpl in Hex.
    - inversion Hex; subst. exact HK.
    - destruct (rapply op e f) as [f1|x] eqn:Ea; [|discriminate].
      apply (IH f1 f' q K Hex).
      apply rapply_spec in Ea as (Hv & Ho & Hc & _).
      destruct (path_eqb (rtarget e) q) eqn:E.
      + apply path_eqb_spec in E. subst q. apply Hc in HK. subst K.
        unfold kind_at. rewrite Hv. simpl. rewrite val_kind. reflexivity.
      + unfold kind_at. rewrite Ho by (apply path_eqb_false; exact E). exact HK.
  Qed.

  Lemma kind_table es : forall f f',
    rexec op f es = (f', Ok tt) ->
    forall e, In e es -> kind_at f' (rtarget e) = Some (out_kind e).
  Proof.
    induction es as [|e es IH]; intros f f' Hex e' He'; [contradiction|].
    simpl in Hex. destruct (rapply op e f) as [f1|x] eqn:Ea; [|discriminate].
    destruct He' as [<- | He'].
    - apply (kind_preserved es f1 f' _ _ Hex).
      apply rapply_spec in Ea as (Hv & _). unfold kind_at. rewrite Hv. simpl.
      rewrite val_kind. reflexivity.
    - eapply IH; eassumption.
  Qed.

  Lemma src_files es : forall f f',
    Forall okP es -> rexec op f es = (f', Ok tt) ->
    forall e s, In e es -> rsrc e = Some s -> exists c, lookup f s = Some (File c).
  Proof.
    induction es as [|e es IH]; intros f f' Hok Hex e' s He' Hs; [contradiction|].
    simpl in Hex. inversion Hok as [|? ? He Hes]; subst.
    destruct (rapply op e f) as [f1|x] eqn:Ea; [|discriminate].
    destruct He' as [<- | He'].
    - apply rapply_spec in Ea as (_ & _ & _ & Hsrc). apply Hsrc. exact Hs.
    - destruct (IH f1 f' Hes Hex e' s He' Hs) as (c & Hc). exists c.
      rewrite <- Hc. symmetry. eapply rapply_frozen; [exact He | exact Ea |].
      pose proof (proj1 (Forall_forall _ _) Hes e' He') as [_ Hr]. rewrite Hs in Hr. exact Hr.
  Qed.

  Lemma kind_file f p : kind_at f p = Some KF -> exists c, lookup f p = Some (File c).
  Proof.
    unfold kind_at. destruct (lookup f p) as [[|c]|]; simpl; intro H; try discriminate.
    eexists. reflexivity.
  Qed.

  Lemma run_again es : forall h,
    Forall okP es ->
    (forall e, In e es -> kind_at h (rtarget e) = Some (out_kind e)) ->
    (forall e s, In e es -> rsrc e = Some s -> exists c, lookup h s = Some (File c)) ->
    exists h', rexec op h es = (h', Ok tt).
  Proof.
    induction es as [|e es IH]; intros h Hok Hk Hs; [eexists; reflexivity|].
    inversion Hok as [|? ? He Hes]; subst.
    assert (Hap : exists h1, rapply op e h = Ok h1).
    { pose proof (Hk e (or_introl eq_refl)) as Hke.
      destruct e as [[q|s d|q c]|s d]; simpl in *.
      - unfold kind_at in Hke. destruct (lookup h q) as [[|x]|]; simpl in Hke; try discriminate.
        eexists; reflexivity.
      - destruct (Hs _ s (or_introl eq_refl) eq_refl) as (cs & ->).
        apply kind_file in Hke as (x & ->). eexists; reflexivity.
      - apply kind_file in Hke as (x & ->). eexists; reflexivity.
      - destruct (Hs _ s (or_introl eq_refl) eq_refl) as (cs & ->).
        apply kind_file in Hke as (x & ->). eexists; reflexivity. }
    destruct Hap as (h1 & Ea). simpl. rewrite Ea.
    apply IH; [exact Hes | |].
    - intros e' He'.
      pose proof (rapply_spec _ _ _ Ea) as (Hv & Ho & _).
      destruct (path_eqb (rtarget e) (rtarget e')) eqn:E.
      + apply path_eqb_spec in E. unfold kind_at. rewrite <- E, Hv. simpl. rewrite val_kind.
        pose proof (Hk e (or_introl eq_refl)) as H1.
        pose proof (Hk e' (or_intror He')) as H2. rewrite <- E in H2. congruence.
      + unfold kind_at. rewrite Ho by (apply path_eqb_false; exact E).
        apply (Hk e' (or_intror He')).
    - intros e' s He' Hse'.
      destruct (Hs e' s (or_intror He') Hse') as (c & Hc). exists c. rewrite <- Hc.
      eapply rapply_frozen; [exact He | exact Ea |].
      pose proof (proj1 (Forall_forall _ _) Hes e' He') as [_ Hr]. rewrite Hse' in Hr. exact Hr.
  Qed.

  Lemma rexec_idempotent es f f1 :
    Forall okP es -> rexec op f es = (f1, Ok tt) ->
    exists f2, rexec op f1 es = (f2, Ok tt) /\ forall p, lookup f2 p = lookup f1 p.
  Proof.
    intros Hok H1.
    assert (Hfr : forall p, R p = true -> lookup f1 p = lookup f p).
    { intros p Hp. eapply rexec_frozen; eassumption. }
    destruct (run_again es f1 Hok) as (f2 & H2).
    - apply (kind_table es f f1 H1).
    - intros e s He Hs. destruct (src_files es f f1 Hok H1 e s He Hs) as (c & Hc).
      exists c. rewrite <- Hc. apply Hfr.
      pose proof (proj1 (Forall_forall _ _) Hok e He) as [_ Hr]. rewrite Hs in Hr. exact Hr.
    - exists f2. split; [exact H2|]. intro p.
      rewrite (rexec_post es f1 f2 p Hok H2).
      rewrite (F_ext (val f1) (val f) p es).
      + rewrite (rexec_post es f f1 p Hok H1). apply F_idem.
      + intros e He. apply val_frozen; [apply (proj1 (Forall_forall _ _) Hok e He) | exact Hfr].
  Qed.
End Idem.

Lemma remodel_effects_ok b tasks keys targets :
  Forall (fun k => under (backup_dir b) (key_path k) = false) keys ->
  Forall (fun t => under (backup_dir b) t = false) targets ->
  Forall (okP (fun p => under (backup_dir b) p)) (remodel_effects b tasks keys targets).
Proof.
  intros Hk Ht. unfold remodel_effects. apply Forall_app. split.
  - apply Forall_forall. intros e He. apply in_map_iff in He as (e0 & <- & He0).
    unfold restore_effects in He0. apply in_flat_map in He0 as (k & Hkin & He0).
    pose proof (proj1 (Forall_forall _ _) Hk k Hkin) as Hko. cbv beta in Hko.
    pose proof (restore_one_targets _ _ _ _ He0) as (_ & (j & Hp) & Hcopy).
    unfold okP. simpl. split.
    + rewrite Hp. apply not_under_firstn. exact Hko.
    + destruct e0 as [q|s d|q c]; simpl; try exact I.
      destruct (Hcopy s d eq_refl) as [-> _]. apply under_dir_root.
  - apply Forall_forall. intros e He. apply in_map_iff in He as (t & <- & Htin).
    pose proof (proj1 (Forall_forall _ _) Ht t Htin) as Hto. cbv beta in Hto.
    unfold okP. simpl. split; [exact Hto|]. unfold get_backup_path. apply under_dir_root.
Qed.

Lemma remodel_idempotent_lemma (op : str -> str) b tasks keys targets f f1 :
  Forall (fun k => under (backup_dir b) (key_path k) = false) keys ->
  Forall (fun t => under (backup_dir b) t = false) targets ->
  rexec op f (remodel_effects b tasks keys targets) = (f1, Ok tt) ->
  exists f2, rexec op f1 (remodel_effects b tasks keys targets) = (f2, Ok tt) /\
             forall p, lookup f2 p = lookup f1 p.
Proof.
  intros Hk Ht H. eapply rexec_idempotent; [apply remodel_effects_ok; assumption | exact H].
Qed.

(* what the second run reads is what the first run read *)
Lemma remodel_reads_backup (op : str -> str) b tasks keys targets f f1 r :
  Forall (fun k => under (backup_dir b) (key_path k) = false) keys ->
  Forall (fun t => under (backup_dir b) t = false) targets ->
  rexec op f (remodel_effects b tasks keys targets) = (f1, r) ->
  forall p, under (backup_dir b) p = true -> lookup f1 p = lookup f p.
Proof.
  intros Hk Ht H p Hp.
  eapply (rexec_frozen op (fun p => under (backup_dir b) p)); [apply remodel_effects_ok; eassumption | exact H | exact Hp].
Qed.

(* every successfully remodelled target holds op(backup copy), whatever the
   data file contained before the run *)
Lemma F_transforms (op : str -> str) b f p : forall targets v,
  In p targets \/ v = Some (File (op (content f (get_backup_path b p)))) ->
  F (val op f) p (map (fun t => Transform (get_backup_path b t) t) targets) v
  = Some (File (op (content f (get_backup_path b p)))).
Proof.
  induction targets as [|t r IH]; intros v H.
  - destruct H as [[] | ->]. reflexivity.
  - unfold F in *. simpl. destruct (path_eqb t p) eqn:E.
    + apply path_eqb_spec in E. subst t. apply IH. right. reflexivity.
    + apply IH. destruct H as [[->|H] | H]; [rewrite path_eqb_refl in E; discriminate | left; exact H | right; exact H].
Qed.

Lemma F_app vs p a b v : F vs p (a ++ b) v = F vs p b (F vs p a v).
Proof. unfold F. apply fold_left_app. Qed.

Lemma remodel_from_backup_lemma (op : str -> str) b tasks keys targets f f1 :
  Forall (fun k => under (backup_dir b) (key_path k) = false) keys ->
  Forall (fun t => under (backup_dir b) t = false) targets ->
  rexec op f (remodel_effects b tasks keys targets) = (f1, Ok tt) ->
  forall t, In t targets ->
    exists c, read f (get_backup_path b t) = Some c /\ read f1 t = Some (op c).
Proof.
  intros Hk Ht H t Hin.
  pose proof (remodel_effects_ok b tasks keys targets Hk Ht) as Hok.
  destruct (src_files op _ _ f f1 Hok H (Transform (get_backup_path b t) t) (get_backup_path b t))
    as (c & Hc); [| reflexivity |].
  { unfold remodel_effects. apply in_or_app. right. apply in_map_iff. exists t. split; [reflexivity | exact Hin]. }
  exists c. split; [apply read_lookup; exact Hc|].
  apply read_lookup. rewrite (rexec_post op _ _ f f1 t Hok H).
  unfold remodel_effects. rewrite F_app.
  rewrite F_transforms by (left; exact Hin).
  unfold content. rewrite Hc. reflexivity.
Qed.

(* ------------------------------------------------------------------ *)
(* Concrete instances                                                  *)
(* ------------------------------------------------------------------ *)
Definition ex_sub : str := [115;117;98]%N.                       (* "sub" *)
Definition ex_a : str := [97;95;116;97;115;107;95;120;46;116]%N.  (* "a_task_x.t" *)
Definition ex_c : str := [99;34;92]%N.                            (* c, double quote, backslash *)
Definition ex_ts : str := [50;48;50;54]%N.
Definition ex_b : name := [98;49]%N.                              (* "b1" *)
Definition ex_files : list path := [[ex_sub; ex_a]; [ex_c]].
Definition ex_f0 : fs :=
  fst (mgr_init [([ex_sub; ex_a], File [1;2;3]%N); ([ex_sub], Dir); ([ex_c], File [7]%N)]).
Definition ex_f1 : fs := fst (fst (create_backup true [] ex_f0 ex_files ex_b ex_ts)).
Definition ex_f2 : fs := uapply (UWrite [ex_sub; ex_a] [9]%N) ex_f1.

Lemma ex_hyps :
  (forall p, under (backup_dir ex_b) p = true -> lookup ex_f0 p = None) /\
  Forall (fun f => under (backup_dir ex_b) f = false) ex_files /\
  Forall valid_file ex_files /\ json_ok ex_ts.
Proof.
  split; [|split; [|split]].
  - intros p Hp. apply under_true in Hp as (r & ->).
    vm_compute. reflexivity.
  - repeat constructor.
  - unfold ex_files, valid_file, valid_comp, json_ok.
    repeat (constructor || split); try discriminate;
      try (intro H; vm_compute in H; intuition discriminate);
      try (vm_compute; discriminate).
  - repeat constructor; vm_compute; discriminate.
Qed.

(* the "listed" branch is inhabited: the completed trace is listed with its record *)
Lemma ex_listed :
  get_backups (crash ex_f0 (create_effects ex_b ex_files ex_ts) 100 None)
  = Ok [(ex_b, [[115;117;98;47;97;95;116;97;115;107;95;120;46;116]; [99;34;92]]%N)].
Proof. vm_compute. reflexivity. Qed.

(* ... and an interrupted record write makes the constructor raise *)
Lemma ex_partial_raises :
  get_backups (crash ex_f0 (create_effects ex_b ex_files ex_ts) 5 (Some 20)) = Exn ValueError
  /\ get_backups (crash ex_f0 (create_effects ex_b ex_files ex_ts) 4 (Some 0)) = Exn HedFileError.
Proof. split; vm_compute; reflexivity. Qed.

(* a manager object created before the backup existed overwrites it *)
Lemma stale_manager_overwrites :
  exists (m : mgr) (f : fs) files b ts f' m' file,
    mgr_get m b = None /\
    (exists rec, get_backups f = Ok [(b, rec)]) /\
    create_backup false m f files b ts = (f', m', Ok true) /\
    In file files /\
    read f' (get_backup_path b file) <> read f (get_backup_path b file).
Proof.
  exists [], ex_f2, ex_files, ex_b, ex_ts.
  eexists. eexists. exists [ex_sub; ex_a].
  split; [reflexivity|]. split; [eexists; vm_compute; reflexivity|].
  split; [vm_compute; reflexivity|]. split; [left; reflexivity|].
  vm_compute. discriminate.
Qed.

(* the current code (after fix commit fb42f68) refuses on the very witness of the repaired defect *)
Lemma ex_fixed_refuses :
  create_backup true [] ex_f2 ex_files ex_b ex_ts = (ex_f2, [], Ok false).
Proof. vm_compute. reflexivity. Qed.

(* restore with a task filter: the file named task_x is restored, the other untouched *)
Lemma ex_restore_tasks :
  let m := snd (fst (create_backup true [] ex_f0 ex_files ex_b ex_ts)) in
  let f2 := uapply (UWrite [ex_c] [8]%N) ex_f2 in
  let f3 := fst (restore_backup m f2 ex_b [[120]%N]) in
  read f3 [ex_sub; ex_a] = Some [1;2;3]%N /\ read f3 [ex_c] = Some [8]%N.
Proof. vm_compute. split; reflexivity. Qed.

Lemma record_prefix_free_lemma (ks : list str) (ts : str) (n : nat) :
  Forall json_ok ks -> json_ok ts ->
  load (dump ks ts) = Some ks /\
  (n < length (dump ks ts) -> load (firstn n (dump ks ts)) = None).
Proof. intros H1 H2. split; [apply load_dump | apply load_prefix]; assumption. Qed.

Lemma remodel_from_backup_full (op : str -> str) b tasks keys targets f f1 :
  Forall (fun k => under (backup_dir b) (key_path k) = false) keys ->
  Forall (fun t => under (backup_dir b) t = false) targets ->
  rexec op f (remodel_effects b tasks keys targets) = (f1, Ok tt) ->
  (forall t, In t targets ->
     exists c, read f (get_backup_path b t) = Some c /\ read f1 t = Some (op c)) /\
  (forall p, under (backup_dir b) p = true -> lookup f1 p = lookup f p).
Proof.
  intros H1 H2 H3. split.
  - eapply remodel_from_backup_lemma; eassumption.
  - eapply remodel_reads_backup; eassumption.
Qed.

Lemma ex_nonvacuous :
  ((forall p, under (backup_dir ex_b) p = true -> lookup ex_f0 p = None) /\
   Forall (fun f => under (backup_dir ex_b) f = false) ex_files /\
   Forall valid_file ex_files /\ json_ok ex_ts) /\
  get_backups (crash ex_f0 (create_effects ex_b ex_files ex_ts) 100 None)
  = Ok [(ex_b, [[115;117;98;47;97;95;116;97;115;107;95;120;46;116]; [99;34;92]]%N)] /\
  (get_backups (crash ex_f0 (create_effects ex_b ex_files ex_ts) 5 (Some 20)) = Exn ValueError /\
   get_backups (crash ex_f0 (create_effects ex_b ex_files ex_ts) 4 (Some 0)) = Exn HedFileError).
Proof. exact (conj ex_hyps (conj ex_listed ex_partial_raises)). Qed.

(* ------------------------------------------------------------------ *)
(* Spellings of a backup name that resolve to the same directory       *)
(* ------------------------------------------------------------------ *)
Lemma split_on_nonempty c s : split_on c s <> [].
Proof.
  destruct s as [|x s]; simpl; [discriminate|].
  destruct (N.eqb x c); [discriminate|]. destruct (split_on c s); discriminate.
Qed.

Lemma split_on_sep c a r : split_on c (a ++ c :: r) = split_on c a ++ split_on c r.
Proof.
  induction a as [|x a IH]; simpl.
  - rewrite N.eqb_refl. reflexivity.
  - destruct (N.eqb x c); [rewrite IH; reflexivity|].
    rewrite IH. pose proof (split_on_nonempty c a) as Hne.
    destruct (split_on c a) as [|h t]; [congruence|]. reflexivity.
Qed.

Lemma key_path_sep a r : key_path (a ++ ch_slash :: r) = key_path a ++ key_path r.
Proof. unfold key_path. rewrite split_on_sep. apply filter_app. Qed.

Lemma alias_spellings b :
  key_path (b ++ [ch_slash]) = key_path b /\
  key_path (ch_dot :: ch_slash :: b) = key_path b /\
  key_path (b ++ [ch_slash; ch_dot]) = key_path b /\
  key_path (b ++ [ch_slash; ch_slash]) = key_path b /\
  key_path (ch_dot :: ch_slash :: b ++ [ch_slash; ch_slash; ch_dot; ch_slash]) = key_path b.
Proof.
  assert (H1 : key_path (b ++ [ch_slash]) = key_path b).
  { rewrite key_path_sep. apply app_nil_r. }
  assert (H2 : forall x, key_path (ch_dot :: ch_slash :: x) = key_path x).
  { intro x. change (ch_dot :: ch_slash :: x) with ([ch_dot] ++ ch_slash :: x).
    rewrite key_path_sep. reflexivity. }
  split; [|split; [|split; [|split]]].
  - exact H1.
  - apply H2.
  - rewrite key_path_sep. apply app_nil_r.
  - rewrite key_path_sep. apply app_nil_r.
  - rewrite H2. rewrite key_path_sep.
    change [ch_slash; ch_dot; ch_slash] with ([] ++ ch_slash :: [ch_dot; ch_slash]).
    rewrite key_path_sep. apply app_nil_r.
Qed.

Lemma backup_dir_alias b b' : key_path b' = key_path b -> backup_dir b' = backup_dir b.
Proof. intro H. unfold backup_dir, name_path. rewrite H. reflexivity. Qed.

(* any spelling b' that resolves to the directory of a backup a fresh manager lists is
   refused by the current code (after fix commit fb42f68), whatever the calling manager has cached *)
Lemma never_overwritten_alias m f files b b' ts mdisk rec :
  key_path b' = key_path b ->
  get_backups f = Ok mdisk -> mgr_get mdisk b = Some rec ->
  create_backup true m f files b' ts = (f, m, Ok false).
Proof.
  intros Ha Hg Hm. apply never_overwritten_lemma. rewrite (backup_dir_alias b b' Ha).
  eapply check_one_ok_dir. eapply get_backups_inv; eassumption.
Qed.

(* crash of create_backup b, later create_backup under any spelling of the same directory *)
Lemma crash_then_create_alias b b' files ts f0 :
  key_path b' = key_path b ->
  (forall p, under (backup_dir b) p = true -> lookup f0 p = None) ->
  forall i k m files' ts',
    let fc := crash f0 (create_effects b files ts) i k in
    fc = f0 \/ create_backup true m fc files' b' ts' = (fc, m, Ok false).
Proof.
  intros Ha Hfresh i k m files' ts' fc. subst fc.
  destruct i as [|i].
  - left. unfold create_effects. simpl. destruct k; reflexivity.
  - right. apply never_overwritten_lemma. rewrite (backup_dir_alias b b' Ha).
    unfold create_effects. cbn [app].
    rewrite (crash_cons_S _ _ f0 (set (backup_dir b) Dir f0)).
    + apply crash_exists. unfold exists_. rewrite lookup_set_same. reflexivity.
    + cbn [apply]. rewrite (Hfresh _ (under_dir_self b)). reflexivity.
Qed.

(* the seeded class: "b1/" on the witness tree, refused; a guard that compares the raw name
   with the directory entries would let it through (the program before fix commit fb42f68 does) *)
Definition ex_b_slash : name := ex_b ++ [ch_slash].
Lemma ex_alias_refused :
  create_backup true [] ex_f2 ex_files ex_b_slash ex_ts = (ex_f2, [], Ok false) /\
  (exists f' m', create_backup false [] ex_f2 ex_files ex_b_slash ex_ts = (f', m', Ok true) /\
     read f' (get_backup_path ex_b [ex_sub; ex_a]) <> read ex_f2 (get_backup_path ex_b [ex_sub; ex_a])).
Proof.
  split; [vm_compute; reflexivity|].
  eexists. eexists. split; [vm_compute; reflexivity|]. vm_compute. discriminate.
Qed.

(* ------------------------------------------------------------------ *)
(* restore: every selected recorded file ends with the bytes of its     *)
(* backup copy, whatever the data tree looked like before               *)
(* ------------------------------------------------------------------ *)
Lemma restore_effects_ok_gen b tasks keys :
  Forall (fun k => under (backup_dir b) (key_path k) = false) keys ->
  Forall (okG (fun p => under (backup_dir b) p) (fun d => backup_root b ++ d))
         (restore_effects b tasks keys).
Proof.
  intros Hk. apply Forall_forall. intros e He.
  unfold restore_effects in He. apply in_flat_map in He as (k & Hkin & He).
  pose proof (proj1 (Forall_forall _ _) Hk k Hkin) as Hko. cbv beta in Hko.
  assert (Hgen : In e (mkdirs [] (removelast (key_path k)) ++
                       [Copy (backup_root b ++ key_path k) (key_path k)]) ->
                 okG (fun p => under (backup_dir b) p) (fun d => backup_root b ++ d) e).
  { intro Hin. apply in_app_or in Hin as [Hin | [<- | []]].
    - apply in_mkdirs in Hin as (j & ->). simpl.
      rewrite removelast_firstn_len, firstn_firstn. apply not_under_firstn. exact Hko.
    - simpl. repeat split; [apply under_dir_root | exact Hko]. }
  unfold restore_one in He. destruct tasks as [|t tasks]; [apply Hgen; exact He|].
  destruct (task_selected (t :: tasks) (backup_root b ++ key_path k)); [apply Hgen; exact He | contradiction].
Qed.

Lemma restore_selected_lemma m f b tasks keys f' :
  mgr_get m b = Some keys ->
  Forall (fun k => under (backup_dir b) (key_path k) = false) keys ->
  restore_backup m f b tasks = (f', Ok tt) ->
  forall k, In k keys ->
    (tasks = [] \/ task_selected tasks (backup_root b ++ key_path k) = true) ->
    exists c, read f (backup_root b ++ key_path k) = Some c /\ read f' (key_path k) = Some c.
Proof.
  intros Hm Hk Hr k Hkin Hsel. unfold restore_backup in Hr. rewrite Hm in Hr.
  destruct keys as [|k0 ks0] eqn:Ek; [discriminate|]. rewrite <- Ek in *. clear Ek.
  eapply exec_copies; [apply restore_effects_ok_gen; exact Hk | exact Hr |].
  unfold restore_effects. apply in_flat_map. exists k. split; [exact Hkin|].
  unfold restore_one. destruct tasks as [|t tasks].
  - apply in_or_app. right. left. reflexivity.
  - destruct Hsel as [Hsel | Hsel]; [discriminate|]. rewrite Hsel.
    apply in_or_app. right. left. reflexivity.
Qed.

(* ... hence two data trees with the same backup end with the same restored files:
   the result of a restore is a function of the backup alone, not of the history *)
Lemma restore_history_independent m b tasks keys f g f' g' :
  mgr_get m b = Some keys ->
  Forall (fun k => under (backup_dir b) (key_path k) = false) keys ->
  (forall p, under (backup_dir b) p = true -> lookup f p = lookup g p) ->
  restore_backup m f b tasks = (f', Ok tt) ->
  restore_backup m g b tasks = (g', Ok tt) ->
  forall k, In k keys ->
    (tasks = [] \/ task_selected tasks (backup_root b ++ key_path k) = true) ->
    read f' (key_path k) = read g' (key_path k).
Proof.
  intros Hm Hk Hfg Hf Hg k Hkin Hsel.
  destruct (restore_selected_lemma m f b tasks keys f' Hm Hk Hf k Hkin Hsel) as (c & H1 & H2).
  destruct (restore_selected_lemma m g b tasks keys g' Hm Hk Hg k Hkin Hsel) as (c' & H3 & H4).
  rewrite H2, H4. unfold read in H1, H3. rewrite (Hfg _ (under_dir_root b (key_path k))) in H1.
  congruence.
Qed.

(* ------------------------------------------------------------------ *)
(* Keys: one key per file, every directory component kept              *)
(* ------------------------------------------------------------------ *)
Lemma file_key_injective f g :
  valid_file f -> valid_file g -> get_file_key f = get_file_key g -> f = g.
Proof.
  intros Hf Hg E. rewrite <- (key_path_file_key f Hf), <- (key_path_file_key g Hg), E. reflexivity.
Qed.

Lemma backup_path_injective b f g :
  valid_file f -> valid_file g -> get_backup_path b f = get_backup_path b g -> f = g.
Proof.
  intros Hf Hg E. unfold get_backup_path in E.
  rewrite (key_path_file_key f Hf), (key_path_file_key g Hg) in E.
  apply app_inv_head in E. exact E.
Qed.

Lemma keys_of_length files : forall acc,
  NoDup files -> Forall valid_file files ->
  (forall f, In f files -> ~ In (get_file_key f) acc) ->
  length (keys_of files acc) = length acc + length files.
Proof.
  induction files as [|f r IH]; intros acc Hnd Hv Hacc; simpl; [lia|].
  inversion Hnd as [|? ? Hnin Hnd']; subst. inversion Hv as [|? ? Hvf Hvr]; subst.
  assert (Hm : mem_str (get_file_key f) acc = false).
  { destruct (mem_str (get_file_key f) acc) eqn:E; [|reflexivity].
    apply mem_str_spec in E. exfalso. apply (Hacc f); [left; reflexivity | exact E]. }
  rewrite Hm. rewrite IH; [rewrite app_length; simpl; lia | exact Hnd' | exact Hvr |].
  intros g Hg Hin. apply in_app_or in Hin as [Hin | [E | []]].
  - apply (Hacc g); [right; exact Hg | exact Hin].
  - apply file_key_injective in E; [| exact Hvf | apply (proj1 (Forall_forall _ _) Hvr g Hg)].
    subst g. contradiction.
Qed.

Lemma record_one_entry_per_file files :
  NoDup files -> Forall valid_file files ->
  length (keys_of files []) = length files /\
  (forall f g, In f files -> In g files ->
     get_file_key f = get_file_key g -> f = g) /\
  (forall f, In f files -> key_path (get_file_key f) = f).
Proof.
  intros Hnd Hv. split; [|split].
  - rewrite keys_of_length; [reflexivity | exact Hnd | exact Hv | intros f _ []].
  - intros f g Hf Hg. apply file_key_injective; apply (proj1 (Forall_forall _ _) Hv); assumption.
  - intros f Hf. apply key_path_file_key. apply (proj1 (Forall_forall _ _) Hv f Hf).
Qed.

(* dot-prefixed directory, blank, and a same-named twin beside the dot directory *)
Definition ex_dotdir : str := [46;111;114;105;103]%N.             (* ".orig" *)
Definition ex_dd : str := [46;46;120;32;121]%N.                   (* "..x y" *)
Definition ex_twins : list path := [[ex_sub; ex_dotdir; ex_a]; [ex_sub; ex_a]; [ex_dd; ex_a]].
Lemma ex_dot_keys :
  Forall valid_file ex_twins /\ NoDup ex_twins /\
  map (fun f => key_path (get_file_key f)) ex_twins = ex_twins /\
  length (keys_of ex_twins []) = 3.
Proof.
  split; [|split; [|split]].
  - unfold ex_twins, valid_file, valid_comp, json_ok.
    repeat (constructor || split); try discriminate;
      try (intro H; vm_compute in H; intuition discriminate);
      try (vm_compute; discriminate).
  - repeat constructor; simpl; intuition discriminate.
  - vm_compute. reflexivity.
  - vm_compute. reflexivity.
Qed.

(* ------------------------------------------------------------------ *)
(* The task filter looks at the base name only                         *)
(* ------------------------------------------------------------------ *)
Lemma last_app_nonempty {A} (p l : list A) d : l <> [] -> last (p ++ l) d = last l d.
Proof.
  intro Hne. induction p as [|x p IH]; [reflexivity|].
  simpl. destruct (p ++ l) eqn:E; [|exact IH].
  apply app_eq_nil in E as [_ E]. contradiction.
Qed.

Lemma get_task_basename tasks (p q : path) :
  @last name p [] = @last name q [] -> get_task tasks p = get_task tasks q.
Proof.
  intro H. induction tasks as [|t r IH]; [reflexivity|]. cbn [get_task]. rewrite H, IH. reflexivity.
Qed.

Lemma task_filter_basename_only b b' tasks k :
  key_path k <> [] ->
  task_selected tasks (backup_root b ++ key_path k) = task_selected tasks [last (key_path k) []] /\
  task_selected tasks (backup_root b ++ key_path k) = task_selected tasks (backup_root b' ++ key_path k).
Proof.
  intro Hne. unfold task_selected. split.
  - rewrite (get_task_basename tasks (backup_root b ++ key_path k) [last (key_path k) []]); [reflexivity|].
    rewrite last_app_nonempty by exact Hne. reflexivity.
  - rewrite (get_task_basename tasks (backup_root b ++ key_path k) (backup_root b' ++ key_path k)); [reflexivity|].
    rewrite !last_app_nonempty by exact Hne. reflexivity.
Qed.

(* ------------------------------------------------------------------ *)
(* When a restore completes                                            *)
(* ------------------------------------------------------------------ *)
Definition anc_ok (cur : fs) (files : list path) : Prop :=
  forall f j c, In f files -> j < length f -> lookup cur (firstn j f) <> Some (File c).
Definition notdir_ok (cur : fs) (files : list path) : Prop :=
  forall f, In f files -> lookup cur f <> Some Dir.
Definition no_nest (files : list path) : Prop :=
  forall f g j, In f files -> In g files -> j < length g -> f <> firstn j g.
Definition rok (files : list path) (b : name) (e : effect) : Prop :=
  match e with
  | Mkdir p => exists g j, In g files /\ j < length g /\ p = firstn j g
  | Copy s d => In d files /\ s = backup_root b ++ d
  | Write _ _ => False
  end.

Lemma exec_restorable files b : forall es cur,
  Forall (rok files b) es -> no_nest files ->
  (forall f, In f files -> under (backup_dir b) f = false) ->
  anc_ok cur files -> notdir_ok cur files ->
  (forall f, In f files -> exists c, lookup cur (backup_root b ++ f) = Some (File c)) ->
  exists cur', exec cur es = (cur', Ok tt).
Proof.
  induction es as [|e es IH]; intros cur Hok Hnn Hout Ha Hd Hb; [eexists; reflexivity|].
  inversion Hok as [|? ? He Hes]; subst.
  destruct e as [p|s d|p c]; cbn [rok] in He.
  - destruct He as (g & j & Hg & Hj & ->). cbn [exec apply].
    destruct (lookup cur (firstn j g)) as [[|c]|] eqn:E.
    + apply IH; assumption.
    + exfalso. apply (Ha g j c Hg Hj). exact E.
    + apply IH; try assumption.
      * intros f j' c Hf Hj'. rewrite lookup_set.
        destruct (path_eqb (firstn j g) (firstn j' f)); [discriminate | apply Ha; assumption].
      * intros f Hf. rewrite lookup_set_other; [apply Hd; exact Hf|].
        intro E'. apply (Hnn f g j Hf Hg Hj). symmetry. exact E'.
      * intros f Hf. rewrite lookup_set_other; [apply Hb; exact Hf|].
        intro E'. pose proof (not_under_firstn _ _ j (Hout g Hg)) as Hnu.
        rewrite E' in Hnu. rewrite under_dir_root in Hnu. discriminate.
  - destruct He as (Hdin & ->). cbn [exec apply].
    destruct (Hb d Hdin) as (c & Hc). rewrite Hc.
    destruct (lookup cur d) as [[|x]|] eqn:E.
    + exfalso. apply (Hd d Hdin). exact E.
    + apply IH; try assumption.
      * intros f j' c' Hf Hj'. rewrite lookup_set_other; [apply Ha; assumption|].
        apply (Hnn d f j' Hdin Hf Hj').
      * intros f Hf. rewrite lookup_set. destruct (path_eqb d f); [discriminate | apply Hd; exact Hf].
      * intros f Hf. rewrite lookup_set_other; [apply Hb; exact Hf|].
        intro E'. pose proof (Hout d Hdin) as Hnu. rewrite E' in Hnu.
        rewrite under_dir_root in Hnu. discriminate.
    + apply IH; try assumption.
      * intros f j' c' Hf Hj'. rewrite lookup_set_other; [apply Ha; assumption|].
        apply (Hnn d f j' Hdin Hf Hj').
      * intros f Hf. rewrite lookup_set. destruct (path_eqb d f); [discriminate | apply Hd; exact Hf].
      * intros f Hf. rewrite lookup_set_other; [apply Hb; exact Hf|].
        intro E'. pose proof (Hout d Hdin) as Hnu. rewrite E' in Hnu.
        rewrite under_dir_root in Hnu. discriminate.
  - contradiction.
Qed.

(* edits of the data tree that cannot make a restore fail: anything except writing a FILE
   where an ancestor directory of a backed-up file must be, or making a DIRECTORY where a
   backed-up file must be (and, as everywhere, nothing below the backup's own directory) *)
Definition harmless (files : list path) (u : uop) : Prop :=
  match u with
  | UWrite p _ => forall g j, In g files -> j < length g -> p <> firstn j g
  | UDelete _ => True
  | UMkdir p => ~ In p files
  end.

Lemma uops_restorable files us : forall f,
  Forall (harmless files) us -> anc_ok f files -> notdir_ok f files ->
  anc_ok (fold_left (fun f u => uapply u f) us f) files /\
  notdir_ok (fold_left (fun f u => uapply u f) us f) files.
Proof.
  induction us as [|u us IH]; intros f Hh Ha Hd; [split; assumption|].
  inversion Hh as [|? ? Hu Hus]; subst. simpl. apply IH; [exact Hus | |].
  - intros g j c Hg Hj. destruct u as [p c0|p|p]; cbn [uapply harmless] in *.
    + rewrite lookup_set_other; [apply Ha; assumption | apply Hu; assumption].
    + rewrite lookup_remove. destruct (path_eqb p (firstn j g)); [discriminate | apply Ha; assumption].
    + rewrite lookup_set. destruct (path_eqb p (firstn j g)); [discriminate | apply Ha; assumption].
  - intros g Hg. destruct u as [p c0|p|p]; cbn [uapply harmless] in *.
    + rewrite lookup_set. destruct (path_eqb p g); [discriminate | apply Hd; exact Hg].
    + rewrite lookup_remove. destruct (path_eqb p g); [discriminate | apply Hd; exact Hg].
    + rewrite lookup_set_other; [apply Hd; exact Hg | intro E; subst; contradiction].
Qed.

Lemma restore_effects_rok b files :
  Forall valid_file files ->
  Forall (rok files b) (restore_effects b [] (keys_of files [])).
Proof.
  intros Hv. apply Forall_forall. intros e He.
  unfold restore_effects in He. apply in_flat_map in He as (k & Hk & He).
  apply keys_of_in in Hk as [[] | (f & Hf & ->)].
  pose proof (proj1 (Forall_forall _ _) Hv f Hf) as Hvf.
  unfold restore_one in He. rewrite key_path_file_key in He by exact Hvf.
  apply in_app_or in He as [He | [<- | []]].
  - apply in_mkdirs in He as (j & ->). simpl.
    rewrite removelast_firstn_len, firstn_firstn.
    exists f, (Nat.min j (Init.Nat.pred (length f))). split; [exact Hf|]. split; [|reflexivity].
    destruct Hvf as [Hne _]. destruct f; [congruence|]. simpl. lia.
  - simpl. split; [exact Hf | reflexivity].
Qed.

(* restore_identical with its premise established: after a completed create_backup of a
   non-empty selection and harmless edits outside the backup, the full restore DOES complete,
   and every file is back to its original bytes *)
Lemma restore_total_lemma fx b files ts f0 m f1 m1 us :
  (forall p, under (backup_dir b) p = true -> lookup f0 p = None) ->
  Forall (fun f => under (backup_dir b) f = false) files ->
  Forall valid_file files -> json_ok ts -> files <> [] ->
  anc_ok f0 files ->
  mgr_get m b = None ->
  create_backup fx m f0 files b ts = (f1, m1, Ok true) ->
  Forall (fun u => under (backup_dir b) (utarget u) = false) us ->
  Forall (harmless files) us ->
  exists f3,
    restore_backup m1 (fold_left (fun f u => uapply u f) us f1) b [] = (f3, Ok tt) /\
    forall f, In f files -> exists c, read f0 f = Some c /\ read f3 f = Some c.
Proof.
  intros Hfresh Hout Hval Hts Hne Hanc Hm Hc Hus Hh.
  destruct (create_backup_complete b files ts f0 Hfresh Hout Hval fx m f1 m1 Hm Hc)
    as (Hm1 & _ & Hsame & Hfiles).
  pose proof (proj1 (Forall_forall _ _) Hout) as Hout'. cbv beta in Hout'.
  assert (Hfile0 : forall f, In f files -> exists c, lookup f0 f = Some (File c)).
  { intros f Hf. destruct (Hfiles f Hf) as (c & H1 & _). exists c. apply read_lookup. exact H1. }
  assert (Hnn : no_nest files).
  { intros f g j Hf Hg Hj E. destruct (Hfile0 f Hf) as (c & Hc0).
    apply (Hanc g j c Hg Hj). rewrite <- E. exact Hc0. }
  assert (Ha1 : anc_ok f1 files).
  { intros f j c Hf Hj. rewrite Hsame; [apply Hanc; assumption|].
    apply not_under_firstn. apply Hout'. exact Hf. }
  assert (Hd1 : notdir_ok f1 files).
  { intros f Hf. rewrite Hsame by (apply Hout'; exact Hf).
    destruct (Hfile0 f Hf) as (c & ->). discriminate. }
  destruct (uops_restorable files us f1 Hh Ha1 Hd1) as [Ha2 Hd2].
  set (f2 := fold_left (fun f u => uapply u f) us f1) in *.
  assert (Hb2 : forall f, In f files -> exists c, lookup f2 (backup_root b ++ f) = Some (File c)).
  { intros f Hf. destruct (Hfiles f Hf) as (c & _ & H2). exists c.
    unfold f2. rewrite (uops_frozen b us f1 _ Hus (under_dir_root b f)). apply read_lookup. exact H2. }
  destruct (exec_restorable files b _ f2 (restore_effects_rok b files Hval) Hnn Hout' Ha2 Hd2 Hb2)
    as (f3 & Hex).
  assert (Hr : restore_backup m1 f2 b [] = (f3, Ok tt)).
  { unfold restore_backup. rewrite Hm1.
    destruct (keys_of files []) as [|k0 ks0] eqn:Ek; [|exact Hex].
    exfalso. destruct files as [|f r]; [congruence|].
    pose proof (keys_of_complete (f :: r) [] f (or_introl eq_refl)) as Hin. rewrite Ek in Hin. exact Hin. }
  exists f3. split; [exact Hr|].
  eapply restore_identical_lemma; eassumption.
Qed.

(* ------------------------------------------------------------------ *)
(* The third outcome: between the first mkdir and the completed record  *)
(* the constructor RAISES (and so no backup of that directory is        *)
(* available until the half-made directory is removed)                  *)
(* ------------------------------------------------------------------ *)
Lemma lookup_in_fst f q nd : lookup f q = Some nd -> In q (map fst f).
Proof.
  induction f as [|[r n] f IH]; simpl; [discriminate|].
  destruct (path_eqb r q) eqn:E; [apply path_eqb_spec in E; subst; left; reflexivity|].
  intro H. right. apply IH. exact H.
Qed.

Lemma nodup_strs_in x l : In x l -> In x (nodup_strs l).
Proof.
  induction l as [|y l IH]; intro H; [contradiction|]. simpl.
  destruct (mem_str y l) eqn:E.
  - destruct H as [->|H]; [apply IH; apply mem_str_spec; exact E | apply IH; exact H].
  - destruct H as [->|H]; [left; reflexivity | right; apply IH; exact H].
Qed.

Lemma in_listdir f p n nd : lookup f (p ++ [n]) = Some nd -> In n (listdir f p).
Proof.
  intro H. unfold listdir. apply nodup_strs_in. apply in_flat_map.
  exists (p ++ [n]). split; [eapply lookup_in_fst; exact H|].
  rewrite strip_app. left. reflexivity.
Qed.

Lemma loop_exn f n : forall bs,
  In n bs -> (forall rec, check_one f n <> Ok rec) -> exists e, get_backups_loop f bs = Exn e.
Proof.
  induction bs as [|x bs IH]; intros Hin Hno; [contradiction|]. simpl.
  destruct (check_one f x) as [ks|e] eqn:Ec; [|eexists; reflexivity]. simpl.
  destruct Hin as [->|Hin]; [exfalso; eapply Hno; exact Ec|].
  destruct (IH Hin Hno) as (e & ->). eexists. reflexivity.
Qed.

Lemma crash_lock_cases b files ts f0 :
  (forall p, under (backup_dir b) p = true -> lookup f0 p = None) ->
  Forall (fun f => under (backup_dir b) f = false) files ->
  Forall valid_file files ->
  forall i k,
    let fc := crash f0 (create_effects b files ts) i k in
    let d := dump (keys_of files []) ts in
    lookup fc (backup_lock b) = None \/
    (exists n, n < length d /\ lookup fc (backup_lock b) = Some (File (firstn n d))) \/
    lookup fc (backup_lock b) = Some (File d).
Proof.
  intros Hfresh Hout Hval i k fc d. subst fc.
  change (create_effects b files ts)
    with (copies_part b files ++ [Write (backup_lock b) (dump (keys_of files []) ts)]).
  rewrite crash_app.
  pose proof (Hfresh _ (under_dir_lock b)) as Hl0.
  pose proof (copies_ok b files Hout Hval) as Hok.
  destruct (i <? length (copies_part b files)).
  { left. rewrite (crash_frozen (Rc b) (gc b)); [exact Hl0 | exact Hok | apply Rc_lock]. }
  destruct (exec f0 (copies_part b files)) as [f1 r] eqn:Hex.
  assert (Hl1 : lookup f1 (backup_lock b) = None).
  { rewrite (exec_frozen (Rc b) (gc b) _ _ _ _ _ Hok Hex (Rc_lock b)). exact Hl0. }
  destruct r as [[]|x]; [|left; exact Hl1].
  destruct (i - length (copies_part b files)) as [|j]; cbn [crash].
  - destruct k as [n|]; [|left; exact Hl1].
    cbn [partial]. rewrite Hl1. fold d.
    destruct (n <? length d) eqn:En; [|left; exact Hl1].
    right. left. exists n. split; [apply Nat.ltb_lt; exact En | apply lookup_set_same].
  - cbn [apply]. rewrite Hl1. cbn [crash]. right. right. apply lookup_set_same.
Qed.

Lemma crash_midway_raises b n files ts f0 :
  key_path b = [n] -> key_path n = [n] ->
  (forall p, under (backup_dir b) p = true -> lookup f0 p = None) ->
  Forall (fun f => under (backup_dir b) f = false) files ->
  Forall valid_file files -> json_ok ts ->
  forall i k,
    let fc := crash f0 (create_effects b files ts) i k in
    1 <= i ->
    lookup fc (backup_lock b) <> Some (File (dump (keys_of files []) ts)) ->
    exists e, get_backups fc = Exn e.
Proof.
  intros Hb Hn Hfresh Hout Hval Hts i k fc Hi Hinc.
  unfold get_backups. destruct (negb (isdir fc backups_path)); [eexists; reflexivity|].
  assert (Hdir : backup_dir n = backup_dir b) by (apply backup_dir_alias; congruence).
  apply (loop_exn fc n).
  - (* the half-made directory is an entry of backups_path *)
    assert (Hex : exists_ fc (backup_dir b) = true).
    { subst fc. destruct i as [|i]; [lia|].
      unfold create_effects. cbn [app].
      rewrite (crash_cons_S _ _ f0 (set (backup_dir b) Dir f0)).
      + apply crash_exists. unfold exists_. rewrite lookup_set_same. reflexivity.
      + cbn [apply]. rewrite (Hfresh _ (under_dir_self b)). reflexivity. }
    unfold exists_ in Hex. destruct (lookup fc (backup_dir b)) as [nd|] eqn:E; [|discriminate].
    unfold backup_dir, name_path in E. rewrite Hb in E. eapply in_listdir. exact E.
  - intros rec Hc. apply check_one_ok_inv in Hc as (c & Hc & Hload).
    unfold backup_lock in Hc. rewrite Hdir in Hc. fold (backup_lock b) in Hc.
    destruct (crash_lock_cases b files ts f0 Hfresh Hout Hval i k) as [H | [(m & Hm & H) | H]];
      fold fc in H; rewrite H in Hc.
    + discriminate.
    + inversion Hc; subst c.
      rewrite load_prefix in Hload; [discriminate | | exact Hts | exact Hm].
      apply (keys_json_ok files Hval).
    + apply Hinc. exact H.
Qed.

(* the premises of restore_total_lemma on the concrete tree: one file overwritten, one deleted *)
Definition ex_us : list uop := [UWrite [ex_sub; ex_a] [9]%N; UDelete [ex_c]].
Lemma ex_restore_total :
  anc_ok ex_f0 ex_files /\ Forall (harmless ex_files) ex_us /\
  Forall (fun u => under (backup_dir ex_b) (utarget u) = false) ex_us /\ ex_files <> [] /\
  (let '(f1, m1, _) := create_backup true [] ex_f0 ex_files ex_b ex_ts in
   let f3 := fst (restore_backup m1 (fold_left (fun f u => uapply u f) ex_us f1) ex_b []) in
   snd (restore_backup m1 (fold_left (fun f u => uapply u f) ex_us f1) ex_b []) = Ok tt /\
   read f3 [ex_sub; ex_a] = Some [1;2;3]%N /\ read f3 [ex_c] = Some [7]%N).
Proof.
  split; [|split; [|split; [|split]]].
  - intros f j c Hf Hj. destruct Hf as [<-|[<-|[]]].
    + destruct j as [|[|j]]; [vm_compute; discriminate | vm_compute; discriminate | simpl in Hj; lia].
    + destruct j as [|j]; [vm_compute; discriminate | simpl in Hj; lia].
  - constructor; [|constructor; [exact I | constructor]].
    intros g j Hg Hj. destruct Hg as [<-|[<-|[]]].
    + destruct j as [|[|j]]; [discriminate | discriminate | simpl in Hj; lia].
    + destruct j as [|j]; [discriminate | simpl in Hj; lia].
  - repeat constructor.
  - discriminate.
  - vm_compute. repeat split; reflexivity.
Qed.
