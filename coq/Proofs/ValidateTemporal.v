(* C01: the Duration/Delay and Onset/Offset/Inset group-shape rules (TEMPORAL_TAG_ERROR), the repeated
   tag/group rule, and the full "conforming => no error" theorem. *)
From Coq Require Import List NArith Arith Bool Lia Permutation.
From HV Require Import Base.Res Base.Str Model.Dups Proofs.DupsProofs.
From HV Require Import Model.ValKinds Model.ValStr Model.Validate Gen.ValidationCodes Proofs.ValidateProofs Proofs.ValidateDups.
Import ListNotations.

(* ---------------------------------------------------------------- find_top_level *)
Lemma find_top_level_in anchors f g t i :
  In g (groups_of f) -> first_anchor (map ascii_fold anchors) 0 g = Some (t, i) ->
  In (t, i, g) (find_top_level anchors f).
Proof.
  intros Hg Ha. unfold find_top_level. apply in_flat_map. exists g. split; [exact Hg|]. rewrite Ha. left. reflexivity.
Qed.

Lemma find_top_level_inv anchors f t i g :
  In (t, i, g) (find_top_level anchors f) ->
  In g (groups_of f) /\ first_anchor (map ascii_fold anchors) 0 g = Some (t, i).
Proof.
  unfold find_top_level. intros H. apply in_flat_map in H as (g' & Hg & Hin).
  destruct (first_anchor (map ascii_fold anchors) 0 g') as [[t' i']|] eqn:E; [|contradiction].
  destruct Hin as [Hin | []]. inversion Hin; subst. split; assumption.
Qed.

Lemma in_duration_issues cfg f fl i : full_checks cfg f = Ok fl -> In i (validate_duration_tags f) -> In i fl.
Proof.
  intros Hf Hi. destruct (full_checks_parts _ _ _ Hf) as (d & _ & ->).
  apply in_or_app. right. apply in_or_app. left. apply in_or_app. right. apply in_or_app. right. exact Hi.
Qed.

Lemma in_onset_issues cfg f fl i : full_checks cfg f = Ok fl -> In i (validate_onset_offset f) -> In i fl.
Proof.
  intros Hf Hi. destruct (full_checks_parts _ _ _ Hf) as (d & _ & ->).
  apply in_or_app. right. apply in_or_app. right. exact Hi.
Qed.

Lemma in_dup_issues cfg f fl d i : full_checks cfg f = Ok fl -> check_duplicates f = Ok d -> In i d -> In i fl.
Proof.
  intros Hf Hd Hi. destruct (full_checks_parts _ _ _ Hf) as (d' & Hd' & ->). rewrite Hd in Hd'. inversion Hd'; subst.
  apply in_or_app. right. apply in_or_app. left. apply in_or_app. right. apply in_or_app. left. exact Hi.
Qed.

(* ---------------------------------------------------------------- repeated tag / group *)
Lemma rule_repeated cfg s f Q g l1 a l2 b l3 :
  basic_clean cfg s f -> Forall (wf_n Q) f -> names_ok (all_tags f) ->
  In g (f :: sub_groups f) -> g = l1 ++ a :: l2 ++ b :: l3 -> ckeyf a = ckeyf b ->
  reports cfg s f (kind_code K_HED_TAG_REPEATED).
Proof.
  intros Hb Hwf Hn Hg Eg Hk.
  destruct (full_checks_total cfg Q f Hwf) as (fl & Hfl).
  destruct (full_checks_parts _ _ _ Hfl) as (d & Hd & _).
  destruct (check_duplicates_complete f g l1 a l2 b l3 d Hg Eg Hk Hn Hd) as (i & Hi & Hin).
  assert (Hrep : reports cfg s f (icode i)).
  { apply reports_full; [exact Hb | exists fl; exact Hfl | | destruct Hi as [-> | ->]; reflexivity].
    intros fl' Hfl'. rewrite Hfl in Hfl'. inversion Hfl'; subst. eapply in_dup_issues; eassumption. }
  destruct Hi as [-> | ->]; exact Hrep.
Qed.

(* ---------------------------------------------------------------- Duration / Delay group shape *)
Definition top_level_names (g : list fnode) : list str := map sbase_of (filter tf_top_level (all_tags g)).

Lemma rule_duration_other_tags cfg s f g t i u :
  basic_clean cfg s f -> (exists fl, full_checks cfg f = Ok fl) ->
  In g (groups_of f) -> first_anchor (map ascii_fold duration_keys) 0 g = Some (t, i) ->
  existsb (fun x => str_mem x temporal_keys) (top_level_names g) = false ->
  length (top_level_names g) <> length (tags_of g) ->
  In u (tags_of g) -> str_mem (sbase_of u) (top_level_names g) = false ->
  reports cfg s f (kind_code K_DURATION_HAS_OTHER_TAGS).
Proof.
  intros Hb Hf Hg Ha Hnt Hlen Hu Hum.
  apply (reports_full cfg s f (iss K_DURATION_HAS_OTHER_TAGS) Hb Hf); [|reflexivity].
  intros fl Hfl. apply (in_duration_issues cfg f fl _ Hfl). unfold validate_duration_tags.
  apply in_flat_map. exists (t, i, g). split; [apply find_top_level_in; assumption|].
  cbn [snd]. unfold duration_group. fold (top_level_names g). rewrite Hnt.
  apply Nat.eqb_neq in Hlen. rewrite Hlen. cbn [negb].
  apply in_flat_map. exists u. split; [exact Hu|]. rewrite Hum. left. reflexivity.
Qed.

Lemma rule_duration_wrong_number_groups cfg s f g t i :
  basic_clean cfg s f -> (exists fl, full_checks cfg f = Ok fl) ->
  In g (groups_of f) -> first_anchor (map ascii_fold duration_keys) 0 g = Some (t, i) ->
  existsb (fun x => str_mem x temporal_keys) (top_level_names g) = false ->
  length (top_level_names g) = length (tags_of g) -> length (groups_of g) <> 1 ->
  reports cfg s f (kind_code K_DURATION_WRONG_NUMBER_GROUPS).
Proof.
  intros Hb Hf Hg Ha Hnt Hlen Hgr.
  apply (reports_full cfg s f (iss K_DURATION_WRONG_NUMBER_GROUPS) Hb Hf); [|reflexivity].
  intros fl Hfl. apply (in_duration_issues cfg f fl _ Hfl). unfold validate_duration_tags.
  apply in_flat_map. exists (t, i, g). split; [apply find_top_level_in; assumption|].
  cbn [snd]. unfold duration_group. fold (top_level_names g). rewrite Hnt.
  apply Nat.eqb_eq in Hlen. rewrite Hlen. cbn [negb].
  apply Nat.eqb_neq in Hgr. rewrite Hgr. left. reflexivity.
Qed.

(* ---------------------------------------------------------------- Onset / Offset / Inset group shape *)
Lemma reports_onset cfg s f g onset oi k :
  basic_clean cfg s f -> (exists fl, full_checks cfg f = Ok fl) ->
  In g (groups_of f) -> first_anchor (map ascii_fold temporal_keys) 0 g = Some (onset, oi) ->
  In (iss k) (onset_group onset oi g) -> kind_sev k = Error ->
  reports cfg s f (kind_code k).
Proof.
  intros Hb Hf Hg Ha Hin Hs.
  apply (reports_full cfg s f (iss k) Hb Hf).
  - intros fl Hfl. apply (in_onset_issues cfg f fl _ Hfl). unfold validate_onset_offset.
    apply in_flat_map. exists (onset, oi, g). split; [apply find_top_level_in; assumption | exact Hin].
  - unfold is_err, isev. simpl. rewrite Hs. reflexivity.
Qed.

Lemma rule_onset_no_def cfg s f g onset oi :
  basic_clean cfg s f -> (exists fl, full_checks cfg f = Ok fl) ->
  In g (groups_of f) -> first_anchor (map ascii_fold temporal_keys) 0 g = Some (onset, oi) ->
  def_tags_from 0 g = [] ->
  reports cfg s f (kind_code K_ONSET_NO_DEF_TAG_FOUND).
Proof.
  intros Hb Hf Hg Ha Hd. apply (reports_onset cfg s f g onset oi K_ONSET_NO_DEF_TAG_FOUND Hb Hf Hg Ha); [|reflexivity].
  unfold onset_group. rewrite Hd. apply in_eq.
Qed.

Lemma rule_onset_too_many_defs cfg s f g onset oi x y l :
  basic_clean cfg s f -> (exists fl, full_checks cfg f = Ok fl) ->
  In g (groups_of f) -> first_anchor (map ascii_fold temporal_keys) 0 g = Some (onset, oi) ->
  def_tags_from 0 g = x :: y :: l ->
  reports cfg s f (kind_code K_ONSET_TOO_MANY_DEFS).
Proof.
  intros Hb Hf Hg Ha Hd. apply (reports_onset cfg s f g onset oi K_ONSET_TOO_MANY_DEFS Hb Hf Hg Ha); [|reflexivity].
  unfold onset_group. rewrite Hd. destruct x as [xt xi]. apply in_eq.
Qed.

Lemma rule_onset_wrong_number_groups cfg s f g onset oi dt di :
  basic_clean cfg s f -> (exists fl, full_checks cfg f = Ok fl) ->
  In g (groups_of f) -> first_anchor (map ascii_fold temporal_keys) 0 g = Some (onset, oi) ->
  def_tags_from 0 g = [(dt, di)] -> onset_max onset < length (onset_children g di oi) ->
  reports cfg s f (kind_code K_ONSET_WRONG_NUMBER_GROUPS).
Proof.
  intros Hb Hf Hg Ha Hd Hlen. apply (reports_onset cfg s f g onset oi K_ONSET_WRONG_NUMBER_GROUPS Hb Hf Hg Ha); [|reflexivity].
  unfold onset_group. rewrite Hd. cbv zeta. apply Nat.ltb_lt in Hlen. rewrite Hlen. left. reflexivity.
Qed.

Lemma rule_onset_tag_outside_group cfg s f g onset oi dt di u rest :
  basic_clean cfg s f -> (exists fl, full_checks cfg f = Ok fl) ->
  In g (groups_of f) -> first_anchor (map ascii_fold temporal_keys) 0 g = Some (onset, oi) ->
  def_tags_from 0 g = [(dt, di)] -> length (onset_children g di oi) <= onset_max onset ->
  onset_children g di oi = FTag u :: rest ->
  reports cfg s f (kind_code K_ONSET_TAG_OUTSIDE_OF_GROUP).
Proof.
  intros Hb Hf Hg Ha Hd Hlen Hch. apply (reports_onset cfg s f g onset oi K_ONSET_TAG_OUTSIDE_OF_GROUP Hb Hf Hg Ha); [|reflexivity].
  unfold onset_group. rewrite Hd. cbv zeta.
  assert (E : Nat.ltb (onset_max onset) (length (onset_children g di oi)) = false) by (apply Nat.ltb_ge; exact Hlen).
  rewrite E, Hch. left. reflexivity.
Qed.

Lemma rule_onset_def_unmatched cfg s f g onset oi dt di :
  basic_clean cfg s f -> (exists fl, full_checks cfg f = Ok fl) ->
  In g (groups_of f) -> first_anchor (map ascii_fold temporal_keys) 0 g = Some (onset, oi) ->
  def_tags_from 0 g = [(dt, di)] -> length (onset_children g di oi) <= onset_max onset ->
  tf_def_known dt = false ->
  reports cfg s f (kind_code K_ONSET_DEF_UNMATCHED).
Proof.
  intros Hb Hf Hg Ha Hd Hlen Hk. apply (reports_onset cfg s f g onset oi K_ONSET_DEF_UNMATCHED Hb Hf Hg Ha); [|reflexivity].
  unfold onset_group. rewrite Hd. cbv zeta.
  assert (E : Nat.ltb (onset_max onset) (length (onset_children g di oi)) = false) by (apply Nat.ltb_ge; exact Hlen).
  rewrite E. apply in_or_app. right. unfold handle_onset_or_offset.
  destruct (partition_slash (extension dt)) as [nm ph]. rewrite Hk. left. reflexivity.
Qed.

Definition has_placeholder (dt : tagfacts) : bool :=
  match snd (partition_slash (extension dt)) with [] => false | _ => true end.

Lemma rule_onset_placeholder_wrong cfg s f g onset oi dt di :
  basic_clean cfg s f -> (exists fl, full_checks cfg f = Ok fl) ->
  In g (groups_of f) -> first_anchor (map ascii_fold temporal_keys) 0 g = Some (onset, oi) ->
  def_tags_from 0 g = [(dt, di)] -> length (onset_children g di oi) <= onset_max onset ->
  tf_def_known dt = true -> tf_def_takes_value dt <> has_placeholder dt ->
  reports cfg s f (kind_code K_ONSET_PLACEHOLDER_WRONG).
Proof.
  intros Hb Hf Hg Ha Hd Hlen Hk Hne. apply (reports_onset cfg s f g onset oi K_ONSET_PLACEHOLDER_WRONG Hb Hf Hg Ha); [|reflexivity].
  unfold onset_group. rewrite Hd. cbv zeta.
  assert (E : Nat.ltb (onset_max onset) (length (onset_children g di oi)) = false) by (apply Nat.ltb_ge; exact Hlen).
  rewrite E. apply in_or_app. right. unfold handle_onset_or_offset, has_placeholder in *.
  destruct (partition_slash (extension dt)) as [nm ph]. cbn [snd] in Hne. rewrite Hk. cbn [negb].
  destruct (Bool.eqb (tf_def_takes_value dt) (match ph with [] => false | _ => true end)) eqn:Eb.
  - apply Bool.eqb_prop in Eb. contradiction.
  - left. reflexivity.
Qed.

(* ---------------------------------------------------------------- the grammar of temporal groups *)
Definition duration_group_ok (g : list fnode) : Prop :=
  first_anchor (map ascii_fold duration_keys) 0 g = None
  \/ existsb (fun x => str_mem x temporal_keys) (top_level_names g) = true
  \/ (length (top_level_names g) = length (tags_of g) /\ length (groups_of g) = 1).

Definition onset_group_ok (g : list fnode) : Prop :=
  match first_anchor (map ascii_fold temporal_keys) 0 g with
  | None => True
  | Some (onset, oi) =>
      exists dt di, def_tags_from 0 g = [(dt, di)]
        /\ length (onset_children g di oi) <= onset_max onset
        /\ (forall u rest, onset_children g di oi <> FTag u :: rest)
        /\ tf_def_known dt = true /\ tf_def_takes_value dt = has_placeholder dt
  end.

Lemma duration_ok_silent f : Forall duration_group_ok (groups_of f) -> validate_duration_tags f = [].
Proof.
  intros H. unfold validate_duration_tags. apply flat_map_nil. intros [[t i] g] Hin. cbn [snd].
  apply find_top_level_inv in Hin as [Hg Ha]. rewrite Forall_forall in H. destruct (H g Hg) as [Hn | [Ht | [Hl Hgr]]].
  - congruence.
  - unfold duration_group. fold (top_level_names g). rewrite Ht. reflexivity.
  - unfold duration_group. fold (top_level_names g). destruct (existsb _ (top_level_names g)); [reflexivity|].
    apply Nat.eqb_eq in Hl. rewrite Hl. apply Nat.eqb_eq in Hgr. rewrite Hgr. reflexivity.
Qed.

Lemma onset_ok_silent f : Forall onset_group_ok (groups_of f) -> validate_onset_offset f = [].
Proof.
  intros H. unfold validate_onset_offset. apply flat_map_nil. intros [[onset oi] g] Hin.
  apply find_top_level_inv in Hin as [Hg Ha]. rewrite Forall_forall in H. specialize (H g Hg).
  unfold onset_group_ok in H. rewrite Ha in H. destruct H as (dt & di & Hd & Hlen & Hnt & Hk & Htv).
  unfold onset_group. rewrite Hd. cbv zeta.
  assert (E : Nat.ltb (onset_max onset) (length (onset_children g di oi)) = false) by (apply Nat.ltb_ge; exact Hlen).
  rewrite E.
  assert (E2 : match onset_children g di oi with FTag _ :: _ => [iss K_ONSET_TAG_OUTSIDE_OF_GROUP] | _ => [] end = []).
  { destruct (onset_children g di oi) as [|[u|gg] rest] eqn:Ec; try reflexivity. exfalso. eapply Hnt. reflexivity. }
  rewrite E2. cbn [app]. unfold handle_onset_or_offset, has_placeholder in *.
  destruct (partition_slash (extension dt)) as [nm ph]. cbn [snd] in Htv. rewrite Hk, Htv. cbn [negb].
  rewrite Bool.eqb_reflx. reflexivity.
Qed.

(* ---------------------------------------------------------------- FULL Conforming and valid_no_error *)
Record ConformingFull (cfg : config) (f : list fnode) : Prop := {
  cff_base : Conforming cfg f;
  (* no two equal siblings (same canonical, case-folded, order-free text) in any group *)
  cff_nodup : nodup_groups (f :: sub_groups f);
  (* correctly shaped Duration/Delay groups and Onset/Offset/Inset groups *)
  cff_duration : Forall duration_group_ok (groups_of f);
  cff_onset : Forall onset_group_ok (groups_of f)
}.

Theorem valid_no_error cfg f :
  ConformingFull cfg f -> exists r, validate_forest cfg f = Ok r /\ errors r = [].
Proof.
  intros [Hc Hnd Hdu Hon].
  apply (valid_no_error_partial cfg f []); try assumption; try reflexivity.
  - apply check_duplicates_sound. exact Hnd.
  - rewrite duration_ok_silent by exact Hdu. reflexivity.
  - rewrite onset_ok_silent by exact Hon. reflexivity.
Qed.
