(* C02: printing a parse tree and re-parsing it gives an equal tree, for ALL strings.
   Route: a shape-level specification parser [parse_sh] (tags carry their text),
   (1) parse_sh s = shapes of spec_parse s, (2) parse_sh (pr l) = l for well-formed l,
   (3) print_forest = pr on shapes, (4) parse_sh always yields well-formed shapes. *)
From Coq Require Import List NArith Arith Bool Lia.
From HV Require Import Base.Res Base.Str Model.Parse Proofs.ParseProofs Proofs.ParseRefine.
Import ListNotations.

(* ---------- trimming as text ---------- *)

Definition trim_text (l : str) : str :=
  let '(_, r') := trim_left l 0 in firstn (trim_right_len r') r'.

Lemma trim_left_spec l : forall a a' r', trim_left l a = (a', r') ->
  exists k, l = spaces k ++ r' /\ a' = a + k /\
            (r' = [] \/ exists c r, r' = c :: r /\ N.eqb c ch_space = false).
Proof.
  induction l as [|c l IH]; intros a a' r' H; simpl in H.
  - inversion H; subst. exists 0. simpl. split; [reflexivity|]. split; [lia | left; reflexivity].
  - destruct (N.eqb c ch_space) eqn:Hc.
    + apply N.eqb_eq in Hc. subst c. destruct (IH _ _ _ H) as (k & Hl & Ha & Hr).
      exists (S k). rewrite spaces_S, <- app_comm_cons, <- Hl. split; [reflexivity|]. split; [lia | exact Hr].
    + inversion H; subst. exists 0. simpl. split; [reflexivity|]. split; [lia|]. right. eauto.
Qed.

Lemma trim_left_shift l : forall x y,
  fst (trim_left l x) + y = fst (trim_left l y) + x /\ snd (trim_left l x) = snd (trim_left l y).
Proof.
  induction l as [|c l IH]; intros x y; simpl.
  - split; [lia | reflexivity].
  - destruct (N.eqb c ch_space).
    + destruct (IH (S x) (S y)) as [A B]. split; [lia | exact B].
    + simpl. split; [lia | reflexivity].
Qed.

Lemma trim_left_offset l a : trim_left l a = (a + fst (trim_left l 0), snd (trim_left l 0)).
Proof.
  destruct (trim_left_shift l a 0) as [A B].
  destruct (trim_left l a) as [a1 r1]. destruct (trim_left l 0) as [a0 r0]. simpl in *.
  subst. f_equal. lia.
Qed.

Lemma lead_spaces_spec l :
  exists m r, l = spaces m ++ r /\ lead_spaces l = m /\
              (r = [] \/ exists c r', r = c :: r' /\ N.eqb c ch_space = false).
Proof.
  induction l as [|c l IH].
  - exists 0, []. simpl. auto.
  - simpl. destruct (N.eqb c ch_space) eqn:Hc.
    + apply N.eqb_eq in Hc. subst c. destruct IH as (m & r & Hl & Hm & Hr).
      exists (S m), r. rewrite spaces_S, <- app_comm_cons, <- Hl. fold lead_spaces. rewrite Hm. auto.
    + exists 0, (c :: l). simpl. split; [reflexivity|]. split; [reflexivity|]. right. eauto.
Qed.

(* a list that starts with a non-blank is body ++ blanks with body trimmed at both ends *)
Lemma split_trailing c r :
  N.eqb c ch_space = false ->
  exists b c' m, c :: r = (b ++ [c']) ++ spaces m /\ N.eqb c' ch_space = false /\
                 trim_right_len (c :: r) = length (b ++ [c']).
Proof.
  intros Hc. destruct (lead_spaces_spec (rev (c :: r))) as (m & t & Hl & Hm & Ht).
  assert (Hrev : c :: r = rev t ++ spaces m).
  { rewrite <- (rev_involutive (c :: r)), Hl, rev_app_distr, rev_spaces. reflexivity. }
  destruct Ht as [-> | (c' & t' & -> & Hc')].
  - simpl in Hrev. destruct m; [discriminate|]. rewrite spaces_S in Hrev. inversion Hrev; subst.
    discriminate.
  - exists (rev t'), c', m. simpl in Hrev. split; [exact Hrev|]. split; [exact Hc'|].
    rewrite Hrev. apply trim_right_len_body. exact Hc'.
Qed.

Lemma trim_text_tagbody l :
  Forall (fun c => is_delim c = false) l -> trim_text l = [] \/ tagbody (trim_text l).
Proof.
  intros Hnd. unfold trim_text. destruct (trim_left l 0) as [a0 r0] eqn:E.
  destruct (trim_left_spec _ _ _ _ E) as (k & Hl & _ & Hr).
  destruct Hr as [-> | (c & r & -> & Hc)]; [left; destruct (trim_right_len []); reflexivity|].
  right. destruct (split_trailing c r Hc) as (b & c' & m & Hcr & Hc' & Htl).
  rewrite Htl, Hcr, firstn_app, firstn_all, Nat.sub_diag. simpl. rewrite app_nil_r.
  assert (Hnd' : Forall (fun c0 => is_delim c0 = false) (b ++ [c'])).
  { rewrite Hl, Hcr in Hnd. apply Forall_app in Hnd. destruct Hnd as [_ Hnd].
    apply Forall_app in Hnd. tauto. }
  repeat split.
  - destruct b as [|c0 b']; simpl in Hcr; inversion Hcr as [[E1 E2]].
    + exists c', []. split; [reflexivity | rewrite <- E1; exact Hc].
    + exists c0, (b' ++ [c']). split; [reflexivity | rewrite <- E1; exact Hc].
  - exists b, c'. auto.
  - exact Hnd'.
Qed.

Lemma trim_text_body t : tagbody t -> trim_text t = t.
Proof.
  intros ((c & r & Hb & Hc) & (r' & c' & Hb' & Hc') & _). unfold trim_text.
  rewrite Hb at 1. rewrite trim_left_nonspace by exact Hc. rewrite <- Hb.
  pose proof (trim_right_len_body r' c' 0 Hc') as H. simpl in H. rewrite app_nil_r in H.
  rewrite Hb'. rewrite H. apply firstn_all.
Qed.

(* ---------- shape-level specification parser ---------- *)

Definition sframe := list shape.

Definition push_sh (x : shape) (st : list sframe) : list sframe :=
  match st with top :: rest => (x :: top) :: rest | [] => [] end.

Definition flush_sh (run : str) (st : list sframe) : list sframe :=
  match trim_text (rev run) with
  | [] => st
  | t => push_sh (STag t) st
  end.

Fixpoint spec_loop_sh (cs : str) (run : str) (st : list sframe) : option (list sframe) :=
  match cs with
  | [] => Some (flush_sh run st)
  | c :: cs' =>
      if is_delim c then
        let st1 := flush_sh run st in
        if N.eqb c ch_open then spec_loop_sh cs' [] ([] :: st1)
        else if N.eqb c ch_close then
          match st1 with
          | g :: p :: rest => spec_loop_sh cs' [] ((SGroup (rev g) :: p) :: rest)
          | _ => None
          end
        else spec_loop_sh cs' [] st1
      else spec_loop_sh cs' (c :: run) st
  end.

Definition parse_sh (s : str) : list shape :=
  match spec_loop_sh s [] [[]] with
  | Some [ch] => rev ch
  | _ => []
  end.
