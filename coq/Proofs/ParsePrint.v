(* C02: printing a parse tree and re-parsing it gives an equal tree, for ALL strings.
   Route: a shape-level specification parser [parse_sh] (tags carry their text),
   (1) parse_sh s = shapes of spec_parse s, (2) parse_sh (pr l) = l for well-formed l,
   (3) print_forest = pr on shapes, (4) parse_sh always yields well-formed shapes. *)
From Coq Require Import List NArith Arith Bool Lia.
From HV Require Import Base.Res Base.Str Model.Parse Proofs.ParseProofs Proofs.ParseRefine.
Import ListNotations.

(* ---------- trimming as text ---------- *)

Definition trim_text (l : str) : str :=
  let '(_, r') := trim_left l 0 in firstn (trim_right_len r') r'.

Lemma trim_left_spec l : forall a a' r', trim_left l a = (a', r') ->
  exists k, l = spaces k ++ r' /\ a' = a + k /\
            (r' = [] \/ exists c r, r' = c :: r /\ N.eqb c ch_space = false).
Proof.
  induction l as [|c l IH]; intros a a' r' H; simpl in H.
  - inversion H; subst. exists 0. simpl. split; [reflexivity|]. split; [lia | left; reflexivity].
  - destruct (N.eqb c ch_space) eqn:Hc.
    + apply N.eqb_eq in Hc. subst c. destruct (IH _ _ _ H) as (k & Hl & Ha & Hr).
      exists (S k). rewrite spaces_S, <- app_comm_cons, <- Hl. split; [reflexivity|]. split; [lia | exact Hr].
    + inversion H; subst. exists 0. simpl. split; [reflexivity|]. split; [lia|]. right. eauto.
Qed.

Lemma trim_left_shift l : forall x y,
  fst (trim_left l x) + y = fst (trim_left l y) + x /\ snd (trim_left l x) = snd (trim_left l y).
Proof.
  induction l as [|c l IH]; intros x y; simpl.
  - split; [lia | reflexivity].
  - destruct (N.eqb c ch_space).
    + destruct (IH (S x) (S y)) as [A B]. split; [lia | exact B].
    + simpl. split; [lia | reflexivity].
Qed.

Lemma trim_left_offset l a : trim_left l a = (a + fst (trim_left l 0), snd (trim_left l 0)).
Proof.
  destruct (trim_left_shift l a 0) as [A B].
  destruct (trim_left l a) as [a1 r1]. destruct (trim_left l 0) as [a0 r0]. simpl in *.
  subst. f_equal. lia.
Qed.

Lemma lead_spaces_spec l :
  exists m r, l = spaces m ++ r /\ lead_spaces l = m /\
              (r = [] \/ exists c r', r = c :: r' /\ N.eqb c ch_space = false).
Proof.
  induction l as [|c l IH].
  - exists 0, []. simpl. auto.
  - simpl. destruct (N.eqb c ch_space) eqn:Hc.
    + apply N.eqb_eq in Hc. subst c. destruct IH as (m & r & Hl & Hm & Hr).
      exists (S m), r. rewrite spaces_S, <- app_comm_cons, <- Hl. rewrite Hm. auto.
    + exists 0, (c :: l). simpl. split; [reflexivity|]. split; [reflexivity|]. right. eauto.
Qed.

(* a list that starts with a non-blank is body ++ blanks with body trimmed at both ends *)
Lemma split_trailing c r :
  N.eqb c ch_space = false ->
  exists b c' m, c :: r = (b ++ [c']) ++ spaces m /\ N.eqb c' ch_space = false /\
                 trim_right_len (c :: r) = length (b ++ [c']).
Proof.
  intros Hc. destruct (lead_spaces_spec (rev (c :: r))) as (m & t & Hl & Hm & Ht).
  assert (Hrev : c :: r = rev t ++ spaces m).
  { rewrite <- (rev_involutive (c :: r)), Hl, rev_app_distr, rev_spaces. reflexivity. }
  destruct Ht as [-> | (c' & t' & -> & Hc')].
  - simpl in Hrev. destruct m; [discriminate|]. rewrite spaces_S in Hrev. inversion Hrev; subst.
    discriminate.
  - exists (rev t'), c', m. simpl in Hrev. split; [exact Hrev|]. split; [exact Hc'|].
    rewrite Hrev. apply trim_right_len_body. exact Hc'.
Qed.

Lemma trim_text_tagbody l :
  Forall (fun c => is_delim c = false) l -> trim_text l = [] \/ tagbody (trim_text l).
Proof.
  intros Hnd. unfold trim_text. destruct (trim_left l 0) as [a0 r0] eqn:E.
  destruct (trim_left_spec _ _ _ _ E) as (k & Hl & _ & Hr).
  destruct Hr as [-> | (c & r & -> & Hc)]; [left; destruct (trim_right_len []); reflexivity|].
  right. destruct (split_trailing c r Hc) as (b & c' & m & Hcr & Hc' & Htl).
  rewrite Htl, Hcr, firstn_app, firstn_all, Nat.sub_diag. simpl. rewrite app_nil_r.
  assert (Hnd' : Forall (fun c0 => is_delim c0 = false) (b ++ [c'])).
  { rewrite Hl, Hcr in Hnd. apply Forall_app in Hnd. destruct Hnd as [_ Hnd].
    apply Forall_app in Hnd. tauto. }
  repeat split.
  - destruct b as [|c0 b']; simpl in Hcr; inversion Hcr as [[E1 E2]].
    + exists c', []. split; [reflexivity | rewrite <- E1; exact Hc].
    + exists c0, (b' ++ [c']). split; [reflexivity | rewrite <- E1; exact Hc].
  - exists b, c'. auto.
  - exact Hnd'.
Qed.

Lemma trim_text_body t : tagbody t -> trim_text t = t.
Proof.
  intros ((c & r & Hb & Hc) & (r' & c' & Hb' & Hc') & _). unfold trim_text.
  rewrite Hb at 1. rewrite trim_left_nonspace by exact Hc. rewrite <- Hb.
  pose proof (trim_right_len_body r' c' 0 Hc') as H. simpl in H. rewrite app_nil_r in H.
  rewrite Hb'. rewrite H. apply firstn_all.
Qed.

(* ---------- shape-level specification parser ---------- *)

Definition sframe := list shape.

Definition push_sh (x : shape) (st : list sframe) : list sframe :=
  match st with top :: rest => (x :: top) :: rest | [] => [] end.

Definition flush_sh (run : str) (st : list sframe) : list sframe :=
  match trim_text (rev run) with
  | [] => st
  | t => push_sh (STag t) st
  end.

Fixpoint spec_loop_sh (cs : str) (run : str) (st : list sframe) : option (list sframe) :=
  match cs with
  | [] => Some (flush_sh run st)
  | c :: cs' =>
      if is_delim c then
        let st1 := flush_sh run st in
        if N.eqb c ch_open then spec_loop_sh cs' [] ([] :: st1)
        else if N.eqb c ch_close then
          match st1 with
          | g :: p :: rest => spec_loop_sh cs' [] ((SGroup (rev g) :: p) :: rest)
          | _ => None
          end
        else spec_loop_sh cs' [] st1
      else spec_loop_sh cs' (c :: run) st
  end.

Definition parse_sh (s : str) : list shape :=
  match spec_loop_sh s [] [[]] with
  | Some [ch] => rev ch
  | _ => []
  end.

(* ---------- (1) the span-level spec and the shape-level spec agree ---------- *)

Definition frames_sh (s : str) (st : list frame) : list sframe :=
  map (fun f : frame => map (shape_of s) (snd f)) st.

Lemma lead_spaces_snoc_le l c : N.eqb c ch_space = false -> lead_spaces (l ++ [c]) <= length l.
Proof.
  intros Hc.
  assert (Hcons : forall x l0, lead_spaces (x :: l0) = if N.eqb x ch_space then S (lead_spaces l0) else 0)
    by reflexivity.
  induction l as [|x l IH].
  - simpl. rewrite Hc. lia.
  - rewrite <- app_comm_cons, Hcons. destruct (N.eqb x ch_space); cbn [length]; lia.
Qed.

Lemma trim_right_len_pos c r : N.eqb c ch_space = false -> 0 < trim_right_len (c :: r).
Proof.
  intros Hc. rewrite trim_right_len_eq. simpl rev.
  pose proof (lead_spaces_snoc_le (rev r) c Hc) as H. rewrite rev_length in H.
  cbn [length]. lia.
Qed.

Lemma trim_right_len_le l : trim_right_len l <= length l.
Proof. rewrite trim_right_len_eq. lia. Qed.

Lemma push_child_sh s n st :
  frames_sh s (push_child n st) = push_sh (shape_of s n) (frames_sh s st).
Proof. destruct st as [|[a ch] rest]; reflexivity. Qed.

Lemma sub_prefix_mid (p x q : str) L :
  L <= length x -> sub (p ++ x ++ q) (length p) (length p + L) = firstn L x.
Proof.
  intros HL. unfold sub. rewrite skipn_app, skipn_all, Nat.sub_diag. cbn [skipn app].
  replace (length p + L - length p) with L by lia.
  rewrite firstn_app. replace (L - length x) with 0 by lia. simpl. apply app_nil_r.
Qed.

Lemma flush_agree s pre0 run cs st :
  s = pre0 ++ rev run ++ cs ->
  frames_sh s (flush_run (length pre0) run st) = flush_sh run (frames_sh s st).
Proof.
  intros Hs. unfold flush_run, flush_sh, trim_text.
  rewrite (trim_left_offset (rev run) (length pre0)).
  destruct (trim_left (rev run) 0) as [a0 r0] eqn:E. cbn [fst snd].
  destruct (trim_left_spec _ _ _ _ E) as (k & Hl & Ha & Hr). simpl in Ha. subst a0.
  destruct Hr as [-> | (c & r & -> & Hc)].
  - destruct (trim_right_len []); reflexivity.
  - pose proof (trim_right_len_pos c r Hc) as Hpos. pose proof (trim_right_len_le (c :: r)) as Hle.
    set (L := trim_right_len (c :: r)) in *.
    destruct (firstn L (c :: r)) eqn:Ef.
    + destruct L; [lia | discriminate].
    + rewrite push_child_sh. f_equal. cbn [shape_of]. f_equal. rewrite <- Ef.
      rewrite Hs, Hl.
      replace (length pre0 + k) with (length (pre0 ++ spaces k)) by (rewrite app_length, spaces_length; reflexivity).
      rewrite <- app_assoc, (app_assoc pre0). apply sub_prefix_mid. exact Hle.
Qed.

Lemma sim_sh s cs : forall pre0 run st,
  s = pre0 ++ rev run ++ cs ->
  option_map (frames_sh s) (spec_loop cs (length pre0 + length run) (length pre0) run st)
  = spec_loop_sh cs run (frames_sh s st).
Proof.
  induction cs as [|c cs IH]; intros pre0 run st Hs.
  - cbn [spec_loop spec_loop_sh option_map]. f_equal. apply (flush_agree s pre0 run []). exact Hs.
  - cbn [spec_loop spec_loop_sh].
    pose proof (flush_agree s pre0 run (c :: cs) st Hs) as Hfl.
    assert (Hs' : s = (pre0 ++ rev run ++ [c]) ++ rev [] ++ cs).
    { rewrite Hs. simpl. rewrite <- !app_assoc. reflexivity. }
    assert (Hlen : S (length pre0 + length run) = length (pre0 ++ rev run ++ [c]) + length (@nil N)).
    { rewrite !app_length, rev_length. simpl. lia. }
    assert (Hlen2 : S (length pre0 + length run) = length (pre0 ++ rev run ++ [c])).
    { rewrite !app_length, rev_length. simpl. lia. }
    destruct (is_delim c) eqn:Hd.
    + rewrite <- Hfl.
      destruct (N.eqb c ch_open) eqn:Ho.
      * rewrite Hlen at 1. rewrite Hlen2 at 1.
        rewrite (IH _ [] _ Hs'). reflexivity.
      * destruct (N.eqb c ch_close) eqn:Hc.
        -- destruct (flush_run (length pre0) run st) as [|[ga gch] [|[pa pch] rest]]; try reflexivity.
           rewrite Hlen at 1. rewrite Hlen2 at 1. rewrite (IH _ [] _ Hs').
           cbn [frames_sh map snd shape_of]. rewrite map_rev. reflexivity.
        -- rewrite Hlen at 1. rewrite Hlen2 at 1. rewrite (IH _ [] _ Hs'). reflexivity.
    + assert (Hs2 : s = pre0 ++ rev (c :: run) ++ cs).
      { rewrite Hs. simpl. rewrite <- !app_assoc. reflexivity. }
      replace (S (length pre0 + length run)) with (length pre0 + length (c :: run)) by (simpl; lia).
      apply (IH pre0 (c :: run) st Hs2).
Qed.

Theorem parse_sh_spec (s : str) : parse_sh s = map (shape_of s) (spec_parse s).
Proof.
  unfold parse_sh, spec_parse.
  pose proof (sim_sh s s [] [] [(0, [])]) as H. simpl in H. rewrite <- H by reflexivity.
  destruct (spec_loop s 0 0 [] [(0, [])]) as [[|[a ch] [|f2 rest]]|]; try reflexivity.
  simpl. rewrite map_rev. reflexivity.
Qed.

(* ---------- (3) printing is a function of the shapes ---------- *)

Fixpoint pr1 (x : shape) : str :=
  match x with
  | STag t => t
  | SGroup ch => [ch_open] ++ join [ch_comma] (map pr1 ch) ++ [ch_close]
  end.
Definition pr_list (l : list shape) : str := join [ch_comma] (map pr1 l).

Lemma print_node_pr s : forall n, print_node s n = pr1 (shape_of s n).
Proof.
  fix IH 1. intros [a b | a b ch]; [reflexivity|].
  cbn [print_node shape_of pr1]. f_equal. f_equal. f_equal. rewrite map_map.
  induction ch as [|x ch IHch]; [reflexivity|]. cbn [map]. rewrite IH, IHch. reflexivity.
Qed.

Lemma print_forest_pr s f : print_forest s f = pr_list (map (shape_of s) f).
Proof.
  unfold print_forest, pr_list. f_equal. rewrite map_map. apply map_ext. apply print_node_pr.
Qed.

(* ---------- (4) shapes produced by the specification are well formed ---------- *)

Inductive wf : shape -> Prop :=
| wf_tag t : tagbody t -> wf (STag t)
| wf_group ch : Forall wf ch -> wf (SGroup ch).

Lemma flush_sh_nil st : flush_sh [] st = st.
Proof. reflexivity. Qed.

Lemma flush_sh_wf run st :
  Forall (fun c => is_delim c = false) run -> Forall (Forall wf) st -> Forall (Forall wf) (flush_sh run st).
Proof.
  intros Hr Hst. unfold flush_sh.
  assert (Hrr : Forall (fun c => is_delim c = false) (rev run)).
  { apply Forall_forall. intros x Hx. apply in_rev in Hx. revert x Hx. apply Forall_forall. exact Hr. }
  destruct (trim_text_tagbody (rev run) Hrr) as [E|Hb].
  - rewrite E. exact Hst.
  - destruct (trim_text (rev run)) eqn:E; [exact Hst|].
    destruct st as [|top rest]; [constructor|]. inversion Hst; subst.
    constructor; [|assumption]. constructor; [|assumption]. constructor. exact Hb.
Qed.

Lemma spec_loop_sh_wf cs : forall run st st',
  Forall (fun c => is_delim c = false) run -> Forall (Forall wf) st ->
  spec_loop_sh cs run st = Some st' -> Forall (Forall wf) st'.
Proof.
  induction cs as [|c cs IH]; intros run st st' Hr Hst H; cbn [spec_loop_sh] in H.
  - inversion H; subst. apply flush_sh_wf; assumption.
  - pose proof (flush_sh_wf run st Hr Hst) as Hf.
    destruct (is_delim c) eqn:Hd.
    + destruct (N.eqb c ch_open).
      * eapply IH; [constructor | | exact H]. constructor; [constructor | exact Hf].
      * destruct (N.eqb c ch_close).
        -- destruct (flush_sh run st) as [|g [|p rest]]; try discriminate.
           inversion Hf as [|? ? Hg Hf']; subst. inversion Hf' as [|? ? Hp Hrest]; subst.
           eapply IH; [constructor | | exact H].
           constructor; [|exact Hrest]. constructor; [|exact Hp]. constructor.
           apply Forall_forall. intros x Hx. apply in_rev in Hx. revert x Hx. apply Forall_forall. exact Hg.
        -- eapply IH; [constructor | exact Hf | exact H].
    + eapply IH; [| exact Hst | exact H]. constructor; assumption.
Qed.

Theorem parse_sh_wf (s : str) : Forall wf (parse_sh s).
Proof.
  unfold parse_sh. destruct (spec_loop_sh s [] [[]]) as [[|ch [|f2 rest]]|] eqn:E; try constructor.
  assert (H : Forall (Forall wf) [ch]).
  { eapply spec_loop_sh_wf; [constructor | | exact E]. constructor; constructor. }
  inversion H; subst. apply Forall_forall. intros x Hx. apply in_rev in Hx. revert x Hx.
  apply Forall_forall. assumption.
Qed.

(* ---------- (2) parsing a printed well-formed forest gives it back ---------- *)

Lemma shape_ind2 (P : shape -> Prop) :
  (forall t, P (STag t)) -> (forall ch, Forall P ch -> P (SGroup ch)) -> forall x, P x.
Proof.
  intros Ht Hg. fix IH 1. intros [t|ch]; [apply Ht|]. apply Hg.
  induction ch as [|y ch IHch]; constructor; [apply IH | exact IHch].
Qed.

Definition delim_or_nil (rest : str) : Prop :=
  rest = [] \/ exists d r, rest = d :: r /\ is_delim d = true.

Lemma spec_loop_sh_nodelim l : forall rest run st,
  Forall (fun c => is_delim c = false) l ->
  spec_loop_sh (l ++ rest) run st = spec_loop_sh rest (rev l ++ run) st.
Proof.
  induction l as [|c l IH]; intros rest run st Hf; [reflexivity|].
  inversion Hf as [|? ? Hc Hl]; subst. simpl. rewrite Hc, IH by exact Hl.
  rewrite <- app_assoc. reflexivity.
Qed.

Lemma flush_transfer rest run st :
  delim_or_nil rest -> spec_loop_sh rest run st = spec_loop_sh rest [] (flush_sh run st).
Proof.
  intros [-> | (d & r & -> & Hd)].
  - reflexivity.
  - cbn [spec_loop_sh]. rewrite Hd, flush_sh_nil. reflexivity.
Qed.

Definition item_ok (x : shape) : Prop :=
  wf x -> forall rest top st, delim_or_nil rest ->
  spec_loop_sh (pr1 x ++ rest) [] (top :: st) = spec_loop_sh rest [] ((x :: top) :: st).

Lemma list_ok l : Forall item_ok l -> Forall wf l -> forall rest top st, delim_or_nil rest ->
  spec_loop_sh (pr_list l ++ rest) [] (top :: st) = spec_loop_sh rest [] ((rev l ++ top) :: st).
Proof.
  induction l as [|x l IH]; intros Hok Hwf rest top st Hrest; [reflexivity|].
  inversion Hok as [|? ? Hx Hok']; subst. inversion Hwf as [|? ? Hwx Hwf']; subst.
  destruct l as [|y l'].
  - unfold pr_list. cbn [map join]. rewrite (Hx Hwx rest top st Hrest). reflexivity.
  - assert (E : pr_list (x :: y :: l') = pr1 x ++ ch_comma :: pr_list (y :: l')) by reflexivity.
    rewrite E, <- app_assoc, <- app_comm_cons.
    rewrite (Hx Hwx).
    2: { right. exists ch_comma, (pr_list (y :: l') ++ rest). auto. }
    cbn [spec_loop_sh]. change (is_delim ch_comma) with true. cbv iota.
    change (N.eqb ch_comma ch_open) with false. change (N.eqb ch_comma ch_close) with false. cbv iota.
    rewrite flush_sh_nil.
    transitivity (spec_loop_sh rest [] ((rev (y :: l') ++ x :: top) :: st));
      [apply (IH Hok' Hwf'); exact Hrest|].
    cbn [rev]. rewrite <- !app_assoc. reflexivity.
Qed.

Lemma item_ok_all : forall x, item_ok x.
Proof.
  apply shape_ind2.
  - intros t Hw rest top st Hrest. inversion Hw as [? Hb|]; subst. cbn [pr1].
    destruct Hb as (Hb1 & Hb2 & Hnd).
    rewrite spec_loop_sh_nodelim by exact Hnd. rewrite app_nil_r.
    rewrite flush_transfer by exact Hrest. unfold flush_sh. rewrite rev_involutive.
    rewrite trim_text_body by (repeat split; assumption).
    destruct t as [|c t']; [destruct Hb1 as (c & r & E & _); discriminate | reflexivity].
  - intros ch Hall Hw rest top st Hrest. inversion Hw as [|? Hwch]; subst. cbn [pr1].
    rewrite <- !app_assoc. cbn [app spec_loop_sh]. change (is_delim ch_open) with true. cbv iota.
    change (N.eqb ch_open ch_open) with true. cbv iota. rewrite flush_sh_nil.
    fold (pr_list ch).
    rewrite (list_ok ch Hall Hwch).
    2: { right. exists ch_close, rest. auto. }
    cbn [spec_loop_sh]. change (is_delim ch_close) with true. cbv iota.
    change (N.eqb ch_close ch_open) with false. change (N.eqb ch_close ch_close) with true. cbv iota.
    rewrite flush_sh_nil, app_nil_r, rev_involutive. reflexivity.
Qed.

Theorem parse_pr (l : list shape) : Forall wf l -> parse_sh (pr_list l) = l.
Proof.
  intros Hw.
  assert (Hall : Forall item_ok l) by (apply Forall_forall; intros x _; apply item_ok_all).
  assert (H : spec_loop_sh (pr_list l) [] [[]] = Some [rev l]).
  { rewrite <- (app_nil_r (pr_list l)).
    etransitivity; [apply (list_ok l Hall Hw [] [] []); left; reflexivity|].
    cbn [spec_loop_sh]. rewrite flush_sh_nil, app_nil_r. reflexivity. }
  exact (eq_trans (f_equal (fun o : option (list sframe) =>
                              match o with Some [ch] => rev ch | _ => [] end) H)
                  (rev_involutive l)).
Qed.

(* ---------- the property clause, for ALL strings ---------- *)

Theorem print_reparse (s : str) :
  let f := spec_parse s in
  let p := print_forest s f in
  map (shape_of p) (spec_parse p) = map (shape_of s) f.
Proof.
  cbv zeta. rewrite <- !parse_sh_spec. rewrite print_forest_pr, <- parse_sh_spec.
  apply parse_pr. apply parse_sh_wf.
Qed.

(* in terms of the modelled constructor *)
Theorem init_print_reparse (s : str) :
  forall f, hedstring_init s = Ok f ->
  exists f', hedstring_init (print_forest s f) = Ok f' /\
             map (shape_of (print_forest s f)) f' = map (shape_of s) f.
Proof.
  intros f Hf. rewrite init_refines_spec in Hf. inversion Hf; subst f.
  exists (spec_parse (print_forest s (spec_parse s))). split; [apply init_refines_spec | apply print_reparse].
Qed.

(* ---------- printing in ANY form whose tag texts are well formed ---------- *)

(* replace every tag text by its rendering (short form, long form, ...) *)
Fixpoint map_sh (r : str -> str) (x : shape) : shape :=
  match x with
  | STag t => STag (r t)
  | SGroup ch => SGroup (map (map_sh r) ch)
  end.

Lemma wf_map_sh (r : str -> str) :
  (forall t, tagbody t -> tagbody (r t)) -> forall x, wf x -> wf (map_sh r x).
Proof.
  intros Hr. apply (shape_ind2 (fun x => wf x -> wf (map_sh r x))).
  - intros t Hw. inversion Hw; subst. constructor. apply Hr. assumption.
  - intros ch IH Hw. inversion Hw as [|? Hch]; subst. cbn [map_sh]. constructor.
    apply Forall_forall. intros y Hy. apply in_map_iff in Hy. destruct Hy as (x & <- & Hx).
    rewrite Forall_forall in IH, Hch. apply IH; auto.
Qed.

(* Printing the tree of ANY text with every tag rendered by [r] (a rendering that
   yields non-empty, delimiter-free, trimmed texts -- e.g. the short or the long
   form, see C03) and re-parsing gives the same nesting with the rendered tags. *)
Theorem render_reparse (s : str) (r : str -> str) :
  (forall t, tagbody t -> tagbody (r t)) ->
  let l := map (map_sh r) (parse_sh s) in
  parse_sh (pr_list l) = l.
Proof.
  intros Hr. cbv zeta. apply parse_pr.
  apply Forall_forall. intros y Hy. apply in_map_iff in Hy. destruct Hy as (x & <- & Hx).
  apply wf_map_sh; [exact Hr|]. pose proof (parse_sh_wf s) as Hw. rewrite Forall_forall in Hw. auto.
Qed.
