(* The file pipeline of Model/Timeline.v never raises (for ALL files) when the
   order-preserving sort is used: every index stored by _indexed_dict_from_onsets
   is a valid position of the data handed to _filter_by_index_list. *)
From Coq Require Import List NArith Arith Bool Lia.
From HV Require Import Base.Res Base.Str Model.Onset Model.Timeline.
Import ListNotations.

Definition bounded (n : nat) (d : list (N * list nat)) : Prop :=
  Forall (fun kl : N * list nat => Forall (fun j => j < n) (snd kl)) d.

Lemma dict_append_bounded n k i d : i < n -> bounded n d -> bounded n (dict_append k i d).
Proof.
  intros Hi. induction d as [|[k' l] r IH]; intro H; cbn [dict_append].
  - constructor; [cbn; constructor; [exact Hi | constructor] | constructor].
  - inversion H as [|? ? Hl Hr]; subst. destruct (N.eqb k k').
    + constructor; [|exact Hr]. cbn [snd] in *. apply Forall_app. split; [exact Hl|].
      constructor; [exact Hi | constructor].
    + constructor; [exact Hl | apply IH; exact Hr].
Qed.

Lemma indexed_loop_bounded onsets : forall i d n,
  i + length onsets <= n -> bounded n d -> bounded n (indexed_loop i onsets d).
Proof.
  induction onsets as [|o r IH]; intros i d n Hn Hd; cbn [indexed_loop]; [exact Hd|].
  cbn [length] in Hn. apply IH; [lia|]. apply dict_append_bounded; [lia | exact Hd].
Qed.

Lemma indexed_dict_bounded onsets : bounded (length onsets) (indexed_dict_from_onsets onsets).
Proof. unfold indexed_dict_from_onsets. apply indexed_loop_bounded; [cbn; lia | constructor]. Qed.

Lemma join_groups_ok data indices :
  Forall (fun j => j < length data) indices -> exists g, join_groups data indices = Ok g.
Proof.
  intro H. unfold join_groups.
  assert (Hm : exists parts,
             mapM (fun i => match nth_error data i with
                            | Some e => Ok (e_groups e)
                            | None => Exn KeyError
                            end) indices = Ok parts).
  { induction indices as [|i r IH]; cbn [mapM]; [eexists; reflexivity|].
    inversion H as [|? ? Hi Hr]; subst.
    destruct (nth_error data i) as [e|] eqn:E; [|apply nth_error_None in E; lia].
    destruct (IH Hr) as [ps Hps]. rewrite Hps. cbn [bind]. eexists; reflexivity. }
  destruct Hm as [parts Hp]. rewrite Hp. cbn [bind]. eexists; reflexivity.
Qed.

Lemma filter_loop_ok data d : forall series,
  bounded (length data) d -> exists out, filter_loop data d series = Ok out.
Proof.
  induction d as [|[k indices] r IH]; intros series H; cbn [filter_loop]; [eexists; reflexivity|].
  inversion H as [|? ? Hl Hr]; subst. cbn [snd] in Hl.
  destruct indices as [|first rest]; [apply IH; exact Hr|].
  destruct (join_groups_ok data (first :: rest) Hl) as [g Hg]. rewrite Hg. cbn [bind].
  apply IH. exact Hr.
Qed.

Lemma filter_by_index_list_ok data :
  exists lines, filter_by_index_list data (indexed_dict_from_onsets (map e_time data)) = Ok lines.
Proof.
  unfold filter_by_index_list.
  destruct (filter_loop_ok data (indexed_dict_from_onsets (map e_time data)) (map (fun _ => []) data)) as [s Hs].
  - pose proof (indexed_dict_bounded (map e_time data)) as Hb. rewrite map_length in Hb. exact Hb.
  - rewrite Hs. cbn [bind]. eexists; reflexivity.
Qed.

(* process_file_never_raises: with the repaired (stable) sort -- and equally with the unrepaired code when
   the platform's sort keeps the input order -- validating the onset bookkeeping of ANY file (sorted or
   not, with any Delay groups and failed rows) returns normally *)
Theorem process_file_never_raises rows perm1 perm2 : exists out, process_file true perm1 perm2 rows = Ok out.
Proof.
  unfold process_file, process_file_from. cbn [sort_dataframe_by_onsets].
  destruct (needs_sorting rows); cbn [bind].
  - match goal with |- context [filter_by_index_list ?d _] =>
      destruct (filter_by_index_list_ok d) as [lines Hl] end.
    rewrite Hl. cbn [bind]. eexists; reflexivity.
  - match goal with |- context [filter_by_index_list ?d _] =>
      destruct (filter_by_index_list_ok d) as [lines Hl] end.
    rewrite Hl. cbn [bind]. eexists; reflexivity.
Qed.

Corollary process_file_unrepaired_never_raises rows : exists out, process_file false None None rows = Ok out.
Proof. exact (process_file_never_raises rows None None). Qed.

(* ------------------------------------------------------------------ *)
(* Several files on one SpreadsheetValidator object                    *)
(* ------------------------------------------------------------------ *)
Lemma sv_validate_out fixed sv rows : snd (sv_validate fixed sv rows) = process_file fixed None None rows.
Proof.
  unfold sv_validate, process_file. cbn zeta.
  destruct (process_file_from fixed None None state0 rows) as [[st out]|e]; reflexivity.
Qed.

(* files_independent: whatever files were validated before with the same SpreadsheetValidator object
   (whatever scopes they left open), the outcome for a file is that of the file alone, starting with no
   scope open: process_file is a function of the file only *)
Theorem files_independent fixed : forall files sv i rows,
  nth_error files i = Some rows ->
  nth_error (validate_seq fixed sv files) i = Some (process_file fixed None None rows).
Proof.
  induction files as [|f r IH]; intros sv i rows Hn; [destruct i; discriminate|].
  cbn [validate_seq]. pose proof (sv_validate_out fixed sv f) as Ho.
  destruct (sv_validate fixed sv f) as [sv' out]. cbn [snd] in Ho. subst out.
  destruct i as [|i]; cbn [nth_error] in *; [inversion Hn; reflexivity | apply IH; exact Hn].
Qed.

(* non-vacuity: the reset matters -- run from a validator that still holds a scope opened by an earlier
   file, an unmatched Offset of that name would go unreported *)
Lemma carried_scope_would_hide :
  let rows := [mkRow 1 [] [(NoDelay, Some (mkMarker Offset [[97%N]]))]] in
  process_file true None None rows = Ok ([], [(0, [mkIssue OffsetBeforeOnset 0 [97%N]])]) /\
  process_file_from true None None [[97%N]] rows = Ok ([], [(0, [])]).
Proof. vm_compute. split; reflexivity. Qed.
