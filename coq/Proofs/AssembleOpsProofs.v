(* Proofs about Model/AssembleOps.v (property C06): histories on one object. *)
From Coq Require Import List NArith Arith Bool Lia.
From HV Require Import Base.Res Base.Str Model.RefSplice Model.Assemble Model.AssembleOps
  Proofs.AssembleProofs.
Import ListNotations.

Definition res_rows (r : res (tabular * list str)) : res (list str) :=
  match r with Ok (_, rows) => Ok rows | Exn e => Exn e end.

(* the answer is a function of the table and the sidecar only (not of the dtype marks) *)
Lemma series_a_rows_indep fixed st1 st2 ord :
  tb_df st1 = tb_df st2 -> tb_sidecar st1 = tb_sidecar st2 ->
  res_rows (series_a fixed st1 ord) = res_rows (series_a fixed st2 ord).
Proof.
  intros Hd Hs. unfold series_a, assemble, handle_transforms. rewrite Hd, Hs.
  destruct (get_transformers (final_column_map (map fst (t_cols (tb_df st2))) (tb_sidecar st2)))
    as [tf need].
  destruct tf as [|t0 tf].
  - cbn [bind].
    destruct (handle_curly_braces_refs fixed (t_cols (tb_df st2))
                (set_order ord (column_refs (tb_sidecar st2))) (map fst [])); reflexivity.
  - destruct (transform fixed (t_cols (tb_df st2)) (t0 :: tf)) as [all|e]; cbn [bind]; [|reflexivity].
    destruct (handle_curly_braces_refs fixed all
                (set_order ord (column_refs (tb_sidecar st2))) (map fst (t0 :: tf))); reflexivity.
Qed.

Definition outcome_of (r : res (list str)) : outcome :=
  match r with Ok rows => RRows rows | Exn e => RExn e end.

Lemma answer_rows fixed df sc ord :
  answer fixed df sc ord = outcome_of (res_rows (series_a fixed (fresh df sc) ord)).
Proof. unfold answer. destruct (series_a fixed (fresh df sc) ord) as [[st rows]|e]; reflexivity. Qed.

(* Every answer in any history of assemblies, sidecar switches and cell edits equals the
   assembly of a fresh object holding the CURRENT table and the CURRENT sidecar -- provided
   either the dtype marks are not kept (repaired) or the history has no set_cell. *)
Theorem history_current fixed keepcat : forall ops o,
  (keepcat = false \/ forallb (fun p => negb (is_setcell p)) ops = true) ->
  run fixed keepcat o ops = run_spec fixed (tb_df (o_tab o)) (tb_sidecar (o_tab o)) ops.
Proof.
  induction ops as [|p ops IH]; intros o Hk; [reflexivity|].
  assert (Hk' : keepcat = false \/ forallb (fun p => negb (is_setcell p)) ops = true).
  { destruct Hk as [Hk|Hk]; [left; exact Hk | right]. simpl in Hk. apply andb_true_iff in Hk. tauto. }
  destruct p as [ord|sc|r c v]; cbn [run step run_spec].
  - rewrite answer_rows.
    rewrite <- (series_a_rows_indep fixed (o_tab o) (fresh (tb_df (o_tab o)) (tb_sidecar (o_tab o))) ord
                  eq_refl eq_refl).
    destruct (series_a fixed (o_tab o) ord) as [[st' rows]|e] eqn:Hs; cbn [res_rows outcome_of].
    + destruct (deterministic_unchanged _ _ _ _ _ Hs) as (Hd & Hsc & _).
      rewrite IH by exact Hk'. cbn [o_tab]. rewrite Hd, Hsc. reflexivity.
    + rewrite IH by exact Hk'. reflexivity.
  - rewrite IH by exact Hk'. reflexivity.
  - destruct Hk as [Hk|Hk]; [|simpl in Hk; discriminate].
    subst keepcat.
    destruct (set_cell_df r c v (tb_df (o_tab o))) as [df'|] eqn:Hset.
    + destruct (nth_error (t_cols (tb_df (o_tab o))) c) as [[name cells]|] eqn:Hn.
      * rewrite IH by (left; reflexivity). reflexivity.
      * unfold set_cell_df in Hset. rewrite Hn in Hset. discriminate.
    + rewrite IH by (left; reflexivity). reflexivity.
Qed.

(* sidecar switches only: the object's state is the current sidecar *)
Corollary reset_history_current fixed keepcat ops o :
  forallb (fun p => negb (is_setcell p)) ops = true ->
  run fixed keepcat o ops = run_spec fixed (tb_df (o_tab o)) (tb_sidecar (o_tab o)) ops.
Proof. intros H. apply history_current. right. exact H. Qed.

(* Record of the defect C06-F7 repaired by fix commit 220dc27 (keepcat = true = behaviour
   before it): the 'category' dtype stayed on the object's frame, so after an assembly a cell
   of a categorical column could not be set to a value the column did not hold -- a fresh
   object accepted the same edit.  With keepcat = false (the code as it is) the edit is
   accepted.  (ex_st: column 1 is the categorical column "c" holding g, n/a, g.) *)
Definition ops_edit_after : list op := [OAssemble []; OSetCell 1 1 [122]%N; OAssemble []].
Definition ops_edit_fresh : list op := [OSetCell 1 1 [122]%N; OAssemble []].
Definition ex_obj : obj := {| o_tab := ex_st; o_cats := [] |}.

Theorem set_cell_after_assembly_refuted :
  nth 1 (run true true ex_obj ops_edit_after) RNone = RExn TypeError /\
  nth 0 (run true true ex_obj ops_edit_fresh) (RExn TypeError) = RNone /\
  run true false ex_obj ops_edit_after
  = run_spec true (tb_df ex_st) (tb_sidecar ex_st) ops_edit_after.
Proof. repeat split; vm_compute; reflexivity. Qed.

(* non-vacuity, in the mode of the current /repo (fixed = true, keepcat = false): switching
   the sidecar changes which column is spliced; an edit between assemblies is seen *)
(* the same switch under the pre-220dc27 mode (answers do not depend on keepcat) *)
Definition ex_sidecar_b : sidecar :=
  [ ([99]%N, JDict [(hed_key, JDict [([103]%N, JStr [82; 44; 32; 123; 118; 125]%N)])]);   (* c: {g: "R, {v}"} *)
    ([118]%N, JDict [(hed_key, JStr [76; 47; 35]%N)]) ].                                   (* v: L/# *)
Example ex_switch :
  run true true ex_obj [OAssemble []; OReset ex_sidecar_b; OAssemble []; OReset ex_sidecar; OAssemble []]
  = [ RRows [ [66; 44; 32; 40; 82; 44; 32; 76; 47; 120; 41]%N; [40; 76; 47; 121; 41]%N; [] ];
      RNone;
      RRows [ [66; 44; 32; 82; 44; 32; 76; 47; 120]%N; []; [82]%N ];
      RNone;
      RRows [ [66; 44; 32; 40; 82; 44; 32; 76; 47; 120; 41]%N; [40; 76; 47; 121; 41]%N; [] ] ].
Proof. vm_compute. reflexivity. Qed.

Example ex_switch_current :
  run true false ex_obj [OAssemble []; OReset ex_sidecar_b; OAssemble []; OSetCell 1 1 [103]%N;
                         OAssemble []; OReset ex_sidecar; OAssemble []]
  = [ RRows [ [66; 44; 32; 40; 82; 44; 32; 76; 47; 120; 41]%N; [40; 76; 47; 121; 41]%N; [] ];
      RNone;
      RRows [ [66; 44; 32; 82; 44; 32; 76; 47; 120]%N; []; [82]%N ];
      RNone;
      RRows [ [66; 44; 32; 82; 44; 32; 76; 47; 120]%N; [82; 44; 32; 76; 47; 121]%N; [82]%N ];
      RNone;
      RRows [ [66; 44; 32; 40; 82; 44; 32; 76; 47; 120; 41]%N;
              [40; 82; 44; 32; 76; 47; 121; 41]%N; [] ] ].
Proof. vm_compute. reflexivity. Qed.

