(* Lemmas for C12 over Model/Issues.v. *)
From Coq Require Import List NArith ZArith Arith Bool Lia ZifyBool Sorting Permutation.
From HV Require Import Base.Res Base.Str Base.IssueTypes Gen.ErrorCodes Model.Issues.
Import ListNotations.

(* ================================================================== 1. the translated table *)

Definition nonempty {A} (l : list A) : bool := match l with [] => false | _ => true end.

Definition row_ok (r : kind_row) : bool :=
  nonempty (k_kind r) && nonempty (k_code r)
  && ((k_sev r =? sev_error) || (k_sev r =? sev_warning))
  && implb (k_sub r) (k_tag r) && implb (k_quotes_sub r) (k_sub r).

Fixpoint nodupb (l : list str) : bool :=
  match l with
  | [] => true
  | x :: xs => negb (existsb (str_eqb x) xs) && nodupb xs
  end.

Lemma table_rows_ok : forallb row_ok kind_table = true.
Proof. vm_compute. reflexivity. Qed.

Lemma table_kinds_unique : nodupb (map k_kind kind_table) = true.
Proof. vm_compute. reflexivity. Qed.

Lemma severities_distinct : sev_error < sev_warning.
Proof. vm_compute. lia. Qed.

Lemma nonempty_neq {A} (l : list A) : nonempty l = true -> l <> [].
Proof. destruct l; simpl; intros H; [discriminate | discriminate]. Qed.

Lemma table_ok : forall r, In r kind_table ->
  k_kind r <> [] /\ k_code r <> [] /\ (k_sev r = sev_error \/ k_sev r = sev_warning)
  /\ (k_sub r = true -> k_tag r = true).
Proof.
  intros r Hin.
  pose proof (proj1 (forallb_forall row_ok kind_table) table_rows_ok r Hin) as H.
  unfold row_ok in H.
  repeat (apply andb_true_iff in H; destruct H as [H ?]).
  repeat split.
  - apply nonempty_neq; assumption.
  - apply nonempty_neq; assumption.
  - apply orb_true_iff in H2. destruct H2 as [E | E]; apply Nat.eqb_eq in E; auto.
  - intro Hs. rewrite Hs in H1. simpl in H1. assumption.
Qed.

Lemma find_kind_in : forall table kind r, find_kind table kind = Some r ->
  In r table /\ k_kind r = kind.
Proof.
  induction table as [|x xs IH]; simpl; intros kind r H; [discriminate|].
  destruct (str_eqb (k_kind x) kind) eqn:E.
  - inversion H; subst. split; [left; reflexivity | apply str_eqb_spec; assumption].
  - destruct (IH _ _ H) as [Hin Hk]. split; [right; assumption | assumption].
Qed.

(* every issue format_error builds from the real table has a non-empty code and a
   severity that is ERROR, WARNING or the caller's explicit override *)
Lemma format_error_complete : forall kind a actual i,
  kind <> [] ->
  format_error kind_table kind a actual = Ok i ->
  i_code i <> [] /\
  (i_sev i = sev_error \/ i_sev i = sev_warning \/ a_sev a = Some (i_sev i)).
Proof.
  intros kind a actual i Hk H.
  unfold format_error in H.
  assert (Hsev : forall d, d = sev_error \/ d = sev_warning ->
            sev_or (a_sev a) d = sev_error \/ sev_or (a_sev a) d = sev_warning
            \/ a_sev a = Some (sev_or (a_sev a) d)).
  { intros d Hd. unfold sev_or. destruct (a_sev a); [right; right; reflexivity | tauto]. }
  assert (Hfin : forall obj, i_code obj <> [] ->
            (i_sev obj = sev_error \/ i_sev obj = sev_warning \/ a_sev a = Some (i_sev obj)) ->
            Ok (match actual with Some (c :: cs) => set_code (c :: cs) obj | _ => obj end) = Ok i ->
            i_code i <> [] /\ (i_sev i = sev_error \/ i_sev i = sev_warning \/ a_sev a = Some (i_sev i))).
  { intros obj Hc Hs E. inversion E; subst; clear E.
    destruct actual as [[|c cs]|]; simpl; split; try assumption. discriminate. }
  destruct (find_kind kind_table kind) as [r|] eqn:F.
  - destruct (find_kind_in _ _ _ F) as [Hin _].
    destruct (table_ok r Hin) as (_ & Hcode & Hs & _).
    destruct (k_tag r).
    + destruct (a_tag a) as [t|]; simpl in H; [|discriminate].
      destruct (k_sub r); (eapply Hfin; [| |exact H]; simpl; [assumption | apply Hsev; assumption]).
    + simpl in H. eapply Hfin; [| |exact H]; simpl; [assumption | apply Hsev; assumption].
  - simpl in H. eapply Hfin; [| |exact H]; simpl; [assumption | apply Hsev; left; reflexivity].
Qed.

(* ================================================================== 2. decoration keeps the payload *)

Lemma add_context_fields : forall ctx i,
  let i' := add_context_to_errors i ctx in
  i_code i' = i_code i /\ i_sev i' = i_sev i /\ i_msg i' = i_msg i /\ i_idx i' = i_idx i
  /\ i_idx_end i' = i_idx_end i /\ i_src i' = i_src i /\ i_char i' = i_char i
  /\ i_suffixes i' = i_suffixes i.
Proof.
  unfold add_context_to_errors.
  induction ctx as [|kv ctx IH]; intro i; simpl.
  - repeat split.
  - specialize (IH (set_ctx (dict_set (fst kv) (snd kv) (i_ctx i)) i)). simpl in IH. exact IH.
Qed.

Lemma update_cases : forall fixed i i',
  update_error_with_char_pos fixed i = Ok i' ->
  i' = i \/ exists ns ne, i' = set_char ns ne i.
Proof.
  intros fixed i i' H. unfold update_error_with_char_pos in H.
  destruct (fixed && match i_char i with Some _ => true | None => false end).
  - inversion H; auto.
  - destruct (get_tag_span_to_error_object i) as [[[s e]|]|] eqn:G; simpl in H; try discriminate.
    + destruct (match i_src i with
                | Some (SrcTag t) => Ok (t_modified t)
                | Some (SrcGroup _ _ _ nonempty _ _) => if nonempty then Exn AttributeError else Ok false
                | _ => Ok false end) as [w|] eqn:W; simpl in H; try discriminate.
      destruct w; inversion H; right; eauto.
    + inversion H; auto.
Qed.

Lemma update_fields : forall fixed i i',
  update_error_with_char_pos fixed i = Ok i' ->
  i_code i' = i_code i /\ i_sev i' = i_sev i /\ i_msg i' = i_msg i /\ i_idx i' = i_idx i
  /\ i_idx_end i' = i_idx_end i /\ i_src i' = i_src i /\ i_ctx i' = i_ctx i.
Proof.
  intros fixed i i' H. destruct (update_cases _ _ _ H) as [E | (ns & ne & E)]; subst; simpl; repeat split.
Qed.

Lemma decorate_fields : forall fixed ctx i i',
  decorate_one fixed ctx i = Ok i' ->
  i_code i' = i_code i /\ i_sev i' = i_sev i /\ i_msg i' = i_msg i /\ i_idx i' = i_idx i
  /\ i_idx_end i' = i_idx_end i /\ i_src i' = i_src i.
Proof.
  intros fixed ctx i i' H. unfold decorate_one in H.
  destruct (update_fields _ _ _ H) as (A & B & Cc & D & E & F & _).
  destruct (add_context_fields ctx i) as (A' & B' & C' & D' & E' & F' & _).
  repeat split; congruence.
Qed.

(* ------------------------------------------------------------------ mapM toolkit *)

Lemma mapM_app {A B} (f : A -> res B) : forall l1 l2 r,
  mapM f (l1 ++ l2) = Ok r ->
  exists r1 r2, mapM f l1 = Ok r1 /\ mapM f l2 = Ok r2 /\ r = r1 ++ r2.
Proof.
  induction l1 as [|x xs IH]; simpl; intros l2 r H.
  - exists [], r. auto.
  - destruct (f x) as [y|] eqn:Fx; simpl in H; [|discriminate].
    destruct (mapM f (xs ++ l2)) as [ys|] eqn:M; simpl in H; [|discriminate].
    inversion H; subst. destruct (IH _ _ M) as (r1 & r2 & M1 & M2 & E).
    exists (y :: r1), r2. rewrite M1. simpl. subst. auto.
Qed.

Lemma mapM_app_ok {A B} (f : A -> res B) : forall l1 l2 r1 r2,
  mapM f l1 = Ok r1 -> mapM f l2 = Ok r2 -> mapM f (l1 ++ l2) = Ok (r1 ++ r2).
Proof.
  induction l1 as [|x xs IH]; simpl; intros l2 r1 r2 H1 H2.
  - inversion H1; subst. assumption.
  - destruct (f x) as [y|] eqn:Fx; simpl in *; [|discriminate].
    destruct (mapM f xs) as [ys|] eqn:M; simpl in *; [|discriminate].
    inversion H1; subst. rewrite (IH _ _ _ eq_refl H2). reflexivity.
Qed.

Lemma mapM_Forall {A B} (f : A -> res B) (P : A -> Prop) (Q : B -> Prop) :
  (forall x y, P x -> f x = Ok y -> Q y) ->
  forall l r, Forall P l -> mapM f l = Ok r -> Forall Q r.
Proof.
  intros HPQ. induction l as [|x xs IH]; simpl; intros r HP H.
  - inversion H; constructor.
  - destruct (f x) as [y|] eqn:Fx; simpl in H; [|discriminate].
    destruct (mapM f xs) as [ys|] eqn:M; simpl in H; [|discriminate].
    inversion H; subst. inversion HP; subst. constructor; eauto.
Qed.

Lemma mapM_filter {A} (f : A -> res A) (p : A -> bool) :
  (forall x y, f x = Ok y -> p y = p x) ->
  forall l r, mapM f l = Ok r -> mapM f (filter p l) = Ok (filter p r).
Proof.
  intros Hp. induction l as [|x xs IH]; simpl; intros r H.
  - inversion H; reflexivity.
  - destruct (f x) as [y|] eqn:Fx; simpl in H; [|discriminate].
    destruct (mapM f xs) as [ys|] eqn:M; simpl in H; [|discriminate].
    inversion H; subst. simpl. rewrite (Hp _ _ Fx).
    destruct (p x); simpl; [rewrite Fx; simpl|]; rewrite (IH _ eq_refl); reflexivity.
Qed.

Lemma filter_idem {A} (p : A -> bool) l : filter p (filter p l) = filter p l.
Proof.
  induction l as [|x xs IH]; simpl; [reflexivity|].
  destruct (p x) eqn:E; simpl; [rewrite E, IH|]; auto.
Qed.

(* ================================================================== 3. errors only = error subset *)

Definition is_error (i : issue) : bool := i_sev i <=? sev_error.

Lemma filter_is_subset : forall l,
  filter_issues_by_severity l sev_error = filter is_error l.
Proof. reflexivity. Qed.

Definition with_warn (h : handler) (w : bool) : handler := {| h_ctx := h_ctx h; h_warn := w |}.

Lemma decorate_is_error : forall fixed ctx x y, decorate_one fixed ctx x = Ok y -> is_error y = is_error x.
Proof.
  intros fixed ctx x y H. destruct (decorate_fields _ _ _ _ H) as (_ & S & _).
  unfold is_error. rewrite S. reflexivity.
Qed.

Lemma acf_warn_true : forall fixed h l,
  add_context_and_filter fixed (with_warn h true) l = mapM (decorate_one fixed (h_ctx h)) l.
Proof. reflexivity. Qed.

Lemma acf_warn_false : forall fixed h l,
  add_context_and_filter fixed (with_warn h false) l = mapM (decorate_one fixed (h_ctx h)) (filter is_error l).
Proof. reflexivity. Qed.

(* one decoration: asking for errors only gives the error subset of the run with warnings *)
Lemma errors_only_commutes : forall fixed h l l',
  add_context_and_filter fixed (with_warn h true) l = Ok l' ->
  add_context_and_filter fixed (with_warn h false) l = Ok (filter is_error l').
Proof.
  intros fixed h l l' H. rewrite acf_warn_true in H. rewrite acf_warn_false.
  apply mapM_filter; [apply decorate_is_error | assumption].
Qed.

Definition sev_std (i : issue) : Prop := i_sev i = sev_error \/ i_sev i = sev_warning.

Lemma std_lt_is_error : forall x, sev_std x -> (i_sev x <? sev_warning) = is_error x.
Proof.
  intros x [E | E]; unfold is_error; rewrite E; vm_compute; reflexivity.
Qed.

Lemma existsb_filter_self {A} (p : A -> bool) l : existsb p (filter p l) = existsb p l.
Proof.
  induction l as [|x xs IH]; simpl; [reflexivity|].
  destruct (p x) eqn:E; simpl; [rewrite E; reflexivity | assumption].
Qed.

Lemma any_errors_is_error : forall l, Forall sev_std l ->
  check_for_any_errors l = existsb is_error l.
Proof.
  induction l as [|x xs IH]; intros HF; [reflexivity|].
  inversion HF; subst. unfold check_for_any_errors in *. cbn [existsb].
  rewrite (std_lt_is_error x H1), (IH H2). reflexivity.
Qed.

Lemma filter_Forall {A} (P : A -> Prop) (p : A -> bool) l : Forall P l -> Forall P (filter p l).
Proof.
  induction 1; simpl; [constructor|]. destruct (p x); [constructor|]; assumption.
Qed.

Lemma any_errors_filter : forall l, Forall sev_std l ->
  check_for_any_errors (filter is_error l) = check_for_any_errors l.
Proof.
  intros l HF.
  rewrite (any_errors_is_error l HF).
  rewrite (any_errors_is_error _ (filter_Forall _ _ _ HF)).
  apply existsb_filter_self.
Qed.

Lemma decorate_sev_std : forall fixed ctx l r, Forall sev_std l ->
  mapM (decorate_one fixed ctx) l = Ok r -> Forall sev_std r.
Proof.
  intros fixed ctx l r HF H.
  apply (mapM_Forall (decorate_one fixed ctx) sev_std sev_std) with (l := l); try assumption.
  intros x y Hx Hy. destruct (decorate_fields _ _ _ _ Hy) as (_ & S & _).
  unfold sev_std in *. rewrite S. assumption.
Qed.

(* the whole call path of HedValidator.validate *)
Lemma validate_errors_only : forall fixed h basic full out,
  Forall sev_std basic ->
  validate fixed (with_warn h true) basic full = Ok out ->
  validate fixed (with_warn h false) basic full = Ok (filter is_error out).
Proof.
  intros fixed h basic full out Hstd H. unfold validate in *.
  rewrite acf_warn_true in H.
  destruct (mapM (decorate_one fixed (h_ctx h)) basic) as [b1|] eqn:B1; simpl in H; [|discriminate].
  pose proof (mapM_filter _ is_error (decorate_is_error fixed (h_ctx h)) _ _ B1) as B1'.
  rewrite acf_warn_false. rewrite B1'. simpl.
  pose proof (decorate_sev_std _ _ _ _ Hstd B1) as Hstd1.
  rewrite (any_errors_filter b1 Hstd1).
  destruct (check_for_any_errors b1) eqn:AE.
  - inversion H; subst. reflexivity.
  - rewrite acf_warn_true in H. rewrite acf_warn_false.
    rewrite filter_app, filter_idem.
    destruct (mapM_app _ _ _ _ H) as (r1 & r2 & M1 & M2 & E). subst out.
    rewrite filter_app.
    apply mapM_app_ok.
    + apply mapM_filter; [apply decorate_is_error | assumption].
    + apply mapM_filter; [apply decorate_is_error | assumption].
Qed.

(* without the severity hypothesis the law fails: an override severity strictly
   between ERROR and WARNING stops validation when warnings are on, but is dropped
   (and validation continues) when they are off *)

Definition mid_issue : issue :=
  create_error_object [88]%N {| m_tag := None; m_frag := None |} 5 None None None.
Definition full_err : issue :=
  create_error_object [89]%N {| m_tag := None; m_frag := None |} sev_error None None None.

Lemma validate_errors_only_needs_std_refuted :
  exists fixed h basic full out,
    validate fixed (with_warn h true) basic full = Ok out /\
    validate fixed (with_warn h false) basic full <> Ok (filter is_error out).
Proof.
  exists false, {| h_ctx := []; h_warn := true |}, [mid_issue], [full_err], [mid_issue].
  split; [vm_compute; reflexivity | vm_compute; discriminate].
Qed.

(* ================================================================== 4. ordering *)

Section StableSort.
  Variable A : Type.
  Variable leb : A -> A -> bool.
  Hypothesis leb_total : forall a b, leb a b = true \/ leb b a = true.
  Hypothesis leb_trans : forall a b c, leb a b = true -> leb b c = true -> leb a c = true.

  Definition eqv (x y : A) : bool := leb x y && leb y x.

  Lemma insert_perm : forall x l, Permutation (x :: l) (insert_by leb x l).
  Proof.
    induction l as [|y ys IH]; simpl; [apply Permutation_refl|].
    destruct (leb x y); [apply Permutation_refl|].
    eapply Permutation_trans; [apply perm_swap|]. apply perm_skip. assumption.
  Qed.

  Lemma isort_perm : forall l, Permutation l (isort leb l).
  Proof.
    induction l as [|x xs IH]; simpl; [constructor|].
    eapply Permutation_trans; [apply perm_skip; exact IH | apply insert_perm].
  Qed.

  Lemma insert_sorted : forall x l,
    StronglySorted (fun a b => leb a b = true) l ->
    StronglySorted (fun a b => leb a b = true) (insert_by leb x l).
  Proof.
    induction l as [|y ys IH]; simpl; intros HS.
    - constructor; constructor.
    - inversion HS as [|? ? HS' HF]; subst.
      destruct (leb x y) eqn:E.
      + constructor; [assumption|]. constructor; [assumption|].
        eapply Forall_impl; [|exact HF]. intros z Hz. eapply leb_trans; eassumption.
      + assert (Hyx : leb y x = true) by (destruct (leb_total x y); congruence).
        constructor; [apply IH; assumption|].
        eapply Permutation_Forall; [apply insert_perm|]. constructor; assumption.
  Qed.

  Lemma isort_sorted : forall l, StronglySorted (fun a b => leb a b = true) (isort leb l).
  Proof.
    induction l as [|x xs IH]; simpl; [constructor | apply insert_sorted; assumption].
  Qed.

  Lemma eqv_trans_false : forall x a y, eqv x a = true -> leb a y = false -> eqv x y = false.
  Proof.
    intros x a y Hxa Hay. unfold eqv in *. apply andb_true_iff in Hxa as [Hxa Hax].
    destruct (leb x y) eqn:Exy; [|reflexivity]. simpl.
    destruct (leb y x) eqn:Eyx; [|reflexivity].
    rewrite (leb_trans a x y Hax Exy) in Hay. discriminate.
  Qed.

  Lemma insert_stable : forall x a l,
    filter (eqv x) (insert_by leb a l) = filter (eqv x) (a :: l).
  Proof.
    induction l as [|y ys IH]; [reflexivity|].
    cbn [insert_by]. destruct (leb a y) eqn:E; [reflexivity|].
    cbn [filter] in *. rewrite IH.
    destruct (eqv x a) eqn:Ea; [|reflexivity].
    rewrite (eqv_trans_false x a y Ea E). reflexivity.
  Qed.

  (* stability: the elements of every key class keep their original relative order *)
  Lemma isort_stable : forall x l, filter (eqv x) (isort leb l) = filter (eqv x) l.
  Proof.
    induction l as [|a l IH]; [reflexivity|].
    cbn [isort]. rewrite insert_stable. cbn [filter]. rewrite IH. reflexivity.
  Qed.
End StableSort.

(* ------------------------------------------------------------------ the key order *)

Record good {A} (c : A -> A -> comparison) : Prop := {
  g_eq : forall a b, c a b = Eq <-> a = b;
  g_anti : forall a b, c b a = CompOpp (c a b);
  g_trans : forall a b d, c a b = Lt -> c b d = Lt -> c a d = Lt }.

Lemma lex_good {A} (c : A -> A -> comparison) : good c -> good (lex_cmp c).
Proof.
  intros [Heq Hanti Htrans]. constructor.
  - induction a as [|x a IH]; destruct b as [|y b]; simpl; split; intro H;
      try reflexivity; try discriminate.
    + destruct (c x y) eqn:E; try discriminate.
      apply Heq in E. apply IH in H. congruence.
    + inversion H; subst. rewrite (proj2 (Heq y y) eq_refl). apply IH. reflexivity.
  - induction a as [|x a IH]; destruct b as [|y b]; simpl; try reflexivity.
    rewrite (Hanti x y). destruct (c x y); simpl; [apply IH | reflexivity | reflexivity].
  - induction a as [|x a IH]; destruct b as [|y b]; destruct d as [|z d]; simpl; intros H1 H2;
      try reflexivity; try discriminate.
    destruct (c x y) eqn:E1; try discriminate.
    + apply Heq in E1; subst y. destruct (c x z) eqn:E2; try discriminate; [|reflexivity].
      eapply IH; eassumption.
    + destruct (c y z) eqn:E2; try discriminate.
      * apply Heq in E2; subst z. rewrite E1. reflexivity.
      * rewrite (Htrans _ _ _ E1 E2). reflexivity.
Qed.

Lemma N_compare_good : good N.compare.
Proof.
  constructor.
  - intros a b. apply N.compare_eq_iff.
  - intros a b. apply N.compare_antisym.
  - intros a b d H1 H2. apply N.compare_lt_iff in H1, H2. apply N.compare_lt_iff. eapply N.lt_trans; eassumption.
Qed.

Lemma Z_compare_good : good Z.compare.
Proof.
  constructor.
  - intros a b. apply Z.compare_eq_iff.
  - intros a b. apply Z.compare_antisym.
  - intros a b d H1 H2. apply Z.compare_lt_iff in H1, H2. apply Z.compare_lt_iff. eapply Z.lt_trans; eassumption.
Qed.

Lemma str_cmp_good : good str_cmp.
Proof. apply lex_good, N_compare_good. Qed.

Lemma nat_compare_good : good Nat.compare.
Proof.
  constructor.
  - intros a b. apply Nat.compare_eq_iff.
  - intros a b. apply Nat.compare_antisym.
  - intros a b d H1 H2. apply Nat.compare_lt_iff in H1, H2. apply Nat.compare_lt_iff. lia.
Qed.

Lemma kv_cmp_good : good kv_cmp.
Proof.
  destruct Z_compare_good as [Zeq Zanti Ztrans]. destruct str_cmp_good as [Seq Santi Strans].
  constructor.
  - intros [x|x|x|x] [y|y|y|y]; simpl; split; intro H; try discriminate;
      try (apply Zeq in H; congruence); try (apply Seq in H; congruence);
      try (inversion H; subst; apply Zeq; reflexivity); try (inversion H; subst; apply Seq; reflexivity).
  - intros [x|x|x|x] [y|y|y|y]; simpl; auto.
  - intros [x|x|x|x] [y|y|y|y] [z|z|z|z]; simpl; intros H1 H2; try discriminate; try reflexivity; eauto.
Qed.

Lemma key_cmp_good : good key_cmp.
Proof. apply lex_good, kv_cmp_good. Qed.

Definition le_of {A} (c : A -> A -> comparison) (a b : A) : bool :=
  match c a b with Gt => false | _ => true end.

Lemma le_of_total {A} (c : A -> A -> comparison) : good c ->
  forall a b, le_of c a b = true \/ le_of c b a = true.
Proof.
  intros [_ Hanti _] a b. unfold le_of. rewrite (Hanti a b).
  destruct (c a b); simpl; auto.
Qed.

Lemma le_of_trans {A} (c : A -> A -> comparison) : good c ->
  forall a b d, le_of c a b = true -> le_of c b d = true -> le_of c a d = true.
Proof.
  intros [Heq Hanti Htrans] a b d. unfold le_of.
  destruct (c a b) eqn:E1; try discriminate; intros _.
  - apply Heq in E1; subst. auto.
  - destruct (c b d) eqn:E2; try discriminate; intros _.
    + apply Heq in E2; subst. rewrite E1. reflexivity.
    + rewrite (Htrans _ _ _ E1 E2). reflexivity.
Qed.

Lemma issue_leb_le_of : forall reverse a b,
  issue_leb reverse a b =
  if reverse then le_of key_cmp (get_keys b) (get_keys a) else le_of key_cmp (get_keys a) (get_keys b).
Proof. intros [|] a b; reflexivity. Qed.

Lemma issue_leb_total : forall reverse a b,
  issue_leb reverse a b = true \/ issue_leb reverse b a = true.
Proof.
  intros reverse a b. rewrite !issue_leb_le_of. destruct reverse; apply le_of_total, key_cmp_good.
Qed.

Lemma issue_leb_trans : forall reverse a b d,
  issue_leb reverse a b = true -> issue_leb reverse b d = true -> issue_leb reverse a d = true.
Proof.
  intros reverse a b d. rewrite !issue_leb_le_of. destruct reverse; intros H1 H2.
  - eapply le_of_trans; [apply key_cmp_good | exact H2 | exact H1].
  - eapply le_of_trans; [apply key_cmp_good | exact H1 | exact H2].
Qed.

(* same key class = equal key tuples *)
Definition same_key (reverse : bool) (x y : issue) : bool :=
  issue_leb reverse x y && issue_leb reverse y x.

Lemma same_key_iff : forall reverse x y, same_key reverse x y = true <-> get_keys x = get_keys y.
Proof.
  intros reverse x y. unfold same_key. rewrite !issue_leb_le_of.
  destruct key_cmp_good as [Heq Hanti _]. unfold le_of.
  pose proof (Hanti (get_keys x) (get_keys y)) as An.
  split.
  - intro H. apply Heq.
    destruct reverse; rewrite An in H;
      destruct (key_cmp (get_keys x) (get_keys y)); simpl in H; try discriminate; reflexivity.
  - intro H. apply Heq in H. destruct reverse; rewrite An, H; reflexivity.
Qed.

Lemma sort_stable_sorted : forall l reverse l',
  sort_issues l reverse = Ok l' ->
  Permutation l l' /\
  StronglySorted (fun a b => issue_leb reverse a b = true) l' /\
  (forall x, filter (same_key reverse x) l' = filter (same_key reverse x) l).
Proof.
  intros l reverse l' H. unfold sort_issues in H.
  destruct (forallb keys_modelled l); [|discriminate].
  destruct (all_pairs _ l); [|discriminate].
  inversion H; subst; clear H.
  split; [apply isort_perm|]. split.
  - apply isort_sorted; [apply issue_leb_total | apply issue_leb_trans].
  - intro x. apply (isort_stable issue (issue_leb reverse) (issue_leb_trans reverse)).
Qed.

(* the sort never raises on well-typed contexts *)
(* well-typed contexts: the row is an int; every other key is text OR a number (column labels of a
   file read without a header are numbers -- made comparable by fix commit 2e53521) *)
Definition ctx_typed (i : issue) : bool :=
  forallb (fun k => match dict_get k (i_ctx i) with
                    | Some (VInt _) => true
                    | Some (VStr _) => negb (ckey_mem k int_sort_list)
                    | Some (VHed _) => false
                    | None => true
                    end) default_sort_list.

(* the documented order: title, file, sidecar column, sidecar key, row first *)
Lemma sort_key_documented_order :
  (exists rest, default_sort_list = CTitle :: CFile :: CSidecarCol :: CSidecarKey :: CRow :: rest)
  /\ int_sort_list = [CRow].
Proof. split; [eexists; reflexivity | reflexivity]. Qed.

Definition key_at (k : ckey) (i : issue) : kv :=
  match get_key1 (i_ctx i) k with Some v => v | None => KT0 [] end.

Lemma key_cmp_documented : forall a b,
  exists ra rb,
  key_cmp (get_keys a) (get_keys b) =
  lex_cmp kv_cmp (key_at CTitle a :: key_at CFile a :: key_at CSidecarCol a :: key_at CSidecarKey a
                  :: key_at CRow a :: ra)
                 (key_at CTitle b :: key_at CFile b :: key_at CSidecarCol b :: key_at CSidecarKey b
                  :: key_at CRow b :: rb).
Proof. intros a b. eexists. eexists. reflexivity. Qed.

(* file decides first (after an equal title), then column, key, row *)
Lemma sorted_file_col_key_row : forall a b,
  key_at CTitle a = key_at CTitle b ->
  (kv_cmp (key_at CFile a) (key_at CFile b) = Lt
   \/ key_at CFile a = key_at CFile b /\
      (kv_cmp (key_at CSidecarCol a) (key_at CSidecarCol b) = Lt
       \/ key_at CSidecarCol a = key_at CSidecarCol b /\
          (kv_cmp (key_at CSidecarKey a) (key_at CSidecarKey b) = Lt
           \/ key_at CSidecarKey a = key_at CSidecarKey b /\
              kv_cmp (key_at CRow a) (key_at CRow b) = Lt))) ->
  issue_leb false a b = true /\ issue_leb false b a = false.
Proof.
  intros a b Ht H.
  destruct kv_cmp_good as [Heq Hanti _].
  assert (Hrefl : forall x, kv_cmp x x = Eq) by (intro x; apply Heq; reflexivity).
  assert (G : key_cmp (get_keys a) (get_keys b) = Lt).
  { destruct (key_cmp_documented a b) as (ra & rb & E). rewrite E. clear E.
    cbn [lex_cmp]. rewrite Ht, Hrefl.
    destruct H as [H | [E1 H]]; [rewrite H; reflexivity|]. rewrite E1, Hrefl.
    destruct H as [H | [E2 H]]; [rewrite H; reflexivity|]. rewrite E2, Hrefl.
    destruct H as [H | [E3 H]]; [rewrite H; reflexivity|]. rewrite E3, Hrefl.
    rewrite H. reflexivity. }
  unfold issue_leb. rewrite G. destruct key_cmp_good as [_ Kanti _].
  rewrite (Kanti (get_keys a) (get_keys b)), G. simpl. auto.
Qed.

(* ================================================================== 5. offsets *)

Lemma skipn_skipn {A} : forall a s (l : list A), skipn a (skipn s l) = skipn (s + a) l.
Proof.
  induction s as [|s IH]; intro l; simpl; [reflexivity|].
  destruct l as [|x l]; [destruct a; reflexivity | apply IH].
Qed.

(* slicing a slice = slicing the text at shifted offsets *)
Lemma sub_sub : forall (t : str) s e a b,
  a <= b -> b <= e - s -> sub (sub t s e) a b = sub t (s + a) (s + b).
Proof.
  intros t s e a b Hab Hb. unfold sub.
  rewrite skipn_firstn_comm, firstn_firstn, skipn_skipn.
  replace (Init.Nat.min (b - a) (e - s - a)) with (s + b - (s + a)) by lia.
  reflexivity.
Qed.

Definition idx_bounds (i : issue) (len : nat) : Prop :=
  let a := match i_idx i with Some k => k | None => 0 end in
  match i_idx_end i with Some b => a <= b /\ b <= len | None => a <= len end.

Definition has_hed_ctx (i : issue) (h : hstr) : Prop := dict_get CHedString (i_ctx i) = Some (VHed h).

(* what _update_error_with_char_pos computes for a tag source located at [s,e) *)
Lemma update_tag_located : forall fixed i h t s e,
  i_char i = None ->
  has_hed_ctx i h -> i_src i = Some (SrcTag t) ->
  get_org_span h (SrcTag t) = Some (s, e) ->
  update_error_with_char_pos fixed i =
  Ok (if t_modified t then set_char s e i
      else set_char (s + match i_idx i with Some k => k | None => 0 end)
                    (match i_idx_end i with Some b => s + b | None => e end) i).
Proof.
  intros fixed i h t s e Hc Hh Hs Hsp. unfold update_error_with_char_pos.
  rewrite Hc, andb_false_r. unfold get_tag_span_to_error_object.
  unfold has_hed_ctx in Hh. rewrite Hh, Hs, Hsp. simpl.
  destruct (t_modified t); reflexivity.
Qed.

(* the computed offsets lie inside the tag's span, hence inside the text *)
Lemma offsets_inside : forall fixed i h t s e i',
  i_char i = None ->
  has_hed_ctx i h -> i_src i = Some (SrcTag t) ->
  get_org_span h (SrcTag t) = Some (s, e) ->
  s <= e -> e <= length (hs_text h) ->
  idx_bounds i (e - s) ->
  update_error_with_char_pos fixed i = Ok i' ->
  exists ci ce, i_char i' = Some (ci, ce) /\ s <= ci /\ ci <= ce /\ ce <= e
                /\ ce <= length (hs_text h)
                /\ i_suffixes i' = i_suffixes i ++ [(ci, ce)].
Proof.
  intros fixed i h t s e i' Hc Hh Hs Hsp Hse He Hb Hu.
  rewrite (update_tag_located fixed i h t s e Hc Hh Hs Hsp) in Hu.
  unfold idx_bounds in Hb.
  destruct (t_modified t); inversion Hu; subst; clear Hu; simpl.
  - exists s, e. repeat split; lia.
  - destruct (i_idx_end i) as [b|]; eexists; eexists; (split; [reflexivity|]); repeat split; lia.
Qed.

Lemma get_org_span_plain : forall text orig t s e,
  get_org_span (HS text orig []) (SrcTag t) = Some (s, e) -> s = t_start t /\ e = t_end t.
Proof.
  intros text orig t s e H. unfold get_org_span in H. simpl in H.
  destruct (in_original (HS text orig []) (t_id t)); inversion H; auto.
Qed.

(* a tag whose text is the slice of the string it was parsed from (C02) *)
Definition tag_is_slice (text : str) (t : srctag) : Prop :=
  t_start t <= t_end t /\ t_end t <= length text /\ sub text (t_start t) (t_end t) = t_org t
  /\ t_modified t = false /\ t_text t = t_org t.

(* sub-tag errors: the offsets select exactly the fragment quoted in the message *)
Lemma offsets_select_fragment : forall fixed r t idx idx_end sev ctx text orig i',
  let i0 := wrap_tag_sub r (SrcTag t) idx idx_end sev in
  let i := add_context_to_errors i0 ctx in
  has_hed_ctx i (HS text orig []) ->
  in_original (HS text orig []) (t_id t) = true ->
  tag_is_slice text t ->
  idx <= match idx_end with Some b => b | None => length (t_org t) end ->
  match idx_end with Some b => b <= length (t_org t) | None => True end ->
  update_error_with_char_pos fixed i = Ok i' ->
  exists ci ce, i_char i' = Some (ci, ce)
    /\ t_start t <= ci /\ ci <= ce /\ ce <= t_end t /\ ce <= length text
    /\ m_frag (i_msg i') = Some (sub text ci ce)
    /\ m_tag (i_msg i') = Some (sub text (t_start t) (t_end t)).
Proof.
  intros fixed r t idx idx_end sev ctx text orig i' i0 i Hh Hin Hsl Hidx Hend Hu.
  destruct Hsl as (Hse & He & Hsub & Hmod & Htxt).
  destruct (add_context_fields ctx i0) as (_ & _ & Fm & Fi & Fe & Fs & Fc & _). fold i in Fm, Fi, Fe, Fs, Fc.
  assert (Hlen : length (t_org t) = t_end t - t_start t).
  { rewrite <- Hsub. apply sub_length; assumption. }
  assert (Hsp : get_org_span (HS text orig []) (SrcTag t) = Some (t_start t, t_end t)).
  { unfold get_org_span. simpl. rewrite Hin. reflexivity. }
  assert (Hc : i_char i = None) by (rewrite Fc; reflexivity).
  assert (Hs : i_src i = Some (SrcTag t)) by (rewrite Fs; reflexivity).
  rewrite (update_tag_located fixed i _ t _ _ Hc Hh Hs Hsp) in Hu.
  rewrite Hmod in Hu. inversion Hu; subst i'; clear Hu. simpl.
  rewrite Fi, Fe, Fm. simpl. rewrite Htxt.
  set (b := match idx_end with Some e => e | None => length (t_org t) end) in *.
  assert (Hb : b <= length (t_org t)) by (subst b; destruct idx_end; [assumption | lia]).
  exists (t_start t + idx), (t_start t + b).
  split; [reflexivity|]. repeat split; try lia.
  - rewrite <- Hsub at 1. rewrite sub_sub by lia. reflexivity.
  - rewrite Hsub. reflexivity.
Qed.

(* whole-tag errors: the offsets select the tag text quoted in the message *)
Lemma offsets_select_tag : forall fixed r t sev ctx text orig i',
  let i0 := wrap_tag r (SrcTag t) sev in
  let i := add_context_to_errors i0 ctx in
  has_hed_ctx i (HS text orig []) ->
  in_original (HS text orig []) (t_id t) = true ->
  tag_is_slice text t ->
  update_error_with_char_pos fixed i = Ok i' ->
  i_char i' = Some (t_start t, t_end t)
  /\ m_tag (i_msg i') = Some (sub text (t_start t) (t_end t)).
Proof.
  intros fixed r t sev ctx text orig i' i0 i Hh Hin Hsl Hu.
  destruct Hsl as (Hse & He & Hsub & Hmod & Htxt).
  destruct (add_context_fields ctx i0) as (_ & _ & Fm & Fi & Fe & Fs & Fc & _). fold i in Fm, Fi, Fe, Fs, Fc.
  assert (Hsp : get_org_span (HS text orig []) (SrcTag t) = Some (t_start t, t_end t)).
  { unfold get_org_span. simpl. rewrite Hin. reflexivity. }
  assert (Hc : i_char i = None) by (rewrite Fc; reflexivity).
  assert (Hs : i_src i = Some (SrcTag t)) by (rewrite Fs; reflexivity).
  rewrite (update_tag_located fixed i _ t _ _ Hc Hh Hs Hsp) in Hu.
  rewrite Hmod in Hu. inversion Hu; subst i'; clear Hu. simpl.
  rewrite Fi, Fe, Fm. simpl. rewrite Hsub, Nat.add_0_r. auto.
Qed.

(* strings combined with HedString.from_hed_strings: the shifted span selects, in the
   comma-joined text, what the local span selects in the part *)
Fixpoint parts_len (l : list hstr) : nat :=
  match l with [] => 0 | p :: ps => length (hs_text p) + 1 + parts_len ps end.

Lemma from_strings_span : forall pre p post off id a b,
  Forall (fun q => in_original q id = false) pre ->
  in_original p id = true ->
  get_org_span_from_strings (pre ++ p :: post) off id a b
  = Some (a + (off + parts_len pre), b + (off + parts_len pre)).
Proof.
  induction pre as [|q pre IH]; intros p post off id a b Hpre Hp; simpl.
  - rewrite Hp. rewrite Nat.add_0_r. reflexivity.
  - inversion Hpre; subst. rewrite H1. rewrite (IH p post _ id a b H2 Hp).
    f_equal. f_equal; lia.
Qed.

Lemma sub_app_l : forall (x y : str) a b, b <= length x -> sub (x ++ y) a b = sub x a b.
Proof.
  intros x y a b Hb. unfold sub.
  rewrite skipn_app, firstn_app, skipn_length.
  replace (b - a - (length x - a)) with 0 by lia. rewrite firstn_O, app_nil_r. reflexivity.
Qed.

Lemma sub_app_r : forall (x y : str) a b, sub (x ++ y) (a + length x) (b + length x) = sub y a b.
Proof.
  intros x y a b. unfold sub. rewrite skipn_app.
  rewrite (skipn_all2 x) by lia. simpl.
  replace (a + length x - length x) with a by lia.
  replace (b + length x - (a + length x)) with (b - a) by lia. reflexivity.
Qed.

Lemma join_cons_app : forall sep (x : str) l,
  exists rest, join sep (x :: l) = x ++ rest /\ (l <> [] -> rest = sep ++ join sep l).
Proof.
  intros sep x l. destruct l as [|y l]; simpl.
  - exists []. rewrite app_nil_r. split; [reflexivity | congruence].
  - eexists. split; [reflexivity | reflexivity].
Qed.

Lemma from_strings_slice : forall pre p post a b,
  a <= b -> b <= length (hs_text p) ->
  sub (join [ch_comma] (map hs_text (pre ++ p :: post))) (a + parts_len pre) (b + parts_len pre)
  = sub (hs_text p) a b.
Proof.
  induction pre as [|q pre IH]; intros p post a b Hab Hb.
  - simpl parts_len. rewrite !Nat.add_0_r. cbn [app map].
    destruct (join_cons_app [ch_comma] (hs_text p) (map hs_text post)) as (rest & E & _).
    rewrite E. apply sub_app_l. assumption.
  - cbn [app map parts_len].
    destruct (join_cons_app [ch_comma] (hs_text q) (map hs_text (pre ++ p :: post))) as (rest & E & Er).
    rewrite E, Er by (destruct pre; discriminate).
    replace (hs_text q ++ [ch_comma] ++ join [ch_comma] (map hs_text (pre ++ p :: post)))
      with ((hs_text q ++ [ch_comma]) ++ join [ch_comma] (map hs_text (pre ++ p :: post)))
      by (rewrite <- app_assoc; reflexivity).
    replace (a + (length (hs_text q) + 1 + parts_len pre))
      with ((a + parts_len pre) + length (hs_text q ++ [ch_comma])) by (rewrite app_length; simpl; lia).
    replace (b + (length (hs_text q) + 1 + parts_len pre))
      with ((b + parts_len pre) + length (hs_text q ++ [ch_comma])) by (rewrite app_length; simpl; lia).
    rewrite sub_app_r. apply IH; assumption.
Qed.

(* ================================================================== 6. the location suffix *)

(* an issue carries offsets iff its message carries exactly one suffix *)
Definition suffix_inv (i : issue) : Prop :=
  length (i_suffixes i) = match i_char i with Some _ => 1 | None => 0 end.

Definition fresh (i : issue) : Prop := i_char i = None /\ i_suffixes i = [].

Lemma fresh_inv : forall i, fresh i -> suffix_inv i.
Proof. intros i [Hc Hs]. unfold suffix_inv. rewrite Hc, Hs. reflexivity. Qed.

Lemma update_fixed_inv : forall i i',
  suffix_inv i -> update_error_with_char_pos true i = Ok i' -> suffix_inv i'.
Proof.
  intros i i' Hinv H. unfold update_error_with_char_pos in H.
  destruct (i_char i) as [p|] eqn:Hc; simpl in H.
  - inversion H; subst. assumption.
  - fold (update_error_with_char_pos false i) in H.
    assert (H' : update_error_with_char_pos false i = Ok i').
    { unfold update_error_with_char_pos. simpl. exact H. }
    destruct (update_cases _ _ _ H') as [E | (ns & ne & E)]; subst i'; [assumption|].
    unfold suffix_inv in *. rewrite Hc in Hinv. simpl. rewrite app_length, Hinv. reflexivity.
Qed.

Lemma decorate_fixed_inv : forall ctx i i',
  suffix_inv i -> decorate_one true ctx i = Ok i' -> suffix_inv i'.
Proof.
  intros ctx i i' Hinv H. unfold decorate_one in H.
  eapply update_fixed_inv; [|exact H].
  destruct (add_context_fields ctx i) as (_ & _ & _ & _ & _ & _ & Fc & Fs).
  unfold suffix_inv. rewrite Fc, Fs. exact Hinv.
Qed.

Lemma acf_fixed_inv : forall h l l',
  Forall suffix_inv l -> add_context_and_filter true h l = Ok l' -> Forall suffix_inv l'.
Proof.
  intros h l l' HF H. unfold add_context_and_filter in H.
  eapply (mapM_Forall _ suffix_inv suffix_inv); [| |exact H].
  - intros x y Hx Hy. eapply decorate_fixed_inv; eassumption.
  - destruct (h_warn h); [assumption | apply filter_Forall; assumption].
Qed.

(* with the idempotence guard: after any number of decorations along the call path
   of validate, every message carries the suffix once iff the issue carries offsets *)
Lemma suffix_once_fixed : forall h basic full out,
  Forall suffix_inv basic -> Forall suffix_inv full ->
  validate true h basic full = Ok out -> Forall suffix_inv out.
Proof.
  intros h basic full out Hb Hf H. unfold validate in H.
  destruct (add_context_and_filter true h basic) as [b1|] eqn:B1; simpl in H; [|discriminate].
  pose proof (acf_fixed_inv _ _ _ Hb B1) as Hb1.
  destruct (check_for_any_errors b1).
  - inversion H; subst. assumption.
  - eapply acf_fixed_inv; [|exact H]. apply Forall_app. split; assumption.
Qed.

(* any further decoration passes keep it *)
Lemma suffix_once_fixed_passes : forall h l l',
  Forall suffix_inv l -> add_context_and_filter true h l = Ok l' -> Forall suffix_inv l'.
Proof. exact acf_fixed_inv. Qed.

Lemma update_fixed_idempotent : forall i i',
  update_error_with_char_pos true i = Ok i' -> update_error_with_char_pos true i' = Ok i'.
Proof.
  intros i i' H.
  destruct (i_char i') as [p|] eqn:Hc'.
  - unfold update_error_with_char_pos. rewrite Hc'. reflexivity.
  - destruct (update_cases _ _ _ H) as [E | (ns & ne & E)]; subst i'; [assumption | discriminate].
Qed.

(* record of the repaired defect C12-F1 (behaviour before fix commit 5312cdc, fixed = false):
   witness = the warning STYLE_WARNING on tag "red" (span 0..3) of
   the string "red", validated through HedValidator.validate with a handler that
   holds the string context *)
Definition k_STYLE_WARNING : str := [83;84;89;76;69;95;87;65;82;78;73;78;71]%N.
Definition w_text : str := [114;101;100]%N.
Definition w_tag : srctag :=
  {| t_id := 1; t_start := 0; t_end := 3; t_text := w_text; t_org := w_text; t_modified := false |}.
Definition w_hs : hstr := HS w_text [0; 1] [].
Definition w_handler : handler := {| h_ctx := [(CHedString, VHed w_hs)]; h_warn := true |}.
Definition w_args : call_args :=
  {| a_tag := Some (SrcTag w_tag); a_idx := 0; a_idx_end := None; a_sev := None |}.
Definition w_basic : list issue :=
  match format_error kind_table k_STYLE_WARNING w_args None with Ok i => [i] | Exn _ => [] end.

Lemma suffix_once_refuted :
  exists h basic full out i,
    Forall fresh basic /\ Forall fresh full /\
    validate false h basic full = Ok out /\ In i out /\
    i_char i = Some (0, 3) /\ i_suffixes i = [(0, 3); (0, 3)] /\ i_sev i = sev_warning.
Proof.
  exists w_handler, w_basic, [].
  eexists. eexists.
  split; [repeat constructor|]. split; [constructor|].
  split; [vm_compute; reflexivity|].
  split; [left; reflexivity|].
  vm_compute. auto.
Qed.

(* the clause for the code as it is in /repo: [code_is_fixed] mirrors FIXED in harness/c12.py (true since
   fix commit 5312cdc).  Stated for THAT mode: flipping the switch makes this proof fail. *)
Lemma suffix_once_current : forall h basic full out,
  Forall suffix_inv basic -> Forall suffix_inv full ->
  validate code_is_fixed h basic full = Ok out -> Forall suffix_inv out.
Proof. exact suffix_once_fixed. Qed.

Lemma suffix_once_current_passes : forall h l l',
  Forall suffix_inv l -> add_context_and_filter code_is_fixed h l = Ok l' -> Forall suffix_inv l'.
Proof. exact acf_fixed_inv. Qed.

(* what the code before fix commit 5312cdc (fixed = false) did guarantee: one decoration of fresh issues is fine ... *)
Lemma update_current_fresh : forall i i',
  fresh i -> update_error_with_char_pos false i = Ok i' -> suffix_inv i'.
Proof.
  intros i i' [Hc Hs] H.
  destruct (update_cases _ _ _ H) as [E | (ns & ne & E)]; subst i'; unfold suffix_inv; simpl.
  - rewrite Hc, Hs. reflexivity.
  - rewrite Hs. reflexivity.
Qed.

Lemma acf_current_fresh : forall h l l',
  Forall fresh l -> add_context_and_filter false h l = Ok l' -> Forall suffix_inv l'.
Proof.
  intros h l l' HF H. unfold add_context_and_filter in H.
  eapply (mapM_Forall _ fresh suffix_inv); [| |exact H].
  - intros x y Hx Hy. unfold decorate_one in Hy.
    eapply update_current_fresh; [|exact Hy].
    destruct (add_context_fields (h_ctx h) x) as (_ & _ & _ & _ & _ & _ & Fc & Fs).
    destruct Hx as [Hc Hs]. split; congruence.
  - destruct (h_warn h); [assumption | apply filter_Forall; assumption].
Qed.

(* ... and so is validate whenever the basic phase reported an error (early return),
   and every issue of the full phase; only basic-phase issues that survive to the second
   decoration are decorated twice *)
Lemma suffix_current_shape : forall h basic full out,
  Forall fresh basic -> Forall fresh full ->
  validate false h basic full = Ok out ->
  exists b1, add_context_and_filter false h basic = Ok b1 /\ Forall suffix_inv b1 /\
    ((check_for_any_errors b1 = true /\ out = b1) \/
     (check_for_any_errors b1 = false /\
      exists b2 f1, out = b2 ++ f1 /\ Forall suffix_inv f1 /\
                    add_context_and_filter false h b1 = Ok b2 /\
                    Forall (fun i => length (i_suffixes i) <= 2) b2)).
Proof.
  intros h basic full out Hb Hf H. unfold validate in H.
  destruct (add_context_and_filter false h basic) as [b1|] eqn:B1; simpl in H; [|discriminate].
  exists b1. split; [reflexivity|].
  pose proof (acf_current_fresh _ _ _ Hb B1) as Hb1. split; [assumption|].
  destruct (check_for_any_errors b1) eqn:AE.
  - left. inversion H; auto.
  - right. split; [reflexivity|].
    unfold add_context_and_filter in H.
    assert (Hall : forall l, (if h_warn h then l else filter_issues_by_severity l sev_error)
                   = (if h_warn h then l else filter is_error l)) by reflexivity.
    destruct (h_warn h) eqn:W.
    + destruct (mapM_app _ _ _ _ H) as (r1 & r2 & M1 & M2 & E).
      exists r1, r2. split; [assumption|]. split.
      * apply (acf_current_fresh {| h_ctx := h_ctx h; h_warn := true |} full r2 Hf). exact M2.
      * split; [unfold add_context_and_filter; rewrite W; exact M1|].
        eapply (mapM_Forall _ suffix_inv (fun i => length (i_suffixes i) <= 2)); [|exact Hb1|exact M1].
        intros x y Hx Hy. unfold decorate_one in Hy.
        destruct (add_context_fields (h_ctx h) x) as (_ & _ & _ & _ & _ & _ & Fc & Fs).
        destruct (update_cases _ _ _ Hy) as [E' | (ns & ne & E')]; subst y; simpl.
        -- rewrite Fs. unfold suffix_inv in Hx. destruct (i_char x); lia.
        -- rewrite app_length, Fs. simpl. unfold suffix_inv in Hx. destruct (i_char x); lia.
    + unfold filter_issues_by_severity in H. rewrite filter_app in H.
      destruct (mapM_app _ _ _ _ H) as (r1 & r2 & M1 & M2 & E).
      exists r1, r2. split; [assumption|]. split.
      * apply (acf_current_fresh {| h_ctx := h_ctx h; h_warn := false |} full r2 Hf). exact M2.
      * split; [unfold add_context_and_filter; rewrite W; exact M1|].
        eapply (mapM_Forall _ suffix_inv (fun i => length (i_suffixes i) <= 2));
          [|apply filter_Forall; exact Hb1|exact M1].
        intros x y Hx Hy. unfold decorate_one in Hy.
        destruct (add_context_fields (h_ctx h) x) as (_ & _ & _ & _ & _ & _ & Fc & Fs).
        destruct (update_cases _ _ _ Hy) as [E' | (ns & ne & E')]; subst y; simpl.
        -- rewrite Fs. unfold suffix_inv in Hx. destruct (i_char x); lia.
        -- rewrite app_length, Fs. simpl. unfold suffix_inv in Hx. destruct (i_char x); lia.
Qed.

(* ================================================================== 7. never raises *)

Definition src_safe (i : issue) : Prop :=
  match i_src i with Some (SrcGroup _ _ _ true _ _) => False | _ => True end.
Definition ctx_safe (ctx : list (ckey * cval)) : Prop :=
  forall v, In (CHedString, v) ctx -> exists h, v = VHed h.
Definition issue_ctx_safe (i : issue) : Prop :=
  forall v, dict_get CHedString (i_ctx i) = Some v -> exists h, v = VHed h.

Lemma dict_get_set : forall k k' v d,
  dict_get k (dict_set k' v d) = if ckey_eqb k k' then Some v else dict_get k d.
Proof.
  induction d as [|[k0 v0] d IH]; simpl.
  - destruct (ckey_eqb k k'); reflexivity.
  - destruct (ckey_eqb k' k0) eqn:E0; simpl.
    + apply ckey_eqb_spec in E0; subst k0. destruct (ckey_eqb k k'); reflexivity.
    + destruct (ckey_eqb k k0) eqn:E1.
      * apply ckey_eqb_spec in E1; subst k0.
        destruct (ckey_eqb k k') eqn:E2; [|reflexivity].
        apply ckey_eqb_spec in E2; subst k'.
        rewrite (proj2 (ckey_eqb_spec k k) eq_refl) in E0. discriminate.
      * exact IH.
Qed.

Lemma add_context_safe : forall ctx i,
  ctx_safe ctx -> issue_ctx_safe i -> issue_ctx_safe (add_context_to_errors i ctx).
Proof.
  unfold add_context_to_errors.
  induction ctx as [|[k v] ctx IH]; intros i Hc Hi; simpl; [assumption|].
  apply IH.
  - intros v' Hin. apply Hc. right. assumption.
  - unfold issue_ctx_safe in *. simpl. intros v' Hg. rewrite dict_get_set in Hg.
    destruct (ckey_eqb CHedString k) eqn:E.
    + apply ckey_eqb_spec in E; subst k. inversion Hg; subst. apply Hc. left. reflexivity.
    + apply Hi. assumption.
Qed.

Lemma update_never_raises : forall fixed i,
  src_safe i -> issue_ctx_safe i -> exists i', update_error_with_char_pos fixed i = Ok i'.
Proof.
  intros fixed i Hs Hc. unfold update_error_with_char_pos.
  destruct (fixed && _); [eexists; reflexivity|].
  unfold get_tag_span_to_error_object. unfold issue_ctx_safe in Hc. unfold src_safe in Hs.
  destruct (dict_get CHedString (i_ctx i)) as [v|]; [|eexists; reflexivity].
  destruct (Hc v eq_refl) as [h Hv]; subst v.
  destruct (i_src i) as [[t|id a b ne pr org| |s]|]; simpl; try (eexists; reflexivity).
  - destruct (get_org_span h (SrcTag t)) as [[s e]|]; simpl; [|eexists; reflexivity].
    destruct (t_modified t); eexists; reflexivity.
  - destruct ne; [contradiction|].
    destruct (get_org_span h _) as [[s e]|]; simpl; eexists; reflexivity.
Qed.

Lemma mapM_total {A B} (f : A -> res B) (P : A -> Prop) :
  (forall x, P x -> exists y, f x = Ok y) ->
  forall l, Forall P l -> exists r, mapM f l = Ok r.
Proof.
  intros Hf. induction l as [|x xs IH]; intros HF; simpl; [eexists; reflexivity|].
  inversion HF; subst. destruct (Hf x H1) as [y Hy]. destruct (IH H2) as [r Hr].
  rewrite Hy, Hr. simpl. eexists; reflexivity.
Qed.

(* decoration never raises unless a non-empty group is the source tag or the string
   context is not a HedString *)
Lemma decoration_never_raises : forall fixed h l,
  ctx_safe (h_ctx h) -> Forall (fun i => src_safe i /\ issue_ctx_safe i) l ->
  exists l', add_context_and_filter fixed h l = Ok l'.
Proof.
  intros fixed h l Hc HF. unfold add_context_and_filter.
  eapply (mapM_total _ (fun i => src_safe i /\ issue_ctx_safe i)).
  - intros x [Hs Hi]. unfold decorate_one. apply update_never_raises.
    + unfold src_safe in *. destruct (add_context_fields (h_ctx h) x) as (_ & _ & _ & _ & _ & Fs & _).
      rewrite Fs. assumption.
    + apply add_context_safe; assumption.
  - destruct (h_warn h); [assumption | apply filter_Forall; assumption].
Qed.

(* ... and it does raise on a non-empty group (latent: no validator passes one) *)
Definition g_hs : hstr := HS [40;97;41]%N [0; 1; 2] [].
Definition g_issue : issue :=
  create_error_object [88]%N {| m_tag := None; m_frag := None |} sev_error None None
                      (Some (SrcGroup 1 0 3 true [40;97;41]%N [40;97;41]%N)).
Lemma decoration_group_raises :
  add_context_and_filter false {| h_ctx := [(CHedString, VHed g_hs)]; h_warn := true |} [g_issue]
  = Exn AttributeError.
Proof. vm_compute. reflexivity. Qed.

(* ================================================================== 8. export *)

Definition repl_item (x : pyval) : pyval :=
  match x with
  | PDict _ | PList _ => replace_tag_references x
  | PBool _ | PInt _ | PFloat _ => x
  | PStr s => PStr s
  | PNone => PStr s_None
  | PObj r => PStr r
  end.

Lemma rtr_list : forall l, replace_tag_references (PList l) = PList (map repl_item l).
Proof. reflexivity. Qed.
Lemma rtr_dict : forall d,
  replace_tag_references (PDict d) = PDict (map (fun kx => (fst kx, repl_item (snd kx))) d).
Proof. reflexivity. Qed.

(* depth-indexed induction avoids a nested induction principle *)
Fixpoint depth (v : pyval) : nat :=
  match v with
  | PList l => S (fold_right (fun x n => Nat.max (depth x) n) 0 l)
  | PDict d => S (fold_right (fun kx n => Nat.max (depth (snd kx)) n) 0 d)
  | _ => 0
  end.

Lemma json_ok_replace_depth : forall n v, depth v <= n ->
  (match v with PList _ | PDict _ => True | _ => False end) ->
  json_ok (replace_tag_references v) = true.
Proof.
  induction n as [|n IH]; intros v Hd Hc.
  - destruct v; try contradiction; simpl in Hd; lia.
  - destruct v; try contradiction.
    + rewrite rtr_list. cbn [json_ok]. rewrite forallb_forall. intros y Hy.
      apply in_map_iff in Hy as (x & Ex & Hx). subst y.
      assert (Hdx : depth x <= n).
      { simpl in Hd. apply le_S_n in Hd. clear -Hd Hx.
        induction l as [|z l IHl]; [contradiction|]. simpl in Hd.
        destruct Hx as [-> | Hx]; [lia | apply IHl; [lia | assumption]]. }
      destruct x; cbn [repl_item]; try reflexivity; (apply IH; [assumption | exact I]).
    + rewrite rtr_dict. cbn [json_ok]. rewrite forallb_forall. intros y Hy.
      apply in_map_iff in Hy as (kx & Ex & Hx). subst y. cbn [snd].
      assert (Hdx : depth (snd kx) <= n).
      { simpl in Hd. apply le_S_n in Hd. clear -Hd Hx.
        induction d as [|z d IHd]; [contradiction|]. simpl in Hd.
        destruct Hx as [-> | Hx]; [lia | apply IHd; [lia | assumption]]. }
      destruct (snd kx); cbn [repl_item]; try reflexivity; (apply IH; [assumption | exact I]).
Qed.

Lemma json_ok_replace_list : forall l, json_ok (replace_tag_references (PList l)) = true.
Proof. intro l. apply (json_ok_replace_depth (depth (PList l))); [lia | exact I]. Qed.

Lemma py_code_issue : forall i, py_code (repl_item (issue_py i)) = Some (i_code i).
Proof. intro i. reflexivity. Qed.

Lemma export_serialisable : forall l,
  json_ok (export l) = true /\
  map py_code (py_items (export l)) = map (fun i => Some (i_code i)) l.
Proof.
  intro l. split.
  - unfold export. apply json_ok_replace_list.
  - unfold export. rewrite rtr_list. cbn [py_items]. rewrite !map_map.
    apply map_ext. intro i. apply py_code_issue.
Qed.

(* before replacement an issue that names a tag is NOT serialisable (so the step matters) *)
Lemma export_needed : json_ok (PList (map issue_py w_basic)) = false.
Proof. vm_compute. reflexivity. Qed.

Example nonvacuous_pipeline :
  exists out, validate true w_handler w_basic [] = Ok out /\
    map i_char out = [Some (0, 3)] /\ map i_suffixes out = [[(0, 3)]] /\
    map i_code out = [k_STYLE_WARNING] /\
    validate true (with_warn w_handler false) w_basic [] = Ok [].
Proof. eexists. split; [vm_compute; reflexivity|]. vm_compute. auto. Qed.

(* ================================================================== 9. the sort never raises on typed contexts *)

(* raw int component (int key) / tagged component (any other key) *)
Definition kv_class (v : kv) : nat := match v with KI _ => 0 | KS _ => 1 | KT0 _ | KT1 _ => 2 end.

Lemma comparable_same_class : forall (fa fb : ckey -> kv) ks,
  (forall k, In k ks -> kv_class (fa k) = kv_class (fb k) /\ kv_class (fa k) <> 1) ->
  comparable (map fa ks) (map fb ks) = true.
Proof.
  induction ks as [|k ks IH]; intros H; [reflexivity|].
  cbn [map comparable].
  destruct (H k (or_introl eq_refl)) as [Hk Hn].
  assert (IH' : comparable (map fa ks) (map fb ks) = true) by (apply IH; intros k' Hin; apply H; right; assumption).
  destruct (fa k) as [p|p|p|p], (fb k) as [q|q|q|q]; simpl in Hk, Hn; try discriminate; try congruence;
    try reflexivity.
  - destruct (Z.eqb p q); [assumption | reflexivity].
  - destruct (str_eqb p q); [assumption | reflexivity].
  - destruct (Z.eqb p q); [assumption | reflexivity].
Qed.

Lemma typed_key_shape : forall i k,
  (match dict_get k (i_ctx i) with
   | Some (VInt _) => true
   | Some (VStr _) => negb (ckey_mem k int_sort_list)
   | Some (VHed _) => false
   | None => true
   end) = true ->
  get_key1 (i_ctx i) k <> None /\
  kv_class (match get_key1 (i_ctx i) k with Some v => v | None => KT0 [] end)
  = if ckey_mem k int_sort_list then 0 else 2.
Proof.
  intros i k H. unfold get_key1.
  set (m := ckey_mem k int_sort_list) in *. clearbody m.
  destruct (dict_get k (i_ctx i)) as [[s|z|h]|].
  - split; [discriminate|]. destruct m; [discriminate | reflexivity].
  - split; [discriminate|]. destruct m; reflexivity.
  - discriminate.
  - split; [discriminate|]. destruct m; reflexivity.
Qed.

Lemma typed_modelled : forall i, ctx_typed i = true -> keys_modelled i = true.
Proof.
  intros i H. unfold ctx_typed in H. unfold keys_modelled.
  rewrite forallb_forall in *. intros k Hk.
  destruct (typed_key_shape i k (H k Hk)) as [Hn _].
  destruct (get_key1 (i_ctx i) k); [reflexivity | contradiction].
Qed.

Lemma typed_comparable : forall a b, ctx_typed a = true -> ctx_typed b = true ->
  comparable (get_keys a) (get_keys b) = true.
Proof.
  intros a b Ha Hb. unfold get_keys. apply comparable_same_class.
  intros k Hk. unfold ctx_typed in Ha, Hb. rewrite forallb_forall in Ha, Hb.
  destruct (typed_key_shape a k (Ha k Hk)) as [_ Ea].
  destruct (typed_key_shape b k (Hb k Hk)) as [_ Eb].
  rewrite Ea, Eb. split; [reflexivity|]. destruct (ckey_mem k int_sort_list); discriminate.
Qed.

Lemma sort_total_on_typed : forall l reverse,
  forallb ctx_typed l = true -> exists l', sort_issues l reverse = Ok l'.
Proof.
  intros l reverse H. unfold sort_issues.
  assert (Hm : forallb keys_modelled l = true).
  { rewrite forallb_forall in *. intros x Hx. apply typed_modelled, H, Hx. }
  rewrite Hm.
  assert (Hp : all_pairs (fun a b => comparable (get_keys a) (get_keys b)) l = true).
  { induction l as [|x xs IH]; [reflexivity|].
    cbn [forallb] in H. apply andb_true_iff in H as [Hx Hxs].
    cbn [all_pairs]. apply andb_true_iff. split.
    - rewrite forallb_forall in *. intros y Hy. apply typed_comparable; [assumption | apply Hxs, Hy].
    - apply IH; [assumption|]. rewrite forallb_forall in *. intros y Hy. apply typed_modelled, Hxs, Hy. }
  rewrite Hp. eexists; reflexivity.
Qed.

(* ================================================================== 10. every issue has a message *)

Fixpoint msg_lookup (kind : str) (l : list (str * nat)) : option nat :=
  match l with
  | [] => None
  | (k, n) :: r => if str_eqb k kind then Some n else msg_lookup kind r
  end.

Definition k_Unknown : str := [85;110;107;110;111;119;110]%N.

(* literal characters in the text format_error stores under 'message' for [kind]: the registered message
   function's, or val_error_unknown's for an unregistered kind *)
Definition msg_min_of (kind : str) : nat :=
  match msg_lookup kind kind_msg_min with
  | Some n => n
  | None => match msg_lookup k_Unknown kind_msg_min with Some n => n | None => 0 end
  end.

Lemma msg_table_positive : forallb (fun kn => 0 <? snd kn) kind_msg_min = true.
Proof. vm_compute. reflexivity. Qed.

Lemma msg_table_covers_kinds : map fst kind_msg_min = map k_kind kind_table.
Proof. vm_compute. reflexivity. Qed.

Lemma msg_lookup_in : forall kind l n, msg_lookup kind l = Some n -> In (kind, n) l \/ exists k, In (k, n) l.
Proof.
  induction l as [|[k m] l IH]; simpl; intros n H; [discriminate|].
  destruct (str_eqb k kind); [inversion H; subst; right; exists k; left; reflexivity|].
  destruct (IH n H) as [A | [k' A]]; [left; right; assumption | right; exists k'; right; assumption].
Qed.

Lemma message_nonempty : forall kind, 0 < msg_min_of kind.
Proof.
  intro kind. unfold msg_min_of.
  pose proof msg_table_positive as P. rewrite forallb_forall in P.
  destruct (msg_lookup kind kind_msg_min) as [n|] eqn:E.
  - destruct (msg_lookup_in _ _ _ E) as [A | [k A]]; apply P in A; simpl in A; apply Nat.ltb_lt; assumption.
  - vm_compute. lia.
Qed.

(* ================================================================== 11. numeric column labels *)

Lemma text_label_before_number : forall s z, kv_cmp (KT0 s) (KT1 z) = Lt.
Proof. reflexivity. Qed.

(* issues of a headerless file: no column label, a text label, numeric labels 2 and 10 *)
Definition nl_issue (n : nat) (col : option cval) : issue :=
  {| i_code := [88]%N; i_sev := n; i_msg := {| m_tag := None; m_frag := None |}; i_idx := None; i_idx_end := None;
     i_src := None;
     i_ctx := (CFile, VStr [102]%N) :: (CRow, VInt 2) :: match col with Some c => [(CColumn, c)] | None => [] end;
     i_char := None; i_suffixes := [] |}.
Definition nl_list : list issue :=
  [nl_issue 0 (Some (VInt 10)); nl_issue 1 (Some (VStr [72;69;68]%N)); nl_issue 2 (Some (VInt 2)); nl_issue 3 None].

Lemma numeric_labels_sorted :
  forallb ctx_typed nl_list = true /\
  exists out, sort_issues nl_list false = Ok out /\ map i_sev out = [3; 1; 2; 0].
Proof. split; [vm_compute; reflexivity|]. eexists. split; vm_compute; reflexivity. Qed.
