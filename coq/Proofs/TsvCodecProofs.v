(* Lemmas about the TSV tag row codec (C05 (d)). *)
From Coq Require Import List NArith ZArith Arith Bool.
From HV Require Import Base.Res Base.Str Base.StrOps Model.AttrCodec Model.WikiCodec Model.TsvCodec
     Proofs.AttrCodecProofs Proofs.WikiCodecProofs.
Import ListNotations.

(* a tag row without hedId: the reader gives back name, the attributes the TSV writer keeps
   (inLibrary when stripping, hedId and annotationProperty never), and the description *)
Lemma tsv_row_roundtrip (fixed5 strip_lib : bool) (n : str) (a : attrs) (d : option str) :
  (if fixed5 then no_outer_ws n else true) = true ->
  attr_ok a = true -> dict_get s_hedId a = None -> tsv_desc_ok d = true ->
  memb ch_slash n = false -> endswith [ch_slash; ch_hash] n = false ->
  endswith [ch_hash] n = false -> endswith s_dash_hash n = false ->
  tsv_read_row fixed5 (tsv_write_tag_row strip_lib n a d)
  = Ok (n, filter (fun kv => negb (attribute_disallowed_df strip_lib (fst kv))) a, d).
Proof.
  intros Hnw Ha Hh Hd Hs H1 H2 H3.
  unfold tsv_write_tag_row, tsv_read_row. cbn [r_hed_id r_name r_attributes r_description].
  rewrite Hh, H2. unfold short_tag_name. rewrite H1, (last_component_noslash _ Hs).
  assert (Hn : (if fixed5 then strip n else n) = n) by (destruct fixed5; [apply strip_id; exact Hnw | reflexivity]).
  rewrite Hn, H3.
  rewrite (attr_roundtrip_exact _ a Ha). cbn [nonempty].
  change (fun kv : str * aval => match snd kv with AStr [] => false | _ => true end) with kept.
  rewrite (attr_ok_kept _ (attr_ok_filter _ _ Ha)).
  destruct d as [[|c D]|]; try reflexivity.
  - simpl in Hd. discriminate.
  - unfold tsv_desc_ok in Hd. apply andb_true_iff in Hd as [_ Hw]. rewrite (strip_id _ Hw). reflexivity.
Qed.

(* ------------------------------------------------------------------ the unit class stub (C05-F4) *)

(* repaired writer: whatever the entry holds, a row written without its properties is read back as a
   bare name, and once the loader has tagged it with the library it has exactly the shape
   HedSchemaUnitClassSection._check_if_duplicate accepts as a placeholder of the standard class *)
Lemma tsv_stub_row_fixed (fixed5 strip_lib : bool) (n : str) (a : attrs) (d : option str) (library : str) :
  (if fixed5 then no_outer_ws n else true) = true ->
  endswith s_dash_hash n = false ->
  exists a',
    tsv_read_row fixed5 (tsv_write_entry_row true strip_lib false n a d) = Ok (n, a', None)
    /\ unit_class_stub (tag_with_library library a') = true.
Proof.
  intros Hw H. exists []. unfold tsv_write_entry_row, tsv_read_row.
  cbn [r_hed_id r_name r_attributes r_description].
  assert (Hn : (if fixed5 then strip n else n) = n) by (destruct fixed5; [apply strip_id; exact Hw | reflexivity]).
  rewrite Hn, H. split; reflexivity.
Qed.

(* the unrepaired writer ignored include_props: a standard class with an attribute is not a stub *)
Lemma tsv_stub_row_unfixed_refuted :
  exists n a library,
    attr_ok a = true /\ endswith s_dash_hash n = false /\
    exists a', tsv_read_row false (tsv_write_entry_row false true false n a None) = Ok (n, a', None)
               /\ unit_class_stub (tag_with_library library a') = false.
Proof.
  exists [116%N], [([100%N], AStr [115%N])], [115%N].
  split; [reflexivity|]. split; [reflexivity|].
  eexists. split; vm_compute; reflexivity.
Qed.
