(* Proofs about Model/Dups.v (property C04), part 2: the duplicate check
   itself -- exception freedom, invariance under sibling order and spelling
   for the code as it is (mode Fx: fix commits 7597eca, 2492808, 3e47c8c are in /repo),
   completeness, and -- as the record of the repaired defects -- the refutations
   for the behaviour before those commits (mode Orig). *)
From Coq Require Import List NArith Arith Bool Lia Permutation Sorted.
From HV Require Import Base.Res Base.Str Model.Dups Proofs.DupsProofs.
Import ListNotations.

(* ------------------------------------------------------------------ *)
(* exception-free mirror of _check_for_duplicate_groups_recursive      *)
(* ------------------------------------------------------------------ *)

Definition rep_kind (c : view) : kind :=
  match c with VT _ => K_TAG_REPEATED | VL _ => K_TAG_REPEATED_GROUP end.

Fixpoint dup_loop_p (m : mode) (prev : option view) (l : list (view * list kind)) : list kind :=
  match l with
  | [] => []
  | (c, sub) :: l' =>
      (if veq_prev m c prev then [rep_kind c] else []) ++ sub ++ dup_loop_p m (Some c) l'
  end.

Fixpoint dup_p (m : mode) (v : view) : list kind :=
  match v with
  | VT _ => []
  | VL l => dup_loop_p m None (map (fun c => (c, dup_p m c)) l)
  end.

(* no empty group anywhere *)
Fixpoint noempty (v : view) : bool :=
  match v with VT _ => true | VL l => negb (null l) && forallb noempty l end.
Fixpoint noempty_t (t : tree) : bool :=
  match t with T _ => true | G l => negb (null l) && forallb noempty_t l end.

Lemma first_leaf_ok v : noempty v = true -> exists n, first_leaf_steps v = Ok n.
Proof.
  induction v as [a|l IH] using view_ind2; intro H.
  - exists 0. reflexivity.
  - destruct l as [|x l]; [discriminate|]. cbn [noempty null negb forallb] in H. simpl in H.
    apply andb_true_iff in H as [Hx _]. inversion IH as [|? ? IHx _]; subst.
    destruct (IHx Hx) as [n En]. exists (S n). cbn [first_leaf_steps]. rewrite En. reflexivity.
Qed.

Lemma subject_ok_noempty m c : noempty c = true -> exists x, repeated_group_subject m c = Ok x.
Proof.
  intro H. unfold repeated_group_subject. destruct (m_total m).
  - destruct (walk_down c) as [n b]. eexists. reflexivity.
  - destruct (first_leaf_ok _ H) as [n En]. rewrite En. eexists. reflexivity.
Qed.

(* since fix commit 3e47c8c the walk to the first tag cannot raise *)
Lemma subject_ok_total m c : m_total m = true -> exists x, repeated_group_subject m c = Ok x.
Proof.
  intro H. unfold repeated_group_subject. rewrite H.
  destruct (walk_down c) as [n b]. eexists. reflexivity.
Qed.

Lemma dup_loop_ok m l :
  Forall (fun c => dup_rec m c = Ok (dup_p m c)) l ->
  Forall (fun c => exists x, repeated_group_subject m c = Ok x) l ->
  forall prev, dup_loop m prev (map (fun c => (c, dup_rec m c)) l)
               = Ok (dup_loop_p m prev (map (fun c => (c, dup_p m c)) l)).
Proof.
  induction 1 as [|c l Hc _ IH]; intros Hs prev; [reflexivity|].
  inversion Hs as [|? ? Hsc Hsl]; subst.
  cbn [map dup_loop dup_loop_p]. rewrite Hc. rewrite (IH Hsl (Some c)).
  destruct (veq_prev m c prev); [|reflexivity].
  destruct c as [a|lc]; [reflexivity|].
  destruct Hsc as [x Ex]. rewrite Ex. reflexivity.
Qed.

(* behaviour before fix commit 3e47c8c: on input without empty groups the check does not raise *)
Lemma dup_rec_pure m v : noempty v = true -> dup_rec m v = Ok (dup_p m v).
Proof.
  induction v as [a|l IH] using view_ind2; intro H; [reflexivity|].
  cbn [dup_rec dup_p]. cbn [noempty] in H. apply andb_true_iff in H as [_ H].
  rewrite forallb_forall in H. rewrite Forall_forall in IH.
  apply dup_loop_ok; apply Forall_forall; intros c Hc; [apply IH; auto|apply subject_ok_noempty; auto].
Qed.

Lemma dup_rec_pure_top m l : forallb noempty l = true -> dup_rec m (VL l) = Ok (dup_p m (VL l)).
Proof.
  intro H. cbn [dup_rec dup_p]. rewrite forallb_forall in H.
  apply dup_loop_ok; apply Forall_forall; intros c Hc; [apply dup_rec_pure; auto|apply subject_ok_noempty; auto].
Qed.

(* the code as it is (since 3e47c8c): the duplicate check is total *)
Lemma dup_rec_total m v : m_total m = true -> dup_rec m v = Ok (dup_p m v).
Proof.
  intro Ht. induction v as [a|l IH] using view_ind2; [reflexivity|].
  cbn [dup_rec dup_p]. apply dup_loop_ok; [exact IH|].
  apply Forall_forall. intros c _. apply subject_ok_total. exact Ht.
Qed.

Lemma null_perm {A} (l l' : list A) : Permutation l l' -> null l = null l'.
Proof.
  intro H. apply Permutation_length in H. destruct l, l'; simpl in *; try reflexivity; discriminate.
Qed.

Lemma noempty_sv m t : noempty_t t = true -> noempty (sv m t) = true.
Proof.
  induction t as [a|l IH] using tree_ind2; intro H; [reflexivity|].
  cbn [sv noempty]. cbn [noempty_t] in H. apply andb_true_iff in H as [H1 H2].
  rewrite (null_perm _ _ (arrange_perm m _)), (forallb_perm _ _ _ (arrange_perm m _)).
  rewrite !map_map. cbn [snd]. apply andb_true_iff. split.
  - destruct l; [discriminate|reflexivity].
  - rewrite forallb_forall in *. intros v Hv. rewrite in_map_iff in Hv.
    destruct Hv as (c & Ec & Hc). subst v. rewrite Forall_forall in IH. auto.
Qed.

Lemma noempty_sorted_view m top :
  forallb noempty_t top = true -> forallb noempty (sorted_view m top) = true.
Proof.
  intro H. unfold sorted_view. rewrite (forallb_perm _ _ _ (arrange_perm m _)).
  rewrite map_map. cbn [snd]. rewrite forallb_forall in *. intros v Hv. rewrite in_map_iff in Hv.
  destruct Hv as (c & Ec & Hc). subst v. apply noempty_sv. auto.
Qed.

Lemma check_dup_ok m top : forallb noempty_t top = true ->
  check_for_duplicate_groups m top = Ok (dup_p m (VL (sorted_view m top))).
Proof. intro H. apply dup_rec_pure_top. apply noempty_sorted_view. exact H. Qed.

Lemma check_dup_total m top : m_total m = true ->
  check_for_duplicate_groups m top = Ok (dup_p m (VL (sorted_view m top))).
Proof. intro H. apply dup_rec_total. exact H. Qed.

(* ------------------------------------------------------------------ *)
(* the code as it is: equality and the issue list only see canon       *)
(* ------------------------------------------------------------------ *)

Fixpoint ceq (c d : cview) : bool :=
  match c, d with
  | CT n, CT n' => str_eqb n n'
  | CL x, CL y => list_eqb2 ceq x y
  | _, _ => false
  end.

Lemma ceq_refl c : ceq c c = true.
Proof.
  induction c as [n|l IH] using cview_ind2; [apply str_eqb_refl|].
  cbn [ceq]. induction IH as [|x l Hx _ IHl]; [reflexivity|]. cbn [list_eqb2]. rewrite Hx, IHl. reflexivity.
Qed.

Lemma veq_ceq v : forall w, veq Fx v w = ceq (canon v) (canon w).
Proof.
  induction v as [a|l IH] using view_ind2; intro w; destruct w as [b|l']; try reflexivity.
  cbn [veq canon ceq]. revert l'. induction IH as [|x l Hx _ IHl]; intro l'; destruct l' as [|y l'];
    try reflexivity.
  cbn [list_eqb2 map]. rewrite Hx, IHl. reflexivity.
Qed.

Lemma veq_prev_canon c c' p p' :
  canon c = canon c' -> option_map canon p = option_map canon p' ->
  veq_prev Fx c p = veq_prev Fx c' p'.
Proof.
  intros Hc Hp. destruct p as [p|], p' as [p'|]; simpl in *; try discriminate; [|reflexivity].
  inversion Hp. rewrite !veq_ceq. congruence.
Qed.

Lemma rep_kind_canon c c' : canon c = canon c' -> rep_kind c = rep_kind c'.
Proof. destruct c, c'; simpl; intro H; try reflexivity; discriminate. Qed.

Lemma dup_p_canon v : forall w, canon v = canon w -> dup_p Fx v = dup_p Fx w.
Proof.
  induction v as [a|l IH] using view_ind2; intros w H; destruct w as [b|l']; try discriminate;
    [reflexivity|].
  cbn [canon] in H. inversion H as [Hm]. clear H. cbn [dup_p].
  assert (Hgen : forall prev prev', option_map canon prev = option_map canon prev' ->
             dup_loop_p Fx prev (map (fun c => (c, dup_p Fx c)) l)
             = dup_loop_p Fx prev' (map (fun c => (c, dup_p Fx c)) l')).
  { revert l' Hm. induction IH as [|x l Hx _ IHl]; intros l' Hm prev prev' Hp;
      destruct l' as [|y l']; try discriminate; [reflexivity|].
    cbn [map] in Hm. inversion Hm as [[Hxy Hm']]. cbn [map dup_loop_p].
    rewrite (veq_prev_canon x y prev prev' Hxy Hp), (rep_kind_canon _ _ Hxy), (Hx y Hxy).
    f_equal. f_equal. apply IHl; [exact Hm'|]. simpl. congruence. }
  apply Hgen. reflexivity.
Qed.

Definition dup_issues_p (m : mode) (top : list tree) : list kind := dup_p m (VL (sorted_view m top)).

(* THEOREM (the code as it is): the reported repeats do not depend on the order
   of siblings at any level *)
Lemma dup_perm_fixed top top' :
  PermForest top top' -> forallb wft top = true -> dup_issues_p Fx top = dup_issues_p Fx top'.
Proof.
  intros Hp Hw. unfold dup_issues_p. apply dup_p_canon. cbn [canon]. f_equal.
  apply sorted_view_perm; assumption.
Qed.

Lemma noempty_perm_mut :
  (forall t t', PermTree t t' -> noempty_t t = noempty_t t') /\
  (forall l l', PermForest l l' -> forallb noempty_t l = forallb noempty_t l' /\ null l = null l').
Proof.
  apply PermTF_mind.
  - reflexivity.
  - intros l l' _ [IH1 IH2]. cbn [noempty_t]. rewrite IH1, IH2. reflexivity.
  - auto.
  - intros t t' l l' _ IHt _ [IHl _]. cbn [forallb]. rewrite IHt, IHl. auto.
  - intros a b l. cbn [forallb]. split; [|reflexivity].
    rewrite !andb_assoc. f_equal. apply andb_comm.
  - intros l1 l2 l3 _ [IH1 IH1'] _ [IH2 IH2']. split; congruence.
Qed.

Lemma check_dup_perm_fixed top top' :
  PermForest top top' -> forallb wft top = true ->
  exists iss, check_for_duplicate_groups Fx top = Ok iss /\
              check_for_duplicate_groups Fx top' = Ok iss.
Proof.
  intros Hp Hw. exists (dup_issues_p Fx top). split.
  - apply check_dup_total. reflexivity.
  - rewrite (dup_perm_fixed _ _ Hp Hw). apply check_dup_total. reflexivity.
Qed.

(* ---- spelling: the check only looks at folded short forms ---- *)

Definition strip_tag (a : tag) : tag :=
  mkTag [] (t_shortf a) [] (t_tg a) (t_tl a) (t_base a) (t_basef a) (t_uniq a) (t_req a) (t_def a).
Fixpoint strip (t : tree) : tree :=
  match t with T a => T (strip_tag a) | G l => G (map strip l) end.
(* two annotations are respellings of each other when they agree after
   forgetting the spelling (short_tag and original text); what is left is
   the folded short form and the attributes of the resolved schema node *)
Definition Respell (top top' : list tree) : Prop := map strip top = map strip top'.

Lemma wft_strip t : wft (strip t) = wft t.
Proof.
  induction t as [a|l IH] using tree_ind2; [reflexivity|]. cbn [strip wft].
  induction IH as [|x l Hx _ IHl]; [reflexivity|]. cbn [map forallb]. rewrite Hx, IHl. reflexivity.
Qed.

Lemma forallb_wft_strip l : forallb wft (map strip l) = forallb wft l.
Proof. induction l as [|x l IH]; [reflexivity|]. cbn [map forallb]. rewrite wft_strip, IH. reflexivity. Qed.

Lemma csv_strip t : wft t = true -> csv (strip t) = csv t.
Proof.
  induction t as [a|l IH] using tree_ind2; intro H; [reflexivity|].
  cbn [strip]. cbn [wft] in H. rewrite !csv_G by (rewrite ?forallb_wft_strip; exact H).
  do 2 f_equal. rewrite map_map. rewrite forallb_forall in H.
  apply map_ext_in. intros c Hc. rewrite Forall_forall in IH. apply IH; auto.
Qed.

Lemma map_csv_strip l : forallb wft l = true -> map csv (map strip l) = map csv l.
Proof.
  intro H. rewrite map_map. rewrite forallb_forall in H. apply map_ext_in. intros c Hc. apply csv_strip. auto.
Qed.

Lemma respell_wft top top' : Respell top top' -> forallb wft top = forallb wft top'.
Proof. intro H. rewrite <- (forallb_wft_strip top), <- (forallb_wft_strip top'), H. reflexivity. Qed.

Lemma dup_respell_fixed top top' :
  Respell top top' -> forallb wft top = true -> dup_issues_p Fx top = dup_issues_p Fx top'.
Proof.
  intros H Hw. assert (Hw' : forallb wft top' = true) by (rewrite <- (respell_wft _ _ H); exact Hw).
  unfold dup_issues_p. apply dup_p_canon. cbn [canon]. f_equal.
  rewrite !csv_sorted_view by assumption.
  rewrite <- (map_csv_strip top Hw), <- (map_csv_strip top' Hw'). rewrite H. reflexivity.
Qed.

(* ------------------------------------------------------------------ *)
(* completeness (the code as it is)                                    *)
(* ------------------------------------------------------------------ *)

Section Adj.
  Context {A : Type}.
  Fixpoint adj_eq_k (l : list (str * A)) : bool :=
    match l with
    | p :: (q :: _) as r => str_eqb (fst p) (fst q) || adj_eq_k r
    | _ => false
    end.

  Lemma adj_false_nodup (l : list (str * A)) :
    StronglySorted (fun p q => str_leb (fst p) (fst q) = true) l ->
    adj_eq_k l = false -> NoDup (map fst l).
  Proof.
    induction l as [|p l IH]; intros Hs Ha; [constructor|].
    inversion Hs as [|? ? Hs' Hall]; subst. destruct l as [|q l].
    - constructor; [intros []|constructor].
    - cbn [adj_eq_k] in Ha. apply orb_false_iff in Ha as [Hpq Ha].
      cbn [map]. constructor; [|apply IH; assumption].
      intro Hin. change (In (fst p) (map fst (q :: l))) in Hin. rewrite in_map_iff in Hin.
      destruct Hin as (x & Ex & Hx).
      assert (Hpq' : fst p = fst q).
      { apply str_leb_antisym.
        - inversion Hall; assumption.
        - rewrite <- Ex. destruct Hx as [Hx|Hx]; [subst x; apply str_leb_refl|].
          inversion Hs' as [|? ? _ Hall']; subst. rewrite Forall_forall in Hall'. auto. }
      rewrite Hpq', str_eqb_refl in Hpq. discriminate.
  Qed.

  Lemma adj_true_split (l : list (str * A)) :
    adj_eq_k l = true -> exists s1 p q s2, l = s1 ++ p :: q :: s2 /\ fst p = fst q.
  Proof.
    induction l as [|p l IH]; intro H; [discriminate|]. destruct l as [|q l]; [discriminate|].
    cbn [adj_eq_k] in H. apply orb_true_iff in H as [H|H].
    - exists [], p, q, l. split; [reflexivity|]. apply str_eqb_spec. exact H.
    - destruct (IH H) as (s1 & p' & q' & s2 & E & Ek). exists (p :: s1), p', q', s2.
      rewrite E. auto.
  Qed.
End Adj.

Lemma dup_loop_p_hit m pre v w post : veq m w v = true ->
  forall prev, In (rep_kind w) (dup_loop_p m prev (map (fun c => (c, dup_p m c)) (pre ++ v :: w :: post))).
Proof.
  intro H. induction pre as [|x pre IH]; intro prev.
  - cbn [app map dup_loop_p veq_prev]. rewrite H.
    apply in_or_app. right. apply in_or_app. right. left. reflexivity.
  - cbn [app map dup_loop_p]. apply in_or_app. right. apply in_or_app. right. apply IH.
Qed.

(* the list the second (canonical) sort works on, with its keys *)
Definition psF (top : list tree) : list (str * view) := map (fun c => (print c, sv Fx c)) top.
Definition keyedF (top : list tree) : list (str * (str * view)) :=
  map (fun p => (newkey Fx p, p)) (arrange_pairs oldkey (psF top)).
(* the same keys in the order of the annotation *)
Definition keyedK (top : list tree) : list (str * (str * view)) :=
  map (fun c => (ckey (csv c), (print c, sv Fx c))) top.

Lemma keyedF_perm top : Permutation (keyedF top) (keyedK top).
Proof.
  unfold keyedF, keyedK, psF.
  rewrite (Permutation_map _ (arrange_pairs_perm oldkey _)). rewrite map_map.
  assert (E : map (fun x : tree => (newkey Fx (print x, sv Fx x), (print x, sv Fx x))) top
              = map (fun c : tree => (ckey (csv c), (print c, sv Fx c))) top).
  { apply map_ext. intro c. unfold newkey. cbn [snd]. rewrite vkey_canon. reflexivity. }
  rewrite E. reflexivity.
Qed.

Lemma keyedF_inj top : forallb wft top = true ->
  forall p q, In p (keyedF top) -> In q (keyedF top) -> fst p = fst q ->
              canon (snd (snd p)) = canon (snd (snd q)).
Proof.
  intros Hw p q Hp Hq He.
  apply (Permutation_in _ (keyedF_perm top)) in Hp. apply (Permutation_in _ (keyedF_perm top)) in Hq.
  unfold keyedK in Hp, Hq. rewrite in_map_iff in Hp, Hq.
  destruct Hp as (a & Ea & Ha). destruct Hq as (b & Eb & Hb). subst p q. cbn [fst snd] in *.
  rewrite forallb_forall in Hw. fold (csv a). fold (csv b).
  apply ckey_inj; [apply wfc_csv; auto|apply wfc_csv; auto|exact He].
Qed.

Lemma sorted_part_hit top (f : str * (str * view) -> bool) :
  forallb wft top = true ->
  ~ NoDup (map fst (filter f (keyedF top))) ->
  exists pre v w post,
    map (fun q => snd (snd q)) (sort_k (filter f (keyedF top))) = pre ++ v :: w :: post
    /\ veq Fx w v = true /\ (exists q, f q = true /\ snd (snd q) = w).
Proof.
  intros Hw Hnd.
  destruct (adj_eq_k (sort_k (filter f (keyedF top)))) eqn:Ha.
  - destruct (adj_true_split _ Ha) as (s1 & p & q & s2 & E & Ek).
    exists (map (fun q => snd (snd q)) s1), (snd (snd p)), (snd (snd q)), (map (fun q => snd (snd q)) s2).
    assert (Hin : forall x, In x (sort_k (filter f (keyedF top))) -> In x (keyedF top) /\ f x = true).
    { intros x Hx. apply (Permutation_in _ (sort_k_perm _)) in Hx. apply filter_In in Hx. tauto. }
    assert (Hq : In q (sort_k (filter f (keyedF top)))) by (rewrite E; apply in_or_app; right; simpl; auto).
    assert (Hp : In p (sort_k (filter f (keyedF top)))) by (rewrite E; apply in_or_app; right; simpl; auto).
    split; [|split].
    + rewrite E, map_app. reflexivity.
    + rewrite veq_ceq.
      rewrite (keyedF_inj top Hw q p); [apply ceq_refl| | |congruence]; apply Hin; assumption.
    + exists q. split; [apply Hin; exact Hq|reflexivity].
  - exfalso. apply Hnd. apply (Permutation_NoDup (Permutation_map fst (sort_k_perm _))).
    apply adj_false_nodup; [apply sort_k_sorted|exact Ha].
Qed.

Definition kind_of_tree (a : tree) : kind :=
  match a with T _ => K_TAG_REPEATED | G _ => K_TAG_REPEATED_GROUP end.

(* one level: two members of a list that are equal up to recursive reordering
   and spelling are reported, with the kind that fits (tag / group) *)
Lemma dup_complete_level l1 a l2 b l3 :
  let top := l1 ++ a :: l2 ++ b :: l3 in
  forallb wft top = true -> csv a = csv b -> In (kind_of_tree a) (dup_issues_p Fx top).
Proof.
  intros top Hw Hab. unfold dup_issues_p, sorted_view, arrange. cbn [Fx mode_of m_canon].
  fold Fx. fold (psF top). unfold arrange_pairs at 1. fold (keyedF top).
  assert (Hcase : forall g : str * (str * view) -> bool,
             g (ckey (csv a), (print a, sv Fx a)) = true -> g (ckey (csv b), (print b, sv Fx b)) = true ->
             ~ NoDup (map fst (filter g (keyedF top)))).
  { intros g Ha Hb Hnd.
    apply (Permutation_NoDup (Permutation_map fst (perm_filter g _ _ (keyedF_perm top)))) in Hnd.
    unfold keyedK, top in Hnd.
    rewrite map_app in Hnd. cbn [map] in Hnd. rewrite map_app in Hnd. cbn [map] in Hnd.
    rewrite filter_app in Hnd. cbn [filter] in Hnd. rewrite Ha in Hnd.
    rewrite filter_app in Hnd. cbn [filter] in Hnd. rewrite Hb in Hnd.
    rewrite map_app in Hnd. cbn [map fst] in Hnd. apply NoDup_remove_2 in Hnd.
    apply Hnd. apply in_or_app. right. rewrite map_app. apply in_or_app. right.
    cbn [map fst]. left. rewrite Hab. reflexivity. }
  rewrite map_app, !map_map.
  set (f := fun q : str * (str * view) => is_vt (snd (snd q))).
  set (g := fun q : str * (str * view) => negb (is_vt (snd (snd q)))).
  destruct (is_vt (sv Fx a)) eqn:Hva.
  - assert (Hvb : is_vt (sv Fx b) = true).
    { rewrite is_vt_canon in *. fold (csv b). fold (csv a) in Hva. congruence. }
    destruct (sorted_part_hit top f Hw (Hcase f Hva Hvb)) as (pre & v & w & post & E & Hv & q & Hfq & Eq).
    assert (Hk : kind_of_tree a = rep_kind w).
    { destruct a; [|discriminate]. unfold f in Hfq. rewrite Eq in Hfq. destruct w; [reflexivity|discriminate]. }
    rewrite Hk. cbn [dup_p]. rewrite E. rewrite <- app_assoc. cbn [app].
    apply dup_loop_p_hit. exact Hv.
  - assert (Hvb : is_vt (sv Fx b) = false).
    { rewrite is_vt_canon in *. fold (csv b). fold (csv a) in Hva. congruence. }
    assert (Hga : g (ckey (csv a), (print a, sv Fx a)) = true) by (unfold g; cbn [snd]; rewrite Hva; reflexivity).
    assert (Hgb : g (ckey (csv b), (print b, sv Fx b)) = true) by (unfold g; cbn [snd]; rewrite Hvb; reflexivity).
    destruct (sorted_part_hit top g Hw (Hcase g Hga Hgb)) as (pre & v & w & post & E & Hv & q & Hgq & Eq).
    assert (Hk : kind_of_tree a = rep_kind w).
    { destruct a; [discriminate|]. unfold g in Hgq. rewrite Eq in Hgq. destruct w; [discriminate|reflexivity]. }
    rewrite Hk. cbn [dup_p]. rewrite E. rewrite app_assoc.
    apply dup_loop_p_hit. exact Hv.
Qed.

Lemma dup_complete_fixed l1 a l2 b l3 :
  let top := l1 ++ a :: l2 ++ b :: l3 in
  forallb wft top = true -> csv a = csv b -> dup_issues_p Fx top <> [].
Proof.
  intros top Hw Hab E. pose proof (dup_complete_level l1 a l2 b l3 Hw Hab) as H.
  fold top in H. rewrite E in H. destruct H.
Qed.

(* ... at ANY depth: what is found inside a group is part of what is found for the annotation *)
Fixpoint all_groups_t (t : tree) : list (list tree) :=
  match t with T _ => [] | G l => l :: flat_map all_groups_t l end.
(* the top level and every group below it *)
Definition all_levels (top : list tree) : list (list tree) := top :: flat_map all_groups_t top.

Lemma dup_p_sub_in m c vs k : In c vs -> In k (dup_p m c) -> In k (dup_p m (VL vs)).
Proof.
  intros Hc Hk. cbn [dup_p]. generalize (@None view) as prev.
  induction vs as [|x vs IH]; intro prev; [destruct Hc|].
  cbn [map dup_loop_p]. apply in_or_app. right. apply in_or_app.
  destruct Hc as [E|Hc]; [subst x; left; exact Hk|right; apply IH; exact Hc].
Qed.

Lemma sv_in_sorted_view top t : In t top -> In (sv Fx t) (sorted_view Fx top).
Proof.
  intro H. unfold sorted_view. apply (Permutation_in _ (Permutation_sym (arrange_perm Fx _))).
  rewrite map_map. cbn [snd]. apply in_map_iff. exists t. auto.
Qed.

Lemma sv_G l : sv Fx (G l) = VL (sorted_view Fx l).
Proof. reflexivity. Qed.

Lemma dup_in_sub t : forall g k, In g (all_groups_t t) ->
  In k (dup_p Fx (VL (sorted_view Fx g))) -> In k (dup_p Fx (sv Fx t)).
Proof.
  induction t as [a|l IH] using tree_ind2; intros g k Hg Hk; [destruct Hg|].
  cbn [all_groups_t] in Hg. destruct Hg as [E|Hg].
  - subst g. rewrite sv_G. exact Hk.
  - rewrite in_flat_map in Hg. destruct Hg as (c & Hc & Hgc).
    rewrite sv_G. apply (dup_p_sub_in Fx (sv Fx c)); [apply sv_in_sorted_view; exact Hc|].
    rewrite Forall_forall in IH. eapply IH; eauto.
Qed.

Lemma wft_levels top g : forallb wft top = true -> In g (all_levels top) -> forallb wft g = true.
Proof.
  intros Hw Hg. destruct Hg as [E|Hg]; [subst; exact Hw|].
  rewrite in_flat_map in Hg. destruct Hg as (t & Ht & Hg).
  rewrite forallb_forall in Hw. specialize (Hw t Ht). clear Ht. revert g Hg Hw.
  induction t as [a|l IH] using tree_ind2; intros g Hg Hw; [destruct Hg|].
  cbn [all_groups_t] in Hg. cbn [wft] in Hw. destruct Hg as [E|Hg]; [subst; exact Hw|].
  rewrite in_flat_map in Hg. destruct Hg as (c & Hc & Hgc).
  rewrite Forall_forall in IH. apply (IH c Hc g Hgc). rewrite forallb_forall in Hw. auto.
Qed.

(* THEOREM (the code as it is): two members of the top level or of ANY group, at any
   depth, that are equal up to recursive reordering and spelling are reported -- as a
   repeated tag if they are tags, as a repeated group if they are groups *)
Lemma dup_complete_anywhere top g l1 a l2 b l3 :
  forallb wft top = true -> In g (all_levels top) -> g = l1 ++ a :: l2 ++ b :: l3 ->
  csv a = csv b -> In (kind_of_tree a) (dup_issues_p Fx top).
Proof.
  intros Hw Hg Eg Hab.
  assert (Hwg : forallb wft g = true) by (eapply wft_levels; eauto).
  assert (Hk : In (kind_of_tree a) (dup_issues_p Fx g)).
  { subst g. apply dup_complete_level; assumption. }
  destruct Hg as [E|Hg]; [subst; exact Hk|].
  rewrite in_flat_map in Hg. destruct Hg as (t & Ht & Hgt).
  unfold dup_issues_p. apply (dup_p_sub_in Fx (sv Fx t)); [apply sv_in_sorted_view; exact Ht|].
  eapply dup_in_sub; eauto.
Qed.

(* siblings related by reordering have equal canonical forms *)
Lemma csv_perm t t' : PermTree t t' -> wft t = true -> csv t = csv t'.
Proof. intros Hp Hw. exact (proj2 (proj1 csv_perm_mut t t' Hp Hw)). Qed.

(* ------------------------------------------------------------------ *)
(* RECORD of repaired defects: behaviour before fix commits 7597eca /  *)
(* 2492808 / 3e47c8c (mode Orig), refuted by concrete witnesses        *)
(* ------------------------------------------------------------------ *)

Definition Orig : mode := mode_of false.
(* tag equality folded and groups ordered by the text of their sorted form,
   but tags still ordered by the case-sensitive str(tag) *)
Definition Half : mode := mkMode true false true true.

Definition s (x : list nat) : str := map N.of_nat x.
(* a plain tag whose original text is its short form (values are lower-case here) *)
Definition tg (short : str) (shortf : str) (orgf : str) : tree :=
  T (mkTag short shortf orgf false false 0 0 [] [] 0).
Definition Red := tg (s [82;101;100]) (s [114;101;100]) (s [114;101;100]).
Definition Blue := tg (s [66;108;117;101]) (s [98;108;117;101]) (s [98;108;117;101]).
Definition Green := tg (s [71;114;101;101;110]) (s [103;114;101;101;110]) (s [103;114;101;101;110]).

(* (Red,Blue),(Green),(Blue,Red)  versus  (Red,Blue),(Green),(Red,Blue)
   (members of the last group reordered) *)
Definition w_order_1 : list tree := [G [Red; Blue]; G [Green]; G [Blue; Red]].
Definition w_order_2 : list tree := [G [Red; Blue]; G [Green]; G [Red; Blue]].

Lemma dup_invariant_refuted_order :
  PermForest w_order_1 w_order_2 /\ forallb wft w_order_1 = true /\
  check_for_duplicate_groups Orig w_order_1 = Ok [] /\
  check_for_duplicate_groups Orig w_order_2 = Ok [K_TAG_REPEATED_GROUP].
Proof.
  split; [|vm_compute; auto].
  unfold w_order_1, w_order_2.
  apply PF_skip; [apply PT_refl|]. apply PF_skip; [apply PT_refl|].
  apply PF_skip; [|apply PF_nil]. apply PT_group. apply PF_swap.
Qed.

(* Label/abc, Property/Informational-property/Label/ABC   versus   Label/abc, Label/ABC *)
Definition lab_abc : str := s [76;97;98;101;108;47;97;98;99].
Definition lab_ABC : str := s [76;97;98;101;108;47;65;66;67].
Definition lab_f : str := s [108;97;98;101;108;47;97;98;99].
Definition long_f : str :=
  s [112;114;111;112;101;114;116;121;47;105;110;102;111;114;109;97;116;105;111;110;97;108;45;
     112;114;111;112;101;114;116;121;47;108;97;98;101;108;47;97;98;99].
Definition w_spell_1 : list tree := [tg lab_abc lab_f lab_f; tg lab_ABC lab_f long_f].
Definition w_spell_2 : list tree := [tg lab_abc lab_f lab_f; tg lab_ABC lab_f lab_f].

Lemma dup_invariant_refuted_spelling :
  Respell w_spell_1 w_spell_2 /\
  check_for_duplicate_groups Orig w_spell_1 = Ok [] /\
  check_for_duplicate_groups Orig w_spell_2 = Ok [K_TAG_REPEATED].
Proof. vm_compute. auto. Qed.

(* the number of reports (not only the verdict) depends on sibling order:
   b = Informational-property/Label/ABC, a = Label/ABC, c = Label/abc *)
Definition ipl_f : str :=
  s [105;110;102;111;114;109;97;116;105;111;110;97;108;45;112;114;111;112;101;114;116;121;47;
     108;97;98;101;108;47;97;98;99].
Definition w_count_1 : list tree :=
  [tg lab_ABC lab_f lab_f; tg lab_ABC lab_f ipl_f; tg lab_abc lab_f lab_f].
Definition w_count_2 : list tree :=
  [tg lab_ABC lab_f ipl_f; tg lab_ABC lab_f lab_f; tg lab_abc lab_f lab_f].

Lemma dup_count_refuted_order :
  PermForest w_count_1 w_count_2 /\
  check_for_duplicate_groups Orig w_count_1 = Ok [K_TAG_REPEATED] /\
  check_for_duplicate_groups Orig w_count_2 = Ok [K_TAG_REPEATED; K_TAG_REPEATED].
Proof.
  split; [|vm_compute; auto]. unfold w_count_1, w_count_2. apply PF_swap.
Qed.

(* folding the equality and canonicalising the group key is NOT enough while
   tags are ordered by the case-sensitive text: "_" sorts between "B" and "b".
   Label/aB, Label/a_, Label/ab   versus   Label/a_, Label/aB, Label/ab *)
Definition l_aB := tg (s [76;97;98;101;108;47;97;66]) (s [108;97;98;101;108;47;97;98]) (s [108;97;98;101;108;47;97;98]).
Definition l_au := tg (s [76;97;98;101;108;47;97;95]) (s [108;97;98;101;108;47;97;95]) (s [108;97;98;101;108;47;97;95]).
Definition l_ab := tg (s [76;97;98;101;108;47;97;98]) (s [108;97;98;101;108;47;97;98]) (s [108;97;98;101;108;47;97;98]).
Definition w_half_1 : list tree := [l_aB; l_au; l_ab].
Definition w_half_2 : list tree := [l_au; l_aB; l_ab].

Lemma dup_invariant_refuted_half_fix :
  check_for_duplicate_groups Half w_half_1 = Ok [] /\
  check_for_duplicate_groups Orig w_half_1 = Ok [] /\
  check_for_duplicate_groups Half [l_aB; l_ab] = Ok [K_TAG_REPEATED] /\
  check_for_duplicate_groups Fx w_half_1 = Ok [K_TAG_REPEATED] /\
  check_for_duplicate_groups Fx w_half_2 = Ok [K_TAG_REPEATED].
Proof. vm_compute. auto. Qed.

(* the check raises on a repeated group that starts with an empty group *)
Lemma dup_raises_on_empty_group :
  check_for_duplicate_groups Orig [G []; G []] = Exn IndexError.
Proof. reflexivity. Qed.

(* non-vacuity: hypotheses of the positive theorems are met by a depth-3 case *)
Definition ex_nested : list tree := [G [G [Red; Blue]; Green]; Red; G [Green; G [Blue; Red]]].
Definition ex_nested' : list tree := [G [G [Blue; Red]; Green]; G [G [Red; Blue]; Green]; Red].
Lemma ex_nested_ok :
  forallb wft ex_nested = true /\ forallb noempty_t ex_nested = true /\
  PermForest ex_nested ex_nested' /\
  check_for_duplicate_groups Fx ex_nested = Ok [K_TAG_REPEATED_GROUP] /\
  check_for_duplicate_groups Fx ex_nested' = Ok [K_TAG_REPEATED_GROUP].
Proof.
  repeat split; try (vm_compute; reflexivity).
  unfold ex_nested, ex_nested'.
  (* [X; Red; Y] ~> [Y'; X; Red] with X=((Red,Blue),Green), Y=(Green,(Blue,Red)) *)
  eapply PF_trans; [apply PF_skip; [apply PT_refl|apply PF_swap]|].
  eapply PF_trans; [apply PF_swap|].
  apply PF_skip; [|apply PermForest_refl].
  apply PT_group. apply PF_swap.
Qed.

(* since fix commit 3e47c8c: repeated groups that hold nothing but empty groups are reported
   '(),()'   '(()),(())'   '((),(Red)),((Red),())' *)
Lemma dup_total_on_empty_groups :
  check_for_duplicate_groups Fx [G []; G []] = Ok [K_TAG_REPEATED_GROUP] /\
  check_for_duplicate_groups Fx [G [G []]; G [G []]] = Ok [K_TAG_REPEATED_GROUP] /\
  check_for_duplicate_groups Fx [G [G []; G [Red]]; G [G [Red]; G []]] = Ok [K_TAG_REPEATED_GROUP].
Proof. vm_compute. auto. Qed.

(* a repeat two levels down: Green,((Red,Blue),Azure-like filler,(Blue,Red)) *)
Definition ex_deep : list tree := [Green; G [Green; G [G [Red; Blue]; Green; G [Blue; Red]]]].
Lemma ex_deep_ok :
  forallb wft ex_deep = true /\
  In [G [Red; Blue]; Green; G [Blue; Red]] (all_levels ex_deep) /\
  check_for_duplicate_groups Fx ex_deep = Ok [K_TAG_REPEATED_GROUP].
Proof. vm_compute. repeat split; auto. Qed.
