(* C08 -- declarative characterisation of the reference scanner find_refs
   (the model of re.findall(r"\{([a-z_\-0-9]+)\}", s, re.IGNORECASE)). *)
From Coq Require Import List NArith Arith Bool Lia.
From HV Require Import Base.Res Base.Str Gen.SidecarCodes Model.Sidecar.
Import ListNotations.

(* m occurs in s as a curly-brace reference: '{', a non-empty run of
   reference characters, '}' *)
Definition ref_occurs (s m : str) : Prop :=
  exists pre post, s = pre ++ ch_lbrace :: m ++ ch_rbrace :: post /\
                   m <> [] /\ forallb is_ref_char m = true.

Lemma ref_char_not_lbrace c : is_ref_char c = true -> N.eqb c ch_lbrace = false.
Proof.
  intros H. destruct (N.eqb c ch_lbrace) eqn:E; [|reflexivity]. apply N.eqb_eq in E. subst c.
  vm_compute in H. discriminate.
Qed.

Lemma rbrace_facts : N.eqb ch_rbrace ch_lbrace = false /\ is_ref_char ch_rbrace = false.
Proof. split; reflexivity. Qed.

Lemma ref_occurs_cons c t m : ref_occurs t m -> ref_occurs (c :: t) m.
Proof.
  intros [pre [post [E [Hn Hf]]]]. exists (c :: pre), post. subst t. repeat split; assumption.
Qed.

(* scanner state: Some acc = a '{' was read, followed by the reference characters rev acc *)
Definition pending (s : str) (st : option str) (m : str) : Prop :=
  match st with
  | Some acc => exists r post, s = r ++ ch_rbrace :: post /\ forallb is_ref_char r = true /\
                               m = rev acc ++ r /\ m <> []
  | None => False
  end.

Definition st_ok (st : option str) : Prop :=
  match st with Some acc => forallb is_ref_char acc = true | None => True end.

Lemma find_refs_aux_sound s : forall st m, st_ok st ->
  In m (find_refs_aux s st) -> ref_occurs s m \/ (pending s st m /\ forallb is_ref_char m = true).
Proof.
  induction s as [|c t IH]; intros st m Hst Hin; cbn [find_refs_aux] in Hin; [contradiction|].
  destruct (N.eqb c ch_lbrace) eqn:Elb.
  - apply N.eqb_eq in Elb. subst c.
    destruct (IH (Some []) m eq_refl Hin) as [Ho|[[r [post [E [Hr [Hm Hn]]]]] Hf]].
    + left. apply ref_occurs_cons. exact Ho.
    + left. cbn [rev app] in Hm. subst m t. exists [], post. repeat split; assumption.
  - destruct st as [acc|].
    + cbn [st_ok] in Hst. destruct (is_ref_char c) eqn:Erc.
      * assert (Hst' : st_ok (Some (c :: acc))) by (cbn; rewrite Erc, Hst; reflexivity).
        destruct (IH (Some (c :: acc)) m Hst' Hin) as [Ho|[[r [post [E [Hr [Hm Hn]]]]] Hf]].
        -- left. apply ref_occurs_cons. exact Ho.
        -- right. split; [|exact Hf]. exists (c :: r), post. subst t. cbn [rev] in Hm. rewrite <- app_assoc in Hm.
           repeat split; try assumption. cbn. rewrite Erc, Hr. reflexivity.
      * destruct (N.eqb c ch_rbrace) eqn:Erb.
        -- apply N.eqb_eq in Erb. subst c. destruct acc as [|a acc'].
           ++ destruct (IH None m I Hin) as [Ho|[[] _]]. left. apply ref_occurs_cons. exact Ho.
           ++ destruct Hin as [Hm|Hin].
              ** right. subst m. split.
                 --- exists [], t. rewrite app_nil_r. repeat split; try reflexivity.
                     intros E. apply (f_equal (@length N)) in E. rewrite rev_length in E. discriminate.
                 --- rewrite forallb_forall. intros x Hx. apply in_rev in Hx.
                     rewrite forallb_forall in Hst. apply Hst. exact Hx.
              ** destruct (IH None m I Hin) as [Ho|[[] _]]. left. apply ref_occurs_cons. exact Ho.
        -- destruct (IH None m I Hin) as [Ho|[[] _]]. left. apply ref_occurs_cons. exact Ho.
    + destruct (IH None m I Hin) as [Ho|[[] _]]. left. apply ref_occurs_cons. exact Ho.
Qed.

Lemma find_refs_aux_tail s c st m :
  st_ok st -> (forall st', st_ok st' -> In m (find_refs_aux s st')) -> In m (find_refs_aux (c :: s) st).
Proof.
  intros Hst H. cbn [find_refs_aux]. destruct (N.eqb c ch_lbrace); [apply H; reflexivity|].
  destruct st as [acc|]; [|apply H; exact I]. cbn [st_ok] in Hst.
  destruct (is_ref_char c) eqn:Erc; [apply H; cbn; rewrite Erc, Hst; reflexivity|].
  destruct (N.eqb c ch_rbrace); [|apply H; exact I].
  destruct acc; [apply H; exact I | right; apply H; exact I].
Qed.

Lemma find_refs_aux_pending s : forall acc m,
  forallb is_ref_char acc = true -> pending s (Some acc) m -> In m (find_refs_aux s (Some acc)).
Proof.
  induction s as [|c t IH]; intros acc m Hacc [r [post [E [Hr [Hm Hn]]]]].
  - destruct r; discriminate.
  - destruct r as [|x r'].
    + cbn [app] in E. inversion E; subst c t. rewrite app_nil_r in Hm. subst m.
      cbn [find_refs_aux]. destruct rbrace_facts as [E1 E2]. rewrite E1, E2, N.eqb_refl.
      destruct acc; [exfalso; apply Hn; reflexivity | left; reflexivity].
    + cbn [app] in E. inversion E; subst x t. cbn [forallb] in Hr. apply andb_true_iff in Hr as [Hc Hr].
      cbn [find_refs_aux]. rewrite (ref_char_not_lbrace c Hc), Hc.
      apply IH; [cbn; rewrite Hc, Hacc; reflexivity|].
      exists r', post. repeat split; try assumption. cbn [rev]. rewrite <- app_assoc. exact Hm.
Qed.

Lemma find_refs_aux_complete s : forall st m, st_ok st -> ref_occurs s m -> In m (find_refs_aux s st).
Proof.
  induction s as [|c t IH]; intros st m Hst [pre [post [E [Hn Hf]]]].
  - destruct pre; discriminate.
  - destruct pre as [|p pre'].
    + cbn [app] in E. inversion E; subst c t. cbn [find_refs_aux]. rewrite N.eqb_refl.
      apply find_refs_aux_pending; [reflexivity|]. exists m, post. repeat split; assumption.
    + cbn [app] in E. inversion E; subst p t. apply find_refs_aux_tail; [exact Hst|].
      intros st' Hst'. apply IH; [exact Hst'|]. exists pre', post. repeat split; assumption.
Qed.

(* find_refs s is exactly the set of curly-brace references occurring in s *)
Theorem find_refs_spec s m : In m (find_refs s) <-> ref_occurs s m.
Proof.
  unfold find_refs. split.
  - intros H. destruct (find_refs_aux_sound s None m I H) as [Ho|[[] _]]. exact Ho.
  - apply find_refs_aux_complete. exact I.
Qed.

(* declarative readings of the two type-detection predicates that occur in the
   hypotheses of the fault theorems *)
Lemma is_hed_column_spec v :
  is_hed_column v = true <-> exists kvs, v = JObj kvs /\ has_key s_HED kvs = true.
Proof.
  unfold is_hed_column, has_key. split.
  - destruct v; try discriminate. unfold detect_column_type.
    destruct (negb (truthy (JObj kvs))); [discriminate|].
    destruct (lookup s_HED kvs) as [h|] eqn:El; [|discriminate]. intros _. exists kvs. rewrite El. split; reflexivity.
  - intros [kvs [-> H]]. unfold detect_column_type. destruct (lookup s_HED kvs) as [h|] eqn:El; [|discriminate].
    destruct kvs; [discriminate|]. cbn [truthy negb].
    destruct h; try reflexivity.
    + destruct (true && negb (has_hash s)); reflexivity.
    + destruct (true && negb (forallb is_str (map snd kvs0))); reflexivity.
Qed.

Lemma hed_bearing_spec v :
  hed_bearing v = true <->
  exists kvs, v = JObj kvs /\
    ((exists s, lookup s_HED kvs = Some (JStr s) /\ has_hash s = true) \/
     (exists hv, lookup s_HED kvs = Some (JObj hv) /\ forallb is_str (map snd hv) = true)).
Proof.
  unfold hed_bearing. split.
  - destruct v; try discriminate. unfold detect_column_type.
    destruct (negb (truthy (JObj kvs))); [discriminate|].
    destruct (lookup s_HED kvs) as [h|] eqn:El; [|discriminate]. destruct h; try discriminate.
    + destruct (has_hash s) eqn:Eh; [|discriminate]. intros _. exists kvs. split; [reflexivity|]. left. exists s. split; [exact El|exact Eh].
    + destruct (forallb is_str (map snd kvs0)) eqn:Ef; [|discriminate]. intros _. exists kvs. split; [reflexivity|].
      right. exists kvs0. split; [exact El | exact Ef].
  - intros [kvs [-> [[s [El Eh]]|[hv [El Ef]]]]]; unfold detect_column_type; rewrite El;
      (destruct kvs; [discriminate|]); cbn [truthy negb]; [rewrite Eh | rewrite Ef]; reflexivity.
Qed.
