(* C14 -- kernel evaluation of the model on the translated bundled schema testlib_2_1_0 (Gen/Schema_testlib_2_1_0_c14.v).
   The environment names exactly the previous versions HedIDValidator.__init__ asks load_schema_version for;
   a missing one would make the evaluation raise HedFileError and this file fail.  One evaluation only:
   the warnings-off half follows from check_compliance_off. *)
From Coq Require Import List NArith ZArith String.
From HV Require Import Base.Res Base.Str Base.C14Base Gen.ComplianceTables Model.Compliance
     Proofs.ComplianceProofs Proofs.C14ExCommon Gen.C14_Env.
From HV Require Gen.Schema_testlib_2_1_0_c14 Gen.Schema_testlib_2_0_0_c14 Gen.Schema_8_1_0_c14.
Import ListNotations.
Local Open Scope string_scope.

Definition env_testlib_2_1_0 : env := bundled_env [(s2str "testlib_2.0.0", Schema_testlib_2_0_0_c14.schema); (s2str "8.1.0", Schema_8_1_0_c14.schema)].

Lemma errors_testlib_2_1_0 : errors_of (check_compliance fixed_all env_testlib_2_1_0 true Schema_testlib_2_1_0_c14.schema) = Ok [].
Proof. vm_cast_no_check (@eq_refl (res (list issue)) (Ok [])). Qed.

Lemma compliant_testlib_2_1_0 : no_error env_testlib_2_1_0 Schema_testlib_2_1_0_c14.schema.
Proof. apply no_error_of_errors. exact errors_testlib_2_1_0. Qed.
