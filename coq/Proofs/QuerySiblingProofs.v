(* Proofs about Model/Query.v (property C15), current code (fx = true, fix commit 81fa420):
   the match verdict of EVERY expression is unchanged by reordering siblings
   at any level of the annotation. *)
From Coq Require Import List NArith Arith Bool Lia Permutation Relations.
From HV Require Import Base.Res Base.Str Model.Query Proofs.QueryProofs.
Import ListNotations.

(* ---------------------------------------------------------------- relating two annotations by identity *)

(* what a query can see of a child: identity, and the tag data *)
Definition key (n : node) : nat * option (list str * str * str) :=
  match n with
  | Tag i t s o => (i, Some (t, s, o))
  | Group i _ => (i, None)
  end.

Lemma key_nid n n' : key n = key n' -> nid n = nid n'.
Proof. destruct n, n'; simpl; intro H; inversion H; reflexivity. Qed.

Lemma key_is_tag n n' : key n = key n' -> is_tag n = is_tag n'.
Proof. destruct n, n'; simpl; intro H; inversion H; reflexivity. Qed.

Lemma key_tag n n' : key n = key n' -> is_tag n = true -> n' = n.
Proof. destruct n, n'; simpl; intros H Ht; try discriminate; inversion H; reflexivity. Qed.

(* same group object: same identity, same children up to order *)
Definition nrel (n n' : node) : Prop :=
  nid n = nid n' /\ Permutation (map key (children n)) (map key (children n')).

Definition crel (c c' : chain) : Prop := Forall2 nrel c c'.

Definition rel (r r' : sres) : Prop :=
  crel (sr_chain r) (sr_chain r') /\ Permutation (map nid (sr_tags r)) (map nid (sr_tags r')).

Definition half (R R' : list sres) : Prop := forall r, In r R -> exists r', In r' R' /\ rel r r'.

Lemma nrel_children_nil n n' : nrel n n' -> (children n = [] <-> children n' = []).
Proof.
  intros [_ Hp]. apply Permutation_length in Hp. rewrite !map_length in Hp.
  destruct (children n), (children n'); simpl in Hp; split; intro H; try reflexivity; try discriminate.
Qed.

Lemma nrel_length n n' : nrel n n' -> length (children n) = length (children n').
Proof. intros [_ Hp]. apply Permutation_length in Hp. rewrite !map_length in Hp. exact Hp. Qed.

Lemma nrel_child n n' x : nrel n n' -> In x (children n) -> exists x', In x' (children n') /\ key x' = key x.
Proof.
  intros [_ Hp] Hx.
  assert (Hk : In (key x) (map key (children n'))).
  { apply Permutation_in with (map key (children n)); [exact Hp | apply in_map; exact Hx]. }
  apply in_map_iff in Hk. destruct Hk as (x' & Hk & Hx'). exists x'. auto.
Qed.

Lemma crel_gid c c' : crel c c' -> chain_gid c = chain_gid c'.
Proof. intro H. destruct H as [|g g' r r' [Hg _] _]; [reflexivity | exact Hg]. Qed.

Lemma rel_gid r r' : rel r r' -> gid r = gid r'.
Proof. intros [H _]. unfold gid. apply crel_gid. exact H. Qed.

Lemma perm_ids_has (l l' : list node) k :
  Permutation (map nid l) (map nid l') -> (exists x, In x l /\ nid x = k) -> exists x, In x l' /\ nid x = k.
Proof.
  intros Hp (x & Hx & Hk).
  assert (Hin : In k (map nid l')).
  { apply Permutation_in with (map nid l); [exact Hp | subst k; apply in_map; exact Hx]. }
  apply in_map_iff in Hin. destruct Hin as (y & Hy & Hiy). exists y; auto.
Qed.

Lemma overlap_perm a a' b b' :
  Permutation (map nid a) (map nid a') -> Permutation (map nid b) (map nid b') ->
  overlap a b = overlap a' b'.
Proof.
  intros Ha Hb. apply eq_true_iff_eq. rewrite !overlap_spec. split.
  - intros (x & y & Hx & Hy & He).
    destruct (perm_ids_has a a' (nid x) Ha (ex_intro _ x (conj Hx eq_refl))) as (x' & Hx' & Ex).
    destruct (perm_ids_has b b' (nid y) Hb (ex_intro _ y (conj Hy eq_refl))) as (y' & Hy' & Ey).
    exists x', y'. split; [exact Hx' | split; [exact Hy' | congruence]].
  - intros (x & y & Hx & Hy & He).
    destruct (perm_ids_has a' a (nid x) (Permutation_sym Ha) (ex_intro _ x (conj Hx eq_refl))) as (x' & Hx' & Ex).
    destruct (perm_ids_has b' b (nid y) (Permutation_sym Hb) (ex_intro _ y (conj Hy eq_refl))) as (y' & Hy' & Ey).
    exists x', y'. split; [exact Hx' | split; [exact Hy' | congruence]].
Qed.

Lemma compat_rel r r' o o' : rel r r' -> rel o o' -> compat r o = compat r' o'.
Proof.
  intros Hr Ho. unfold compat.
  rewrite (rel_gid _ _ Hr), (rel_gid _ _ Ho), (overlap_perm _ _ _ _ (proj2 Hr) (proj2 Ho)). reflexivity.
Qed.

(* ---------------------------------------------------------------- tags through groups *)

Lemma tags_ctx_char n : forall c0 t c,
  In (t, c) (tags_ctx c0 n) <->
  (n = t /\ is_tag t = true /\ c = c0) \/
  (In c (groups_ctx c0 n) /\ In t (chain_children c) /\ is_tag t = true).
Proof.
  induction n as [i terms s o | i ch IH] using node_ind'; intros c0 t c.
  - simpl. split.
    + intros [H | []]. inversion H; subst. left. auto.
    + intros [(H1 & H2 & H3) | ([] & _)]. subst. left; reflexivity.
  - rewrite Forall_forall in IH. cbn [tags_ctx groups_ctx]. rewrite in_flat_map. split.
    + intros (x & Hx & Hin). apply (IH x Hx) in Hin. right.
      destruct Hin as [(H1 & H2 & H3) | (H1 & H2 & H3)].
      * subst. split; [left; reflexivity | split; [exact Hx | exact H2]].
      * split; [right; apply in_flat_map; exists x; auto | auto].
    + intros [(H1 & H2 & _) | (H1 & H2 & H3)]; [subst t; discriminate|].
      destruct H1 as [H1 | H1].
      * subst c. simpl in H2. exists t. split; [exact H2|].
        apply (IH t H2). left. auto.
      * apply in_flat_map in H1. destruct H1 as (x & Hx & H1). exists x. split; [exact Hx|].
        apply (IH x Hx). right. auto.
Qed.

Lemma all_tags_char i ch t c :
  In (t, c) (all_tags (Group i ch)) <->
  In c (all_groups (Group i ch)) /\ In t (chain_children c) /\ is_tag t = true.
Proof.
  unfold all_tags, all_groups. rewrite tags_ctx_char. split.
  - intros [(H & Ht & _) | H]; [subst t; discriminate | exact H].
  - intro H. right. exact H.
Qed.

(* ---------------------------------------------------------------- the base relation between two annotations *)

Definition uniq (root : node) : Prop := NoDup (map chain_gid (all_groups root)).

Definition groups_into (a b : node) : Prop :=
  forall c, In c (all_groups a) -> exists c', In c' (all_groups b) /\ crel c c'.

Record base (a b : node) : Prop := {
  b_ab : groups_into a b;
  b_ba : groups_into b a;
  b_ua : uniq a;
  b_ub : uniq b;
  b_ga : is_tag a = false;
  b_gb : is_tag b = false
}.

Lemma base_sym a b : base a b -> base b a.
Proof. intros [H1 H2 H3 H4 H5 H6]. constructor; assumption. Qed.

Lemma NoDup_map_inj {A B} (f : A -> B) l x y :
  NoDup (map f l) -> In x l -> In y l -> f x = f y -> x = y.
Proof.
  induction l as [|z l IH]; intros Hnd Hx Hy He; [destruct Hx|].
  simpl in Hnd. inversion Hnd as [|? ? Hni Hnd']; subst.
  destruct Hx as [Hx | Hx]; destruct Hy as [Hy | Hy]; subst.
  - reflexivity.
  - exfalso. apply Hni. rewrite He. apply in_map. exact Hy.
  - exfalso. apply Hni. rewrite <- He. apply in_map. exact Hx.
  - apply IH; assumption.
Qed.

Lemma uniq_chain root c1 c2 :
  uniq root -> valid root c1 -> valid root c2 -> chain_gid c1 = chain_gid c2 -> c1 = c2.
Proof. intros Hu H1 H2 He. apply (NoDup_map_inj chain_gid (all_groups root)); assumption. Qed.

Lemma found_into a b (P : node -> bool) t c :
  base a b -> In (t, c) (all_tags a) -> exists c', In (t, c') (all_tags b) /\ crel c c'.
Proof.
  intros Hb Hin. destruct a as [|i ch]; [destruct Hb; discriminate|].
  destruct b as [|j ch']; [destruct Hb; discriminate|].
  apply all_tags_char in Hin. destruct Hin as (Hc & Ht & Htag).
  destruct (b_ab _ _ Hb c Hc) as (c' & Hc' & Hcr).
  exists c'. split; [|exact Hcr].
  apply all_tags_char. split; [exact Hc'|]. split; [|exact Htag].
  destruct Hcr as [|g g' r r' Hn _]; [destruct Ht|]. simpl in Ht |- *.
  destruct (nrel_child g g' t Hn Ht) as (t' & Ht' & Hk).
  symmetry in Hk. rewrite <- (key_tag t t' Hk Htag). exact Ht'.
Qed.

(* ---------------------------------------------------------------- building blocks preserve the relation *)

Lemma climb_half : forall c c' tags tags',
  crel c c' -> Permutation (map nid tags) (map nid tags') -> half (climb tags c) (climb tags' c').
Proof.
  intros c c' tags tags' Hc. revert tags tags'.
  induction Hc as [|g g' rest rest' Hg Hrest IH]; intros tags tags' Hp r Hin; [destruct Hin|].
  simpl in Hin |- *.
  destruct (children g) eqn:Hch; [destruct Hin|].
  destruct (children g') eqn:Hch'.
  { exfalso. apply (nrel_children_nil g g' Hg) in Hch'. congruence. }
  destruct Hin as [Hin | Hin].
  - subst r. eexists. split; [left; reflexivity|].
    split; simpl; [constructor; assumption | exact Hp].
  - destruct (IH [g] [g']) with (r := r) as (r' & Hr' & Hrel); [|exact Hin|].
    + simpl. rewrite (proj1 Hg). apply Permutation_refl.
    + exists r'. split; [right; exact Hr' | exact Hrel].
Qed.

Lemma parent_half R R' : half R R' -> half (parent_groups R) (parent_groups R').
Proof.
  intros H r Hin. unfold parent_groups in Hin. apply in_flat_map in Hin. destruct Hin as (x & Hx & Hin).
  destruct (H x Hx) as (x' & Hx' & [Hc Ht]).
  destruct (sr_chain x) as [|g [|p rest]] eqn:Hcx; try destruct Hin.
  destruct (children p) eqn:Hp; [destruct Hin|]. destruct Hin as [Hin | []]. subst r.
  inversion Hc as [|? g' ? r1 Hg Hc1 E1 E2]; subst. inversion Hc1 as [|? p' ? rest' Hpp Hc2 E3 E4]; subst.
  destruct (children p') eqn:Hp'.
  { exfalso. apply (nrel_children_nil p p' Hpp) in Hp'. congruence. }
  exists {| sr_chain := p' :: rest'; sr_tags := [g'] |}. split.
  - unfold parent_groups. apply in_flat_map. exists x'. split; [exact Hx'|].
    rewrite <- E2. rewrite Hp'. left; reflexivity.
  - split; simpl; [exact Hc1 | rewrite (proj1 Hg); apply Permutation_refl].
Qed.

Lemma filter_exact_half R R' : half R R' -> half (filter_exact R) (filter_exact R').
Proof.
  intros H r Hin. unfold filter_exact in Hin. apply filter_In in Hin. destruct Hin as [Hin He].
  destruct (H r Hin) as (r' & Hr' & [Hc Ht]). exists r'. split; [|split; assumption].
  unfold filter_exact. apply filter_In. split; [exact Hr'|].
  apply Nat.eqb_eq in He. apply Nat.eqb_eq.
  apply Permutation_length in Ht. rewrite !map_length in Ht. rewrite <- Ht, <- He.
  destruct Hc as [|g g' ? ? Hg _]; [reflexivity|]. simpl. symmetry. apply nrel_length. exact Hg.
Qed.

Lemma sort_by_str_perm l : Permutation (sort_by_str l) l.
Proof.
  unfold sort_by_str.
  assert (Hi : forall x acc, Permutation (insert_by_str x acc) (x :: acc)).
  { intros x acc. induction acc as [|y acc IH]; simpl; [apply Permutation_refl|].
    destruct (str_ltb (node_str x) (node_str y)); [apply Permutation_refl|].
    apply Permutation_trans with (y :: x :: acc); [apply perm_skip; exact IH | apply perm_swap]. }
  assert (H : forall acc, Permutation (fold_left (fun acc x => insert_by_str x acc) l acc) (l ++ acc)).
  { induction l as [|x l IH]; intro acc; simpl; [apply Permutation_refl|].
    apply Permutation_trans with (l ++ insert_by_str x acc); [apply IH|].
    apply Permutation_trans with (l ++ x :: acc); [apply Permutation_app_head; apply Hi|].
    apply Permutation_sym. apply Permutation_middle. }
  specialize (H []). rewrite app_nil_r in H. exact H.
Qed.

(* the identities used by a merged result, as a multiset, when the parts are disjoint *)
Lemma merged_ids r o :
  overlap (sr_tags r) (sr_tags o) = false ->
  Permutation (map nid (sr_tags (merge_and_result r o))) (map nid (sr_tags r) ++ map nid (sr_tags o)).
Proof.
  intro Ho. simpl. rewrite <- map_app. apply Permutation_map.
  apply Permutation_trans with (sr_tags r ++ filter (fun t => negb (id_in t (sr_tags r))) (sr_tags o));
    [apply sort_by_str_perm|].
  apply Permutation_app_head.
  assert (Hall : forall t, In t (sr_tags o) -> negb (id_in t (sr_tags r)) = true).
  { intros t Ht. destruct (id_in t (sr_tags r)) eqn:Hi; [|reflexivity].
    exfalso. apply id_in_spec in Hi. destruct Hi as (y & Hy & He).
    assert (Hov : overlap (sr_tags r) (sr_tags o) = true) by (apply overlap_spec; exists y, t; auto).
    congruence. }
  clear Ho. induction (sr_tags o) as [|t l IH]; [apply Permutation_refl|].
  simpl. rewrite (Hall t (or_introl eq_refl)). apply perm_skip. apply IH.
  intros t' Ht'. apply Hall. right; exact Ht'.
Qed.

Lemma ids_eq_map a : forall b, ids_eq a b = true -> map nid a = map nid b.
Proof.
  induction a as [|x a IH]; intros [|y b] H; simpl in H; try discriminate; [reflexivity|].
  apply andb_true_iff in H. destruct H as [H1 H2]. apply Nat.eqb_eq in H1. simpl. rewrite H1, (IH b H2). reflexivity.
Qed.

Lemma merge_half b RA RA' RB RB' :
  uniq b -> (forall x, In x RA' -> valid b (sr_chain x)) ->
  half RA RA' -> half RB RB' ->
  half (merge_and_groups true RA RB) (merge_and_groups true RA' RB').
Proof.
  intros Hu Hv HA HB m Hm.
  apply merge_sound in Hm. destruct Hm as (r & o & Hr & Ho & Hc & He). subst m.
  destruct (HA r Hr) as (r' & Hr' & Rr). destruct (HB o Ho) as (o' & Ho' & Ro).
  assert (Hc' : compat r' o' = true) by (rewrite <- (compat_rel _ _ _ _ Rr Ro); exact Hc).
  destruct (merge_complete true RA' RB' r' o' Hr' Ho' Hc') as (m' & Hm' & Hs).
  exists m'. split; [exact Hm'|].
  unfold has_same_tags in Hs. apply andb_true_iff in Hs. destruct Hs as [Hg Hi]. apply Nat.eqb_eq in Hg.
  assert (Hch : sr_chain m' = sr_chain r').
  { apply (uniq_chain b); [exact Hu | | apply Hv; exact Hr' | symmetry; exact Hg].
    apply merge_valid with true RA' RB'; assumption. }
  unfold compat in Hc, Hc'. apply andb_true_iff in Hc, Hc'.
  destruct Hc as [_ Hov]. destruct Hc' as [_ Hov']. apply negb_true_iff in Hov, Hov'.
  split.
  - rewrite Hch. simpl. exact (proj1 Rr).
  - rewrite <- (ids_eq_map _ _ Hi).
    apply Permutation_trans with (map nid (sr_tags r) ++ map nid (sr_tags o)); [apply merged_ids; exact Hov|].
    apply Permutation_trans with (map nid (sr_tags r') ++ map nid (sr_tags o'));
      [apply Permutation_app; [exact (proj2 Rr) | exact (proj2 Ro)]|].
    apply Permutation_sym. apply merged_ids. exact Hov'.
Qed.

Lemma or_half b RA RA' RB RB' :
  uniq b -> (forall x, In x RA' -> valid b (sr_chain x)) -> (forall x, In x RB' -> valid b (sr_chain x)) ->
  half RA RA' -> half RB RB' -> half (or_groups true RA RB) (or_groups true RA' RB').
Proof.
  intros Hu HvA HvB HA HB r Hin. unfold or_groups in Hin |- *. apply in_app_or in Hin. destruct Hin as [Hin | Hin].
  - apply filter_In in Hin. destruct Hin as [Hin _].
    destruct (HA r Hin) as (r' & Hr' & Rr).
    destruct (existsb (has_same_tags true r') RB') eqn:Hex.
    + apply existsb_exists in Hex. destruct Hex as (o' & Ho' & Hs).
      exists o'. split; [apply in_or_app; right; exact Ho'|].
      unfold has_same_tags in Hs. apply andb_true_iff in Hs. destruct Hs as [Hg Hi]. apply Nat.eqb_eq in Hg.
      assert (Hch : sr_chain o' = sr_chain r').
      { apply (uniq_chain b); [exact Hu | apply HvB; exact Ho' | apply HvA; exact Hr' | symmetry; exact Hg]. }
      split; [rewrite Hch; exact (proj1 Rr) | rewrite <- (ids_eq_map _ _ Hi); exact (proj2 Rr)].
    + exists r'. split; [|exact Rr]. apply in_or_app. left. apply filter_In. split; [exact Hr' | rewrite Hex; reflexivity].
  - destruct (HB r Hin) as (r' & Hr' & Rr). exists r'. split; [apply in_or_app; right; exact Hr' | exact Rr].
Qed.

Lemma negate_half a b R R' :
  base a b -> half R' R -> half (negate R a) (negate R' b).
Proof.
  intros Hb Hback r Hin. unfold negate in Hin. apply in_map_iff in Hin. destruct Hin as (c & He & Hc). subst r.
  apply filter_In in Hc. destruct Hc as [Hc Hno].
  destruct (b_ab _ _ Hb c Hc) as (c' & Hc' & Hcr).
  exists {| sr_chain := c'; sr_tags := [] |}. split; [|split; simpl; [exact Hcr | apply Permutation_refl]].
  unfold negate. apply in_map_iff. exists c'. split; [reflexivity|]. apply filter_In. split; [exact Hc'|].
  destruct (existsb (fun r => Nat.eqb (chain_gid c') (gid r)) R') eqn:Hex; [|reflexivity].
  exfalso. apply existsb_exists in Hex. destruct Hex as (x' & Hx' & Hg). apply Nat.eqb_eq in Hg.
  destruct (Hback x' Hx') as (x & Hx & Rx).
  apply negb_true_iff in Hno.
  assert (Hyes : existsb (fun r => Nat.eqb (chain_gid c) (gid r)) R = true).
  { apply existsb_exists. exists x. split; [exact Hx|]. apply Nat.eqb_eq.
    rewrite (crel_gid _ _ Hcr), Hg. apply rel_gid. exact Rx. }
  congruence.
Qed.

Lemma wild_half a b tok : base a b -> half (wild_results tok a) (wild_results tok b).
Proof.
  intros Hb r Hin. unfold wild_results in Hin |- *.
  destruct (match length tok with 1 => Some (fun _ : node => true) | 2 => Some is_tag
            | 3 => Some (fun n => negb (is_tag n)) | _ => None end) as [p|] eqn:Hsel; [|destruct Hin].
  assert (Hp : forall x x', key x' = key x -> p x = true -> p x' = true).
  { intros x x' Hk Hpx.
    destruct (length tok) as [|[|[|[|n]]]]; try discriminate; inversion Hsel; subst p;
      try reflexivity; rewrite (key_is_tag _ _ Hk); exact Hpx. }
  apply in_flat_map in Hin. destruct Hin as (c & Hc & Hin).
  apply in_map_iff in Hin. destruct Hin as (x & He & Hx). subst r.
  apply filter_In in Hx. destruct Hx as [Hx Hpx].
  destruct (b_ab _ _ Hb c Hc) as (c' & Hc' & Hcr).
  destruct Hcr as [|g g' rest rest' Hg Hrest]; [destruct Hx|]. simpl in Hx.
  destruct (nrel_child g g' x Hg Hx) as (x' & Hx' & Hk).
  exists {| sr_chain := g' :: rest'; sr_tags := [x'] |}. split.
  - apply in_flat_map. exists (g' :: rest'). split; [exact Hc'|].
    apply in_map_iff. exists x'. split; [reflexivity|]. apply filter_In. split; [exact Hx' | apply (Hp x x' Hk Hpx)].
  - split; simpl; [constructor; assumption | rewrite (key_nid _ _ Hk); apply Permutation_refl].
Qed.

Lemma term_half a b tok ex : base a b -> half (term_results tok ex a) (term_results tok ex b).
Proof.
  intros Hb. unfold term_results. destruct (term_info tok) as [[mode nil_] text].
  set (P := fun tc : node * chain => tag_matches mode text (fst tc)).
  assert (Hinto : forall a b, base a b -> forall t c, In (t, c) (filter P (all_tags a)) ->
                    exists c', In (t, c') (filter P (all_tags b)) /\ crel c c').
  { intros a0 b0 Hb0 t c Hin. apply filter_In in Hin. destruct Hin as [Hin HP].
    destruct (found_into a0 b0 (fun _ => true) t c Hb0 Hin) as (c' & Hc' & Hcr).
    exists c'. split; [apply filter_In; split; [exact Hc' | exact HP] | exact Hcr]. }
  set (mk := fun tc : node * chain => ([fst tc], snd tc)).
  (* the found list with its tag lists, related *)
  assert (Hfound : forall (F F' : list (list node * chain)),
             (forall tc, In tc F -> exists tc', In tc' F' /\ crel (snd tc) (snd tc') /\
                                               Permutation (map nid (fst tc)) (map nid (fst tc'))) ->
             half (if ex then map (fun tc => {| sr_chain := snd tc; sr_tags := fst tc |}) F
                   else flat_map (fun tc => climb (fst tc) (snd tc)) F)
                  (if ex then map (fun tc => {| sr_chain := snd tc; sr_tags := fst tc |}) F'
                   else flat_map (fun tc => climb (fst tc) (snd tc)) F')).
  { intros F F' HF r Hin. destruct ex.
    - apply in_map_iff in Hin. destruct Hin as (tc & He & Htc). subst r.
      destruct (HF tc Htc) as (tc' & Htc' & Hc & Hp).
      exists {| sr_chain := snd tc'; sr_tags := fst tc' |}. split; [apply in_map_iff; exists tc'; auto | split; assumption].
    - apply in_flat_map in Hin. destruct Hin as (tc & Htc & Hin).
      destruct (HF tc Htc) as (tc' & Htc' & Hc & Hp).
      destruct (climb_half _ _ _ _ Hc Hp r Hin) as (r' & Hr' & Hrel).
      exists r'. split; [apply in_flat_map; exists tc'; auto | exact Hrel]. }
  assert (Hplain : forall a b, base a b -> forall tc, In tc (map mk (filter P (all_tags a))) ->
             exists tc', In tc' (map mk (filter P (all_tags b))) /\ crel (snd tc) (snd tc') /\
                         Permutation (map nid (fst tc)) (map nid (fst tc'))).
  { intros a0 b0 Hb0 tc Htc. apply in_map_iff in Htc. destruct Htc as ([t c] & He & Htc). subst tc.
    destruct (Hinto a0 b0 Hb0 t c Htc) as (c' & Hc' & Hcr).
    exists (mk (t, c')). split; [apply in_map; exact Hc' | split; [exact Hcr | apply Permutation_refl]]. }
  destruct nil_.
  - (* must not be in line *)
    apply Hfound. intros tc Htc.
    destruct (map mk (filter P (all_tags a))) as [|x l] eqn:Ha; [|destruct Htc].
    destruct (map mk (filter P (all_tags b))) as [|x' l'] eqn:Hbm.
    + apply in_map_iff in Htc. destruct Htc as (c & He & Hc). subst tc.
      destruct (b_ab _ _ Hb c Hc) as (c' & Hc' & Hcr).
      exists ([], c'). split; [apply in_map_iff; exists c'; auto | split; [exact Hcr | apply Permutation_refl]].
    + exfalso. destruct (Hplain b a (base_sym _ _ Hb) x') as (y & Hy & _); [rewrite Hbm; left; reflexivity|].
      rewrite Ha in Hy. destruct Hy.
  - apply Hfound. apply Hplain. exact Hb.
Qed.

(* ---------------------------------------------------------------- every expression *)

Lemma nonempty_half {R R' : list sres} : half R R' -> R <> [] -> R' <> [].
Proof.
  intros H Hne. destruct R as [|r R]; [congruence|].
  destruct (H r (or_introl eq_refl)) as (r' & Hr' & _). intro He. subst R'. destruct Hr'.
Qed.

Lemma handle_half e : forall a b ex, base a b -> half (handle true e ex a) (handle true e ex b).
Proof.
  induction e as [tok | tok | tok x IHx y IHy | tok x IHx y IHy | tok x IHx | tok x IHx | tok x IHx | tok x IHx
                 | tok x IHx y IHy]; intros a b ex Hb.
  - apply term_half. exact Hb.
  - apply wild_half. exact Hb.
  - rewrite !handle_and.
    destruct b as [|j ch'] eqn:Eb; [destruct Hb; discriminate|]. rewrite <- Eb in *.
    apply (merge_half b); [exact (b_ub _ _ Hb) | | apply IHx; exact Hb | apply IHy; exact Hb].
    intros z Hz. rewrite Eb in *. apply handle_valid with true x ex. exact Hz.
  - cbn [handle].
    destruct b as [|j ch'] eqn:Eb; [destruct Hb; discriminate|]. rewrite <- Eb in *.
    apply (or_half b); [exact (b_ub _ _ Hb) | | | apply IHx; exact Hb | apply IHy; exact Hb];
      intros z Hz; rewrite Eb in *; eapply handle_valid; exact Hz.
  - cbn [handle]. apply negate_half; [exact Hb|]. apply IHx. apply base_sym. exact Hb.
  - cbn [handle]. apply parent_half. apply IHx. exact Hb.
  - cbn [handle]. apply parent_half. apply IHx. exact Hb.
  - cbn [handle]. cbv zeta.
    pose proof (filter_exact_half _ _ (IHx a b true Hb)) as Hf.
    destruct (filter_exact (handle true x true a)) as [|r0 l0] eqn:Ea; [intros r []|].
    destruct (filter_exact (handle true x true b)) as [|r1 l1] eqn:Ebb.
    + exfalso. apply (nonempty_half Hf); [discriminate | reflexivity].
    + apply parent_half. exact Hf.
  - cbn [handle]. cbv zeta.
    pose proof (filter_exact_half _ _ (IHy a b true Hb)) as Hf.
    pose proof (filter_exact_half _ _ (IHy b a true (base_sym _ _ Hb))) as Hf'.
    destruct (filter_exact (handle true y true a)) as [|r0 l0] eqn:Ea;
      destruct (filter_exact (handle true y true b)) as [|r1 l1] eqn:Ebb.
    + apply parent_half. apply filter_exact_half.
      destruct b as [|j ch'] eqn:Eb; [destruct Hb; discriminate|]. rewrite <- Eb in *.
      apply (merge_half b); [exact (b_ub _ _ Hb) | | apply IHy; exact Hb | apply IHx; exact Hb].
      intros z Hz. rewrite Eb in *. apply handle_valid with true y true. exact Hz.
    + exfalso. apply (nonempty_half Hf'); [discriminate | reflexivity].
    + exfalso. apply (nonempty_half Hf); [discriminate | reflexivity].
    + apply parent_half. exact Hf.
Qed.

Lemma matches_base e a b : base a b -> matches true e a = matches true e b.
Proof.
  intro Hb. unfold matches. apply eq_true_iff_eq. rewrite !nonempty_true. split; intro H.
  - apply (nonempty_half (handle_half e a b false Hb)). exact H.
  - apply (nonempty_half (handle_half e b a false (base_sym _ _ Hb))). exact H.
Qed.

(* ---------------------------------------------------------------- one reordering step gives the base relation *)

Lemma nrel_refl n : nrel n n.
Proof. split; [reflexivity | apply Permutation_refl]. Qed.

Lemma ctx_change n : forall d d', crel d d' ->
  forall c, In c (groups_ctx d n) -> exists c', In c' (groups_ctx d' n) /\ crel c c'.
Proof.
  induction n as [i terms s o | i ch IH] using node_ind'; intros d d' Hd c Hin; [destruct Hin|].
  rewrite Forall_forall in IH. cbn [groups_ctx] in Hin |- *. destruct Hin as [Hin | Hin].
  - subst c. eexists. split; [left; reflexivity|]. constructor; [apply nrel_refl | exact Hd].
  - apply in_flat_map in Hin. destruct Hin as (x & Hx & Hin).
    destruct (IH x Hx (Group i ch :: d) (Group i ch :: d')) with (c := c) as (c' & Hc' & Hcr);
      [constructor; [apply nrel_refl | exact Hd] | exact Hin|].
    exists c'. split; [right; apply in_flat_map; exists x; auto | exact Hcr].
Qed.

Lemma sperm1_key a b : sperm1 a b -> key a = key b.
Proof. intro H. destruct H; reflexivity. Qed.

Lemma sperm1_nrel a b : sperm1 a b -> nrel a b.
Proof.
  intro H. destruct H as [i ch ch' Hp | i pre x y post Hxy]; split; try reflexivity; simpl.
  - apply Permutation_map. exact Hp.
  - rewrite !map_app. simpl. rewrite (sperm1_key x y Hxy). apply Permutation_refl.
Qed.

Lemma sperm1_groups a b : sperm1 a b ->
  forall d d', crel d d' -> forall c, In c (groups_ctx d a) -> exists c', In c' (groups_ctx d' b) /\ crel c c'.
Proof.
  intro H. induction H as [i ch ch' Hp | i pre x y post Hxy IH]; intros d d' Hd c Hin.
  - pose proof (sperm1_nrel _ _ (sp_here i ch ch' Hp)) as Hn.
    cbn [groups_ctx] in Hin |- *. destruct Hin as [Hin | Hin].
    + subst c. eexists. split; [left; reflexivity | constructor; assumption].
    + apply in_flat_map in Hin. destruct Hin as (z & Hz & Hin).
      destruct (ctx_change z (Group i ch :: d) (Group i ch' :: d')) with (c := c) as (c' & Hc' & Hcr);
        [constructor; assumption | exact Hin|].
      exists c'. split; [|exact Hcr]. right. apply in_flat_map. exists z.
      split; [apply Permutation_in with ch; assumption | exact Hc'].
  - pose proof (sperm1_nrel _ _ (sp_inside i pre x y post Hxy)) as Hn.
    cbn [groups_ctx] in Hin |- *. destruct Hin as [Hin | Hin].
    + subst c. eexists. split; [left; reflexivity | constructor; assumption].
    + apply in_flat_map in Hin. destruct Hin as (z & Hz & Hin).
      assert (Hd2 : crel (Group i (pre ++ x :: post) :: d) (Group i (pre ++ y :: post) :: d'))
        by (constructor; assumption).
      apply in_app_or in Hz. destruct Hz as [Hz | [Hz | Hz]].
      * destruct (ctx_change z _ _ Hd2 c Hin) as (c' & Hc' & Hcr).
        exists c'. split; [|exact Hcr]. right. apply in_flat_map. exists z.
        split; [apply in_or_app; left; exact Hz | exact Hc'].
      * subst z. destruct (IH _ _ Hd2 c Hin) as (c' & Hc' & Hcr).
        exists c'. split; [|exact Hcr]. right. apply in_flat_map. exists y.
        split; [apply in_or_app; right; left; reflexivity | exact Hc'].
      * destruct (ctx_change z _ _ Hd2 c Hin) as (c' & Hc' & Hcr).
        exists c'. split; [|exact Hcr]. right. apply in_flat_map. exists z.
        split; [apply in_or_app; right; right; exact Hz | exact Hc'].
Qed.

Lemma sperm1_sym a b : sperm1 a b -> sperm1 b a.
Proof.
  intro H. induction H as [i ch ch' Hp | i pre x y post Hxy IH].
  - apply sp_here. apply Permutation_sym. exact Hp.
  - apply sp_inside. exact IH.
Qed.

(* group identities, whatever the context chain *)
Lemma gids_chain n : forall c c', map chain_gid (groups_ctx c n) = map chain_gid (groups_ctx c' n).
Proof.
  induction n as [i terms s o | i ch IH] using node_ind'; intros c c'; [reflexivity|].
  cbn [groups_ctx map]. f_equal.
  generalize (Group i ch :: c) (Group i ch :: c'). intros d d'.
  induction IH as [|x l Hx Hl IHl]; [reflexivity|].
  simpl. rewrite !map_app. f_equal; [apply Hx | exact IHl].
Qed.

Lemma flat_gids_perm (c c' : chain) l l' :
  Permutation l l' ->
  Permutation (map chain_gid (flat_map (groups_ctx c) l)) (map chain_gid (flat_map (groups_ctx c') l')).
Proof.
  assert (Hsame : forall l0, Permutation (map chain_gid (flat_map (groups_ctx c) l0))
                                         (map chain_gid (flat_map (groups_ctx c') l0))).
  { induction l0 as [|z l0 IHl]; [apply Permutation_refl|].
    simpl. rewrite !map_app, (gids_chain z c c'). apply Permutation_app_head. exact IHl. }
  intro H. apply Permutation_trans with (map chain_gid (flat_map (groups_ctx c) l')); [|apply Hsame].
  apply Permutation_map. apply Permutation_flat_map. exact H.
Qed.

Lemma sperm1_gids a b : sperm1 a b ->
  forall c c', Permutation (map chain_gid (groups_ctx c a)) (map chain_gid (groups_ctx c' b)).
Proof.
  intro H. induction H as [i ch ch' Hp | i pre x y post Hxy IH]; intros c c'; cbn [groups_ctx map chain_gid nid].
  - apply perm_skip. apply flat_gids_perm. exact Hp.
  - apply perm_skip. rewrite !flat_map_app. simpl. rewrite !map_app.
    apply Permutation_app; [apply flat_gids_perm; apply Permutation_refl|].
    apply Permutation_app; [apply IH | apply flat_gids_perm; apply Permutation_refl].
Qed.

Lemma sperm1_base a b : sperm1 a b -> uniq a -> base a b.
Proof.
  intros H Hu.
  assert (Hub : uniq b).
  { unfold uniq, all_groups in *. apply Permutation_NoDup with (map chain_gid (groups_ctx [] a)); [|exact Hu].
    apply sperm1_gids. exact H. }
  constructor; try assumption.
  - intros c Hc. apply (sperm1_groups a b H [] []); [constructor | exact Hc].
  - intros c Hc. apply (sperm1_groups b a (sperm1_sym _ _ H) [] []); [constructor | exact Hc].
  - destruct H; reflexivity.
  - destruct H; reflexivity.
Qed.

(* Repaired code: the verdict of every expression is invariant under any
   nested reordering of siblings (group identities being unique). *)
Lemma sibling_order_invariant_fixed a b :
  sperm a b -> is_tag a = false -> uniq a ->
  is_tag b = false /\ uniq b /\ forall e, matches true e a = matches true e b.
Proof.
  intro H. induction H as [a b H | a | a b c H1 IH1 H2 IH2]; intros Ha Hu.
  - pose proof (sperm1_base a b H Hu) as Hb.
    split; [exact (b_gb _ _ Hb) | split; [exact (b_ub _ _ Hb) | intro e; apply matches_base; exact Hb]].
  - split; [exact Ha | split; [exact Hu | reflexivity]].
  - destruct (IH1 Ha Hu) as (Hb & Hub & E1). destruct (IH2 Hb Hub) as (Hc & Huc & E2).
    split; [exact Hc | split; [exact Huc | intro e; rewrite E1; apply E2]].
Qed.
