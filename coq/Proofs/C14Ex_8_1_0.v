(* C14 -- kernel evaluation of the model on the translated bundled schema 8_1_0 (Gen/Schema_8_1_0_c14.v).
   The environment names exactly the previous versions HedIDValidator.__init__ asks load_schema_version for;
   a missing one would make the evaluation raise HedFileError and this file fail.  One evaluation only
   ([evaluate]: check with warnings on + the boolean checker of [checkable]); the warnings-off half follows from
   check_compliance_off. *)
From Coq Require Import List NArith ZArith String.
From HV Require Import Base.Res Base.Str Base.C14Base Gen.ComplianceTables Model.Compliance
     Proofs.ComplianceProofs Proofs.C14ExCommon Gen.C14_Env.
From HV Require Gen.Schema_8_1_0_c14 Gen.Schema_8_0_0_c14.
Import ListNotations.
Local Open Scope string_scope.

Definition env_8_1_0 : env := bundled_env [(s2str "8.0.0", Schema_8_0_0_c14.schema)].

(* one kernel evaluation: no error-severity issue, and the checker of [checkable] says yes *)
Lemma evaluated_8_1_0 : evaluate env_8_1_0 Schema_8_1_0_c14.schema = Ok ([], true).
Proof. vm_cast_no_check (@eq_refl (res (list issue * bool)) (Ok ([], true))). Qed.

Lemma compliant_8_1_0 : no_error env_8_1_0 Schema_8_1_0_c14.schema.
Proof. apply no_error_of_errors. exact (proj1 (evaluate_sound _ _ _ evaluated_8_1_0)). Qed.

(* the premise of the seeded-fault theorems holds of the loaded bundled schema *)
Lemma checkable_8_1_0 : exists L, load env_8_1_0 Schema_8_1_0_c14.schema = Ok L /\ checkable env_8_1_0 L.
Proof. exact (proj2 (evaluate_sound _ _ _ evaluated_8_1_0)). Qed.

(* in this schema suggestedTag / relatedTag / unitClass / valueClass carry the existence rule and defaultUnits
   the unit rule (old table, or 8.3 range properties of the attribute definitions) *)
Lemma reference_rules_8_1_0 : loaded_has_reference_rules env_8_1_0 Schema_8_1_0_c14.schema = true.
Proof. vm_cast_no_check (@eq_refl bool true). Qed.
