(* Shapes of the schema data emitted by translator T4 (harness/schema_xml.py) into Gen/Schema_<v>.v. *)
From Coq Require Import List NArith.
From HV Require Import Base.Str.
Import ListNotations.

(* one <node> of the tag section, in registration (document) order *)
Record tagdef := mkTag {
  td_long : str;               (* "A/B/C" or "A/B/#" as code points *)
  td_value_child : bool;       (* the node has a direct child named # *)
  td_ext_allowed : bool;       (* the node itself carries extensionAllowed *)
  td_takes_value : bool;       (* the node itself carries takesValue *)
  td_attrs : list (str * list str)   (* selected attributes: name, values ([] = flag) *)
}.

(* an entry of another section (unit class with its units, modifier, value class, attribute, property) *)
Inductive namedef := mkName (name : str) (attrs : list (str * list str)) (units : list namedef).
