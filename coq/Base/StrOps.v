(* String operations used by the schema text codecs (C05): Python's
   str.split(c) / strip() / find / replace / count on code-point lists, with
   the algebra the codec proofs need. *)
From Coq Require Import List NArith ZArith Arith Bool Lia.
From HV Require Import Base.Str.
Import ListNotations.

(* ------------------------------------------------------------------ functions *)

Definition memb (c : N) (l : list N) : bool := existsb (N.eqb c) l.

(* s.split(c) for a one-character separator: always at least one piece *)
Fixpoint split_on (c : N) (s : str) : list str :=
  match s with
  | [] => [[]]
  | x :: t =>
      if N.eqb x c then [] :: split_on c t
      else match split_on c t with
           | [] => [[x]]            (* unreachable: split_on is never empty *)
           | p :: ps => (x :: p) :: ps
           end
  end.

Fixpoint lstrip (s : str) : str :=
  match s with
  | [] => []
  | c :: t => if isspace c then lstrip t else s
  end.

Fixpoint rstrip (s : str) : str :=
  match s with
  | [] => []
  | c :: t => match rstrip t with
              | [] => if isspace c then [] else [c]
              | r => c :: r
              end
  end.

(* s.strip() *)
Definition strip (s : str) : str := rstrip (lstrip s).

Definition startswith (p s : str) : bool := prefixb p s.

Definition endswith (p s : str) : bool :=
  (length p <=? length s) && str_eqb (skipn (length s - length p) s) p.

(* p in s  (p non-empty) *)
Fixpoint contains (p s : str) : bool :=
  prefixb p s || match s with [] => false | _ :: t => contains p t end.

(* s.find(c) for a one-character needle; -1 when absent *)
Fixpoint findc (c : N) (s : str) : Z :=
  match s with
  | [] => (-1)%Z
  | x :: t => if N.eqb x c then 0%Z
              else match findc c t with
                   | Zneg _ => (-1)%Z
                   | r => (r + 1)%Z
                   end
  end.

(* s.find(p) for a non-empty needle *)
Fixpoint finds (p s : str) : Z :=
  if prefixb p s then 0%Z
  else match s with
       | [] => (-1)%Z
       | _ :: t => match finds p t with
                   | Zneg _ => (-1)%Z
                   | r => (r + 1)%Z
                   end
       end.

(* s.replace(p, "") / re.sub(p, "", s) for a literal non-empty p: leftmost,
   non-overlapping, single pass ([skip] = characters of a match still to drop) *)
Fixpoint remove_all_go (p : str) (skip : nat) (s : str) : str :=
  match s with
  | [] => []
  | c :: t =>
      match skip with
      | S k => remove_all_go p k t
      | O => if prefixb p s then remove_all_go p (length p - 1) t
             else c :: remove_all_go p 0 t
      end
  end.
Definition remove_all (p s : str) : str :=
  match p with [] => s | _ => remove_all_go p 0 s end.

Fixpoint repeat_ch (c : N) (n : nat) : str :=
  match n with O => [] | S k => c :: repeat_ch c k end.

(* number of leading c *)
Fixpoint count_leading (c : N) (s : str) : nat :=
  match s with
  | x :: t => if N.eqb x c then S (count_leading c t) else 0
  | [] => 0
  end.

Definition nonempty (s : str) : bool := match s with [] => false | _ => true end.

(* first and last character are not white space (vacuous on "") *)
Definition no_outer_ws (s : str) : bool :=
  match s with
  | [] => true
  | c :: _ => negb (isspace c) && negb (isspace (last s c))
  end.

Definition none_of (bad : list N) (s : str) : bool := forallb (fun c => negb (memb c bad)) s.

(* s[a:] for a Python index that may be negative is not needed: all slices in
   the modelled code use non-negative starts *)
Definition from (s : str) (a : nat) : str := skipn a s.

(* ------------------------------------------------------------------ algebra *)

Lemma split_on_nonempty c s : split_on c s <> [].
Proof.
  induction s as [|x t IH]; simpl; [discriminate|].
  destruct (N.eqb x c); [discriminate|].
  destruct (split_on c t); [congruence | discriminate].
Qed.

Lemma split_on_none c s : memb c s = false -> split_on c s = [s].
Proof.
  induction s as [|x t IH]; simpl; intro H; [reflexivity|].
  apply orb_false_iff in H as [H1 H2].
  rewrite N.eqb_sym, H1. rewrite (IH H2). reflexivity.
Qed.

Lemma split_on_app c a b :
  memb c a = false -> split_on c (a ++ c :: b) = a :: split_on c b.
Proof.
  induction a as [|x t IH]; simpl; intro H.
  - rewrite N.eqb_refl. reflexivity.
  - apply orb_false_iff in H as [H1 H2].
    rewrite N.eqb_sym, H1. rewrite (IH H2). reflexivity.
Qed.

Lemma join_split c s : join [c] (split_on c s) = s.
Proof.
  induction s as [|x t IH]; simpl; [reflexivity|].
  destruct (N.eqb x c) eqn:E.
  - apply N.eqb_eq in E; subst x.
    destruct (split_on c t) as [|p ps] eqn:Hs; [exfalso; eapply split_on_nonempty; eauto|].
    simpl in *. rewrite IH. reflexivity.
  - destruct (split_on c t) as [|p ps] eqn:Hs; [exfalso; eapply split_on_nonempty; eauto|].
    destruct ps; simpl in *; rewrite <- IH; reflexivity.
Qed.

Lemma split_pieces_free c s : Forall (fun p => memb c p = false) (split_on c s).
Proof.
  induction s as [|x t IH]; simpl; [constructor; auto|].
  destruct (N.eqb x c) eqn:E; [constructor; auto|].
  destruct (split_on c t) as [|p ps]; [constructor; [simpl; rewrite N.eqb_sym, E; reflexivity|constructor]|].
  inversion IH; subst. constructor; auto. simpl. rewrite N.eqb_sym, E. auto.
Qed.

Lemma rstrip_last_nonws s c : isspace c = false -> rstrip (s ++ [c]) = s ++ [c].
Proof.
  intro H. induction s as [|x t IH]; simpl.
  - rewrite H. reflexivity.
  - rewrite IH. destruct (t ++ [c]) eqn:E; [destruct t; discriminate | reflexivity].
Qed.

Lemma last_split (s : str) (d : N) : s <> [] -> s = removelast s ++ [last s d].
Proof. intro H. apply app_removelast_last. exact H. Qed.

Lemma strip_id s : no_outer_ws s = true -> strip s = s.
Proof.
  destruct s as [|c t]; [reflexivity|].
  unfold no_outer_ws. intro H. apply andb_true_iff in H as [H1 H2].
  apply negb_true_iff in H1. apply negb_true_iff in H2.
  unfold strip. cbn [lstrip]. rewrite H1.
  rewrite (last_split (c :: t) c) by discriminate.
  apply rstrip_last_nonws. exact H2.
Qed.

Lemma lstrip_space_cons s c : isspace c = true -> lstrip (c :: s) = lstrip s.
Proof. intro H. simpl. rewrite H. reflexivity. Qed.

Lemma strip_space_cons s : strip (ch_space :: s) = strip s.
Proof. unfold strip. reflexivity. Qed.

Lemma count_none_of c s : memb c s = false -> count c s = 0.
Proof.
  induction s as [|x t IH]; simpl; intro H; [reflexivity|].
  apply orb_false_iff in H as [H1 H2]. rewrite N.eqb_sym in H1. rewrite H1, (IH H2). reflexivity.
Qed.

Lemma memb_app c a b : memb c (a ++ b) = memb c a || memb c b.
Proof. unfold memb. apply existsb_app. Qed.

Lemma none_of_app bad a b : none_of bad (a ++ b) = none_of bad a && none_of bad b.
Proof. unfold none_of. apply forallb_app. Qed.

Lemma none_of_memb bad s c : none_of bad s = true -> memb c bad = true -> memb c s = false.
Proof.
  intros H Hc. induction s as [|x t IH]; [reflexivity|].
  simpl in *. apply andb_true_iff in H as [H1 H2]. rewrite (IH H2), orb_false_r.
  destruct (N.eqb c x) eqn:E; [|reflexivity].
  apply N.eqb_eq in E; subst x. rewrite Hc in H1. discriminate.
Qed.

Lemma findc_none c s : memb c s = false -> findc c s = (-1)%Z.
Proof.
  induction s as [|x t IH]; simpl; intro H; [reflexivity|].
  apply orb_false_iff in H as [H1 H2]. rewrite N.eqb_sym in H1. rewrite H1, (IH H2). reflexivity.
Qed.

Lemma findc_app c a b : memb c a = false -> findc c (a ++ c :: b) = Z.of_nat (length a).
Proof.
  induction a as [|x t IH]; simpl; intro H.
  - rewrite N.eqb_refl. reflexivity.
  - apply orb_false_iff in H as [H1 H2]. rewrite N.eqb_sym in H1. rewrite H1, (IH H2).
    destruct (length t); simpl; try reflexivity. f_equal. lia.
Qed.

Lemma skipn_app_exact {A} (a b : list A) : skipn (length a) (a ++ b) = b.
Proof. induction a; simpl; auto. Qed.

Lemma firstn_app_exact {A} (a b : list A) : firstn (length a) (a ++ b) = a.
Proof. induction a; simpl; [destruct b; reflexivity | f_equal; auto]. Qed.

Lemma count_leading_repeat c n s :
  match s with [] => True | x :: _ => N.eqb x c = false end ->
  count_leading c (repeat_ch c n ++ s) = n.
Proof.
  intro H. induction n as [|k IH]; simpl.
  - destruct s; [reflexivity|]. simpl. rewrite H. reflexivity.
  - rewrite N.eqb_refl, IH. reflexivity.
Qed.

Lemma repeat_ch_length c n : length (repeat_ch c n) = n.
Proof. induction n; simpl; auto. Qed.

Lemma contains_false_cons p c s : contains p (c :: s) = false -> contains p s = false.
Proof. simpl. intro H. apply orb_false_iff in H as [_ H]. exact H. Qed.

Lemma remove_all_go_id p s : contains p s = false -> remove_all_go p 0 s = s.
Proof.
  induction s as [|c t IH]; intro H; [reflexivity|].
  cbn [remove_all_go].
  assert (Hp : prefixb p (c :: t) = false).
  { simpl in H. apply orb_false_iff in H as [H _]. exact H. }
  rewrite Hp. f_equal. apply IH. eapply contains_false_cons; eauto.
Qed.

Lemma remove_all_id p s : contains p s = false -> remove_all p s = s.
Proof. intro H. unfold remove_all. destruct p; [reflexivity|]. apply remove_all_go_id. exact H. Qed.
