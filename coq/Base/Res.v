(* Explicit model of Python exceptions: partial operations return [res]. *)
From Coq Require Import List.
Import ListNotations.

Inductive exn : Set :=
| TypeError | KeyError | AttributeError | ValueError | IndexError
| RecursionError | HedFileError | CacheError | Unmodelled.

Inductive res (A : Type) : Type :=
| Ok (a : A)
| Exn (e : exn).
Arguments Ok {A} a.
Arguments Exn {A} e.

Definition bind {A B} (r : res A) (f : A -> res B) : res B :=
  match r with Ok a => f a | Exn e => Exn e end.

Notation "'let*' x ':=' r 'in' k" := (bind r (fun x => k))
  (at level 200, x pattern, r at level 100, k at level 200).

Definition is_ok {A} (r : res A) : bool :=
  match r with Ok _ => true | Exn _ => false end.

(* try: ... except e: handler *)
Definition catch {A} (r : res A) (e : exn) (h : A) : res A :=
  match r with
  | Ok a => Ok a
  | Exn e' =>
      match e, e' with
      | ValueError, ValueError => Ok h
      | TypeError, TypeError => Ok h
      | KeyError, KeyError => Ok h
      | AttributeError, AttributeError => Ok h
      | IndexError, IndexError => Ok h
      | RecursionError, RecursionError => Ok h
      | HedFileError, HedFileError => Ok h
      | CacheError, CacheError => Ok h
      | _, _ => Exn e'
      end
  end.

Fixpoint mapM {A B} (f : A -> res B) (l : list A) : res (list B) :=
  match l with
  | [] => Ok []
  | x :: xs => let* y := f x in let* ys := mapM f xs in Ok (y :: ys)
  end.
