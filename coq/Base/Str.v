(* Strings are lists of Unicode code points (N); positions are nat. *)
From Coq Require Import List NArith Arith Bool Lia.
Import ListNotations.

Definition str := list N.

Definition ch_space : N := 32%N.
Definition ch_comma : N := 44%N.
Definition ch_open  : N := 40%N.
Definition ch_close : N := 41%N.
Definition ch_slash : N := 47%N.
Definition ch_hash  : N := 35%N.
Definition ch_lbrace : N := 123%N.
Definition ch_rbrace : N := 125%N.

(* Python slice s[a:b] for 0 <= a, b *)
Definition sub (s : str) (a b : nat) : str := firstn (b - a) (skipn a s).

Lemma sub_length (s : str) a b : a <= b -> b <= length s -> length (sub s a b) = b - a.
Proof. intros Hab Hb. unfold sub. rewrite firstn_length, skipn_length. lia. Qed.

Fixpoint str_eqb (a b : str) : bool :=
  match a, b with
  | [], [] => true
  | x :: a', y :: b' => N.eqb x y && str_eqb a' b'
  | _, _ => false
  end.

Lemma str_eqb_spec a b : str_eqb a b = true <-> a = b.
Proof.
  revert b; induction a as [|x a IH]; destruct b as [|y b]; simpl; split; intro H;
    try reflexivity; try discriminate.
  - apply andb_true_iff in H as [H1 H2]. apply N.eqb_eq in H1. apply IH in H2. congruence.
  - inversion H; subst. rewrite N.eqb_refl. simpl. apply IH. reflexivity.
Qed.

(* str.isspace() for a single code point: bidi WS/B/S or category Zs.
   The table is compared against CPython for every code point on each run. *)
Definition isspace (c : N) : bool :=
  ((9 <=? c) && (c <=? 13) || (28 <=? c) && (c <=? 32) || (c =? 133) || (c =? 160)
   || (c =? 5760) || (8192 <=? c) && (c <=? 8202) || (c =? 8232) || (c =? 8233)
   || (c =? 8239) || (c =? 8287) || (c =? 12288))%N.

Fixpoint count (c : N) (s : str) : nat :=
  match s with
  | [] => 0
  | x :: xs => (if N.eqb x c then 1 else 0) + count c xs
  end.

Lemma count_app c a b : count c (a ++ b) = count c a + count c b.
Proof. induction a as [|x a IH]; simpl; [reflexivity | rewrite IH; lia]. Qed.

Fixpoint join (sep : str) (l : list str) : str :=
  match l with
  | [] => []
  | [x] => x
  | x :: xs => x ++ sep ++ join sep xs
  end.

(* lexicographic compare on code points = Python str comparison *)
Fixpoint str_ltb (a b : str) : bool :=
  match a, b with
  | [], [] => false
  | [], _ :: _ => true
  | _ :: _, [] => false
  | x :: a', y :: b' => if N.ltb x y then true else if N.eqb x y then str_ltb a' b' else false
  end.

Definition str_leb (a b : str) : bool := negb (str_ltb b a).

Fixpoint prefixb (p s : str) : bool :=
  match p, s with
  | [], _ => true
  | x :: p', y :: s' => N.eqb x y && prefixb p' s'
  | _ :: _, [] => false
  end.

(* forces [nat] and [N] into every extraction (used by the OCaml glue) *)
Definition force_types (n : nat) (c : N) : nat * N := (n, c).
