(* Shared by Gen/ErrorCodes.v (translated from hed/errors/*.py) and Model/Issues.v:
   error-context keys and one row of the error-kind table. *)
From Coq Require Import List NArith Bool.
From HV Require Import Base.Str.
Import ListNotations.

(* hed/errors/error_types.py: class ErrorContext *)
Inductive ckey : Set :=
| CTitle | CFile | CSidecarCol | CSidecarKey | CRow | CColumn | CLine
| CHedString | CSection | CSchemaTag | CAttr.

Definition ckey_eqb (a b : ckey) : bool :=
  match a, b with
  | CTitle, CTitle | CFile, CFile | CSidecarCol, CSidecarCol | CSidecarKey, CSidecarKey
  | CRow, CRow | CColumn, CColumn | CLine, CLine | CHedString, CHedString
  | CSection, CSection | CSchemaTag, CSchemaTag | CAttr, CAttr => true
  | _, _ => false
  end.

Lemma ckey_eqb_spec a b : ckey_eqb a b = true <-> a = b.
Proof. destruct a, b; simpl; split; intro H; try reflexivity; try discriminate. Qed.

Fixpoint ckey_mem (k : ckey) (l : list ckey) : bool :=
  match l with [] => false | x :: xs => ckey_eqb k x || ckey_mem k xs end.

(* one @hed_error / @hed_tag_error registration *)
Record kind_row : Set := {
  k_kind : str;          (* error_type (internal kind) *)
  k_code : str;          (* actual_code or error_type: the published code *)
  k_sev : nat;           (* default_severity *)
  k_tag : bool;          (* registered with @hed_tag_error *)
  k_sub : bool;          (* has_sub_tag=True *)
  k_quotes_tag : bool;   (* the message function mentions its tag parameter *)
  k_quotes_sub : bool    (* ... its problem_tag parameter (has_sub_tag only) *)
}.
