"""C15 -- Search queries obey their documented logic on every annotation."""
import os
import random
import re
import xml.etree.ElementTree as ET
from multiprocessing import Pool

from harness import common as C

PROP = "C15"
# 1 (default, matches /repo): fix commits 81fa420 (has_same_tags by identity), 1bd4096 (non-operand tokens rejected) and
#    0643166 (RecursionError -> ValueError) are in /repo: the model runs with fixed=true and the oracle demands the full
#    statement, no known class accepted.
# 0: the behaviour before them: model with fixed=false, the classes C15-F1..F3 are recognised (if listed in known_findings).
FIXED = int(os.environ.get("VERIF_C15_FIXED", "1"))
# 1 (default, matches /repo): fix commit c19994c is in /repo (the short_base_tag setter refreshes tag_terms).
# 0: the behaviour before it: after expand_defs() a
#    Def-expand tag still carries the schema path of Def; the model is given these stale terms (it models the code that
#    exists) and the oracle accepts exactly that class as C15-F4 (while it is listed in known_findings.json).
FIXED_F4 = int(os.environ.get("VERIF_C15_FIXED_F4", "1"))   # fix commit c19994c is in /repo
MODEL_DEPTH = 1000      # nesting depth handed to the model (fixed=true); deeper inputs are not compared, see TRUSTED
COQ_TARGETS = ["Props/C15.vo", "Extract/ExtractC15.vo"]
TRUSTED = [
    "Model/Query.v + Model/QueryParse.v are hand transcriptions of query_expressions.py (every handle_expr), "
    "query_util.py (SearchResult, Token), query_handler.py (_tokenize and the recursive-descent parser) and of the "
    "HedGroup/HedTag members they use (get_all_tags, get_all_groups, find_tags_with_term/find_exact_tags/"
    "find_wildcard_tags, __eq__, __str__, __bool__, _parent, is_group); tied by the correspondence run (match "
    "verdict per (query, annotation), compile outcome per query text)",
    "schema lookup is not modelled: a tag is (identity, tag_terms, short_tag, org_tag); the harness derives these "
    "from its own reading of HED8.3.0.xml (xml.etree), never from hed-python, so a wrong tag_terms/short_tag in "
    "hed-python shows up as a disagreement",
    "str.casefold and the token regex are modelled for ASCII text only; generated queries/annotations are ASCII",
    "Model/QueryEdit.v models HedGroup.append / HedGroup.replace on the tree and the never-updated source text; tied "
    "by running the model on (parsed base annotation + the same edit history) against the implementation object. "
    "HedGroup.remove, expand_defs, shrink_defs, replace_placeholder, sorted/sort, copy, _contents and "
    "from_hed_strings are not modelled: for those the model (and the oracle) is given the content the object prints",
    "Python's actual recursion limit is not modelled: the model takes the available nesting depth as a parameter; "
    "an exhausted depth is RecursionError in the model (compile_raw), turned into ValueError by compile like commit "
    "0643166 does; proved: one level per token is always enough and more depth never changes an answer; "
    "(theorems hold for every depth); generated query nesting stays below 60 levels, and the compile outcome of "
    "corpus entries nested 200+ levels is checked by the oracle only (ok or ValueError), not compared with the model",
]
ASSUMPTIONS = [
    "annotations are built from 37 spellings: schema tags, value-taking tags (Label/Def/ID) whose value is spelled "
    "like a schema term, extensions, and extensions that are schema terms (not identified: no schema path, short "
    "form = text); nesting depth <= 4; query depth <= 4",
    "the batch entry point (query_service.get_query_handlers + search_hed_objs) is compared ROW BY ROW with the "
    "single-annotation answers and the set semantics on lists holding None / empty annotations at every position "
    "(implementation only; the factor_hed_tags remodeling operation that calls it is not run)",
    "the independent set-semantics evaluator, the metamorphic laws, repeated-search / purity / batch-interface "
    "checks and 'a built or edited annotation answers like the same annotation parsed from its own text' run on the "
    "implementation only -- C15_search_ignores_history / C15_search_same_content hold by construction of the model "
    "(obj_search reads the content tree only) and carry no evidence by themselves; they run on the "
    "implementation only (testing); 70% of the random cases build the annotation through the API",
    "removals with an equal EARLIER sibling are not generated: HedGroup.remove (list.remove, by equality) takes the "
    "earlier one out and orphans the requested one -- an editing defect outside this property",
    "C15_sibling_order_invariant / _search assume the group identities of the annotation are pairwise different "
    "(object identity; the harness numbers nodes in pre-order)",
    "the *_prefix_* theorems are the record of the behaviour before fix commits 81fa420 / 1bd4096 / 0643166 / c19994c "
    "(fixed=false; /repo and the harness defaults are the repaired code): refuted sibling "
    "order and unbalanced-accepted witnesses, associativity under the no-equal-groups hypothesis",
]

# ---------------------------------------------------------------- vocabulary (independent of hed-python)

SHORTS = ["Red", "Blue", "Green", "Event", "Sensory-event", "Agent-action", "Item", "Object", "Label", "Def", "ID",
          "Red-color", "Def-expand"]
# text as written in an annotation -> (schema node (short name) or None when the tag is not identified, value/extension)
FORMS = {
    "Red": ("Red", None), "red": ("Red", None), "Blue": ("Blue", None), "Green": ("Green", None),
    "Event": ("Event", None), "Sensory-event": ("Sensory-event", None), "Event/Sensory-event": ("Sensory-event", None),
    "Agent-action": ("Agent-action", None), "Item": ("Item", None), "Object": ("Object", None),
    "Item/Object": ("Object", None), "Label/abc": ("Label", "abc"), "Label/ABC": ("Label", "ABC"),
    "Label/abd": ("Label", "abd"),
}
# value-taking tags whose VALUE is spelled like a schema term / a parent term of another tag / a queried word
VALUE_FORMS = {
    "Label/Red": ("Label", "Red"), "Label/red": ("Label", "red"), "label/Red": ("Label", "Red"),
    "Label/Event": ("Label", "Event"), "Label/Color": ("Label", "Color"), "Label/Item": ("Label", "Item"),
    "Label/Blue": ("Label", "Blue"), "Def/Red": ("Def", "Red"), "Def/Sensory-event": ("Def", "Sensory-event"),
    "Def/Face": ("Def", "Face"), "ID/Red": ("ID", "Red"), "ID/Object": ("ID", "Object"),
    "Label/a/Red": ("Label", "a/Red"), "Label/Blue/Green": ("Label", "Blue/Green"),
}
# extensions (the extension words are not schema terms) -- the tag is identified by its schema node
EXT_FORMS = {
    "Item/Redish": ("Item", "Redish"), "Object/Myobj": ("Object", "Myobj"), "Item/Object/Myobj": ("Object", "Myobj"),
    "Red-color/Crimsonish": ("Red-color", "Crimsonish"), "Sensory-event/Mysens": ("Sensory-event", "Mysens"),
    "Item/Redish/Blueish": ("Item", "Redish/Blueish"),
}
# an "extension" that is itself a schema term: the tag is not identified (no schema path at all)
UNID_FORMS = {"Red-color/Event": (None, None), "Object/Red": (None, None), "Agent-action/Item": (None, None)}
# spellings that only occur in annotations built / edited through the API (Def expansion, placeholder filling)
API_FORMS = {"Def/MyDef": ("Def", "MyDef"), "Def/Val/abc": ("Def", "Val/abc"), "Def-expand/MyDef": ("Def-expand", "MyDef"),
             "Def-expand/Val/abc": ("Def-expand", "Val/abc"), "Label/#": ("Label", "#")}
DEFINITIONS = "(Definition/MyDef,(Red,Object)),(Definition/Val/#,(Label/#,Blue))"
FORMS.update(VALUE_FORMS)
FORMS.update(EXT_FORMS)
FORMS.update(UNID_FORMS)
FORMS.update(API_FORMS)
TAG_POOL = (["Red", "Red", "Blue", "Blue", "Green", "Event", "Sensory-event", "Event/Sensory-event", "Agent-action",
             "Item", "Object", "Item/Object", "Label/abc", "Label/ABC", "Label/abd", "red"] * 2
            + list(VALUE_FORMS) + list(EXT_FORMS) + list(UNID_FORMS))
_paths = None


def schema_paths():
    """short name -> list of path names, read from the XML with xml.etree (fail closed)."""
    global _paths
    if _paths is None:
        root = ET.parse(os.path.join(C.REPO, "hed/schema/schema_data/HED8.3.0.xml")).getroot()
        sch = root.find("schema")
        if sch is None:
            raise RuntimeError("HED8.3.0.xml: no <schema> element")
        out = {}

        def walk(e, path):
            for n in e.findall("node"):
                nm = n.find("name").text
                if nm == "#":
                    continue
                if nm in out:
                    raise RuntimeError("duplicate short name " + nm)
                out[nm] = path + [nm]
                walk(n, path + [nm])
        walk(sch, [])
        for s in SHORTS:
            if s not in out:
                raise RuntimeError("schema lacks " + s)
        names = {n.casefold() for n in out}
        takes_value = set()
        for par in sch.iter("node"):
            if any(ch.find("name").text == "#" for ch in par.findall("node")):
                takes_value.add(par.find("name").text)
        # fail closed: the hand-written table of spellings must agree with the schema file
        for text, (node, suffix) in list(VALUE_FORMS.items()) + list(API_FORMS.items()):
            if node not in takes_value:
                raise RuntimeError(f"{text}: {node} takes no value in the schema")
        for text, (node, suffix) in EXT_FORMS.items():
            if node in takes_value or any(w.casefold() in names for w in suffix.split("/")):
                raise RuntimeError(f"{text}: not a plain extension")
        for text in UNID_FORMS:
            head, _, rest = text.partition("/")
            if head not in out or head in takes_value or not any(w.casefold() in names for w in rest.split("/")):
                raise RuntimeError(f"{text}: expected an extension that is a schema term")
        _paths = out
    return _paths


def tag_info(text, stale=False):
    """(terms, short_tag, org_tag) of an annotation tag, from the harness' own table.
    stale: the tag_terms hed-python kept after expand_defs() before fix commit c19994c (a Def-expand tag with Def's path)."""
    node, val = FORMS[text]
    if stale and node == "Def-expand":
        return [p.casefold() for p in schema_paths()["Def"]], node + "/" + val, text
    if node is None:            # not identified: no schema path; the short form is the text itself
        return [], text, text
    terms = [p.casefold() for p in schema_paths()[node]]      # the schema NODE only, never the value/extension
    return terms, node + ("/" + val if val is not None else ""), text


# ---------------------------------------------------------------- annotations
# tree: ("T", text) | ("G", [children]); the annotation itself is a list of children

def gen_children(rng, depth, top=False):
    n = rng.choice([1, 2, 2, 3, 3, 4]) if top else rng.choice([1, 1, 2, 2, 3])
    out = []
    for _ in range(n):
        if depth > 0 and rng.random() < 0.45:
            out.append(("G", gen_children(rng, depth - 1)))
        else:
            out.append(("T", rng.choice(TAG_POOL)))
    if depth > 0 and rng.random() < 0.25:      # encourage equal sibling groups
        gs = [c for c in out if c[0] == "G"]
        if gs:
            out.insert(rng.randrange(len(out) + 1), rng.choice(gs))
    return out


def ann_text(children):
    return ",".join(c[1] if c[0] == "T" else "(" + ann_text(c[1]) + ")" for c in children)


def parse_text(text):
    """Annotation text (as printed by str(HedString): short forms) -> tree; every tag must be a known spelling."""
    stack = [[]]
    cur = ""

    def flush():
        nonlocal cur
        t = cur.strip()
        cur = ""
        if t:
            if t not in FORMS:
                raise ValueError("unknown tag spelling " + repr(t))
            stack[-1].append(("T", t))
    for c in text:
        if c == "(":
            flush()
            stack.append([])
        elif c == ")":
            flush()
            g = stack.pop()
            stack[-1].append(("G", g))
        elif c == ",":
            flush()
        else:
            cur += c
    flush()
    if len(stack) != 1:
        raise ValueError("unbalanced annotation text " + repr(text))
    return stack[0]


# ---------------------------------------------------------------- annotations built or edited through the API
# route = {"kind": ..., ...} (JSON-able).  The object is built from case["tree"] by the route; the content the
# queries must see is whatever the object PRINTS afterwards (parse_text(str(obj))), never its stored source text.

def _sim_get(tree, path):
    ch = tree
    for i in path[:-1]:
        ch = ch[i][1]
    return ch, path[-1]


def _all_paths(children, prefix=()):
    out = []
    for i, c in enumerate(children):
        out.append(prefix + (i,))
        if c[0] == "G":
            out += _all_paths(c[1], prefix + (i,))
    return out


def _group_paths(children, prefix=()):
    out = [prefix]
    for i, c in enumerate(children):
        if c[0] == "G":
            out += _group_paths(c[1], prefix + (i,))
    return out


def _mut(children):
    return [c if c[0] == "T" else ["G", _mut(c[1])] for c in children]


def _freeze(children):
    return [c if c[0] == "T" else ("G", _freeze(c[1])) for c in children]


def gen_new_node(rng):
    if rng.random() < 0.7:
        return ("T", rng.choice(TAG_POOL))
    return ("G", gen_children(rng, rng.randint(0, 1)))


def gen_edits(rng, tree, n):
    """n random edits (append / replace / remove by child-index path), simulated on the tree so that paths stay valid."""
    cur = _mut(tree)
    ops = []
    for _ in range(n):
        kind = rng.choice(["append", "append", "replace", "replace", "remove"])
        if kind == "append":
            gp = rng.choice(_group_paths(cur))
            node = gen_new_node(rng)
            ch = cur
            for i in gp:
                ch = ch[i][1]
            ch.append(_mut([node])[0])
            ops.append(["append", list(gp), node])
        else:
            paths = _all_paths(cur)
            if not paths:
                continue
            pth = rng.choice(paths)
            ch, i = _sim_get(cur, pth)
            if kind == "replace":
                node = gen_new_node(rng)
                ch[i] = _mut([node])[0]
                ops.append(["replace", list(pth), node])
            else:
                if len(ch) < 2:       # never empty a group (HedGroup.remove would prune it) nor the annotation
                    continue
                # HedGroup.remove uses list.remove (equality): with an equal EARLIER sibling it takes that one out
                # and orphans the requested one -- an editing defect outside this property; such removals are not generated
                if any(node_equal(ch[k], ch[i]) for k in range(i)):
                    continue
                del ch[i]
                ops.append(["remove", list(pth)])
    return ops


def gen_route(rng, tree):
    x = rng.random()
    if x < 0.30:
        return {"kind": "parse"}
    if x < 0.38:
        k = rng.randint(1, max(1, min(3, len(tree))))
        cuts = sorted(rng.sample(range(1, len(tree)), k - 1)) if len(tree) > 1 else []
        return {"kind": "from_strings", "cuts": cuts}
    if x < 0.46:
        return {"kind": "contents", "fresh_tags": rng.random() < 0.5}
    if x < 0.52:
        return {"kind": rng.choice(["copy", "sorted", "sort"])}
    if x < 0.64:
        return {"kind": "expand", "n": rng.randint(1, 3), "seed": rng.randrange(1 << 30), "shrink": rng.random() < 0.2}
    if x < 0.72:
        return {"kind": "placeholder", "n": rng.randint(1, 2), "seed": rng.randrange(1 << 30)}
    ops = gen_edits(rng, tree, rng.randint(1, 3))
    return {"kind": "edits", "ops": ops, "search_between": rng.random() < 0.5,
            "then": rng.choice([None, None, "copy", "contents"])}


def insert_tags(rng, tree, texts):
    """Insert the given tag spellings at random places of the tree."""
    cur = _mut(tree)
    for t in texts:
        gp = rng.choice(_group_paths(cur))
        ch = cur
        for i in gp:
            ch = ch[i][1]
        ch.insert(rng.randrange(len(ch) + 1), ("T", t))
    return _freeze(cur)


_defs = None


def def_dict():
    global _defs
    if _defs is None:
        from hed.models.definition_dict import DefinitionDict
        _defs = DefinitionDict(DEFINITIONS, schema())
    return _defs


def _impl_node(spec):
    from hed.models.hed_string import HedString
    from hed.models.hed_tag import HedTag
    if spec[0] == "T":
        return HedTag(spec[1], schema())
    return HedString("(" + ann_text(spec[1]) + ")", schema()).children[0]


def _by_path(hs, path):
    g = hs
    for i in path:
        g = g.children[i]
    return g


def build_object(tree, route, probe=None):
    """The annotation object of a case, built from the tree along the route.  [probe(hs)] is called on intermediate
    objects when the route asks for searches between the edits."""
    from hed.models.hed_string import HedString
    from hed.models.hed_group import HedGroup
    from hed.models.hed_tag import HedTag
    kind = route["kind"]
    tree = list(tup(tree))
    if kind == "parse":
        return HedString(ann_text(tree), schema())
    if kind == "from_strings":
        cuts = [0] + list(route["cuts"]) + [len(tree)]
        parts = [HedString(ann_text(tree[a:b]), schema()) for a, b in zip(cuts, cuts[1:]) if b > a]
        return HedString.from_hed_strings(parts)
    if kind == "contents":
        if route.get("fresh_tags"):
            contents = [_impl_node(c) for c in tree]
        else:
            contents = list(HedString(ann_text(tree), schema()).children)
        return HedString("", schema(), _contents=contents)
    if kind in ("copy", "sorted", "sort"):
        hs = HedString(ann_text(tree), schema())
        if kind == "copy":
            return hs.copy()
        if kind == "sorted":
            return hs.sorted()
        hs.sort()
        return hs
    if kind == "expand":
        rng = random.Random(route["seed"])
        t2 = insert_tags(rng, tree, [rng.choice(["Def/MyDef", "Def/Val/abc"]) for _ in range(route["n"])])
        hs = HedString(ann_text(t2), schema(), def_dict())
        if probe:
            probe(hs)
        hs.expand_defs()
        if route.get("shrink"):
            if probe:
                probe(hs)
            hs.shrink_defs()
        return hs
    if kind == "placeholder":
        rng = random.Random(route["seed"])
        t2 = insert_tags(rng, tree, ["Label/#"] * route["n"])
        hs = HedString(ann_text(t2), schema())
        if probe:
            probe(hs)
        for tag in hs.get_all_tags():
            tag.replace_placeholder("abc")
        return hs
    if kind == "edits":
        hs = HedString(ann_text(tree), schema())
        for op in route["ops"]:
            if route.get("search_between") and probe:
                probe(hs)
            if op[0] == "append":
                _by_path(hs, op[1]).append(_impl_node(tup(op[2])))
            elif op[0] == "replace":
                HedGroup.replace(_by_path(hs, op[1]), _impl_node(tup(op[2])))
            else:
                hs.remove([_by_path(hs, op[1])])
        if route.get("then") == "copy":
            hs = hs.copy()
        elif route.get("then") == "contents":
            hs = HedString("", schema(), _contents=list(hs.children))
        return hs
    raise ValueError(kind)


def shuffle_tree(rng, children):
    ch = [c if c[0] == "T" else ("G", shuffle_tree(rng, c[1])) for c in children]
    rng.shuffle(ch)
    return ch


def model_tree(children, stale=False):
    """Root node s-expression with pre-order identities (root = 0)."""
    cnt = [0]

    def node(c):
        cnt[0] += 1
        i = cnt[0]
        if c[0] == "T":
            terms, short, org = tag_info(c[1], stale)
            return ["T", i, [C.cps(t) for t in terms], C.cps(short), C.cps(org)]
        return ["G", i, [node(x) for x in c[1]]]
    return ["G", 0, [node(c) for c in children]]


def model_new_node(spec, cnt):
    """Model node for a member created through the API; identities continue after those of the parsed annotation."""
    cnt[0] += 1
    i = cnt[0]
    if spec[0] == "T":
        terms, short, org = tag_info(spec[1])
        return ["T", i, [C.cps(t) for t in terms], C.cps(short), C.cps(org)]
    return ["G", i, [model_new_node(x, cnt) for x in spec[1]]]


def model_steps(route, probe_query):
    """The append / replace edits of an 'edits' route as model steps (None when the route has a remove)."""
    if route.get("kind") != "edits" or any(op[0] == "remove" for op in route["ops"]):
        return None
    cnt = [500]
    steps = []
    for op in route["ops"]:
        if route.get("search_between"):
            steps.append(["Q", C.cps(probe_query)])
        steps.append(["A" if op[0] == "append" else "R", list(op[1]), model_new_node(tup(op[2]), cnt)])
    return steps


def depth_of(children):
    return max([0] + [1 + depth_of(c[1]) for c in children if c[0] == "G"])


def tag_eq(a, b):
    """HedTag.__eq__: same short form ignoring case."""
    return tag_info(a)[1].casefold() == tag_info(b)[1].casefold()


def node_equal(a, b):
    if a[0] != b[0]:
        return False
    if a[0] == "T":
        return tag_eq(a[1], b[1])
    return len(a[1]) == len(b[1]) and all(node_equal(x, y) for x, y in zip(a[1], b[1]))


def has_equal_groups(children):
    """Two distinct groups of the annotation with equal content in the same order."""
    gs = []

    def walk(ch):
        for c in ch:
            if c[0] == "G":
                gs.append(c)
                walk(c[1])
    walk(children)
    return any(node_equal(gs[i], gs[j]) for i in range(len(gs)) for j in range(i + 1, len(gs)))


# ---------------------------------------------------------------- queries
# AST: ("term", text) bare / ("quoted", text) / ("exact", text-with-slash) / ("star", prefix) / ("wild", n)
#      ("and", sep, a, b) ("or", a, b) ("not", a) ("paren", a) ("desc", a) ("ex", a) ("exnone", a) ("exopt", a, b)

BARE = ["Event", "Sensory-event", "Agent-action", "Item", "Object", "Red", "Blue", "Green", "Color", "Label",
        "Property", "CSS-color", "Red-color", "sensory-event", "RED", "Informational-property", "Nothing", "Action",
        "Def", "ID", "Face", "Redish", "Myobj", "Crimsonish", "Mysens", "Blueish", "a", "abc", "Organizational-property",
        "Red", "Event", "Item", "Object", "Blue", "Color"]
QUOTED = ["Red", "Label/abc", "Event", "Sensory-event", "Object", "Label", "Blue", "label/ABD", "Item",
          "Label/Red", "Def/Red", "Label/a/Red", "Item/Redish", "Object/Myobj", "Red-color/Event", "ID/Red", "Object/Red"]
SLASH = ["Label/abc", "Label/ABC", "Label/abd", "Item/Object", "Label/ab",
         "Label/Red", "Def/Face", "Label/a/Red", "Object/Red", "Item/Redish", "Label/Blue/Green"]
STAR = ["Sens", "R", "Label/a", "Label/", "Ob", "", "Eve", "Agent-", "B", "red",
        "Lab", "Label/R", "Def/", "ID/R", "Label/a/", "Item/R", "Obj", "Red-color/", "I"]


def focus_atoms(rng, tree):
    """A few atomic queries about the annotation's OWN tags (a path term, the quoted short form, a star prefix), so
    that the operands of one query triple hit the same few tags (distinct-tag bookkeeping, duplicate filtering)."""
    tags = []

    def walk(ch):
        for c in ch:
            if c[0] == "T":
                tags.append(c[1])
            else:
                walk(c[1])
    walk(tree)
    out = []
    for t in rng.sample(tags, min(len(tags), 3)):
        terms, short, _ = tag_info(t)
        if terms:
            out.append(("term", rng.choice(terms)))
        out.append(("quoted", short))
        out.append(("star", short[:rng.randint(1, max(1, len(short) - 1))]))
    out += [("wild", rng.choice([1, 2, 3])), ("wild", rng.choice([1, 2, 3]))]
    return out


def gen_atom(rng, allow_wild=True, focus=None):
    if focus and rng.random() < 0.75:
        a = rng.choice(focus)
        if allow_wild or a[0] != "wild":
            return a
    x = rng.random()
    if x < 0.45:
        return ("term", rng.choice(BARE))
    if x < 0.58:
        return ("quoted", rng.choice(QUOTED))
    if x < 0.66:
        return ("exact", rng.choice(SLASH))
    if x < 0.80:
        return ("star", rng.choice(STAR))
    if allow_wild:
        return ("wild", rng.choice([1, 2, 3]))
    return ("term", rng.choice(BARE))


def gen_query(rng, depth, allow_wild=True, focus=None):
    if depth <= 0 or rng.random() < 0.22:
        return gen_atom(rng, allow_wild, focus)
    x = rng.random()
    if x < 0.27:
        return ("and", rng.choice(["&&", "&&", ","]), gen_query(rng, depth - 1, allow_wild, focus), gen_query(rng, depth - 1, allow_wild, focus))
    if x < 0.42:
        return ("or", gen_query(rng, depth - 1, allow_wild, focus), gen_query(rng, depth - 1, allow_wild, focus))
    if x < 0.55:
        return ("not", gen_query(rng, depth - 1, allow_wild and rng.random() < 0.1, focus))
    if x < 0.62:
        return ("paren", gen_query(rng, depth - 1, allow_wild, focus))
    if x < 0.74:
        return ("desc", gen_query(rng, depth - 1, allow_wild, focus))
    if x < 0.84:
        return ("ex", gen_query(rng, depth - 1, allow_wild, focus))
    if x < 0.92:
        return ("exnone", gen_query(rng, depth - 1, allow_wild and rng.random() < 0.7, focus))
    return ("exopt", gen_query(rng, depth - 1, allow_wild, focus), gen_query(rng, depth - 1, allow_wild, focus))


def q_text(q, top=True):
    k = q[0]
    if k == "term":
        return q[1]
    if k == "quoted":
        return '"' + q[1] + '"'
    if k == "exact":
        return q[1]
    if k == "star":
        return q[1] + "*"
    if k == "wild":
        return "?" * q[1]
    if k == "and":
        sep = " && " if q[1] == "&&" else ", "
        return wrap(q[2]) + sep + wrap(q[3])
    if k == "or":
        return wrap(q[1]) + " || " + wrap(q[2])
    if k == "not":
        return "~" + ("(" + q_text(q[1]) + ")" if q[1][0] in ("and", "or", "not") else q_text(q[1]))
    if k == "paren":
        return "(" + q_text(q[1]) + ")"
    if k == "desc":
        t = q_text(q[1])     # "[[" / "]]" are single (legacy) tokens: keep nested brackets apart
        return "[" + (" " if t.startswith("[") else "") + t + (" " if t.endswith("]") else "") + "]"
    if k == "ex":
        return "{" + q_text(q[1]) + "}"
    if k == "exnone":
        return "{" + q_text(q[1]) + ":}"
    if k == "exopt":
        return "{" + q_text(q[1]) + " : " + q_text(q[2]) + "}"
    raise ValueError(k)


def wrap(q):
    return "(" + q_text(q) + ")" if q[0] in ("and", "or") else q_text(q)


def q_has(q, kinds):
    return q[0] in kinds or any(isinstance(x, tuple) and q_has(x, kinds) for x in q[1:])


def q_depth(q):
    return 1 + max([0] + [q_depth(x) for x in q[1:] if isinstance(x, tuple)])


def q_rejected(q):
    """Documented rejections: negation of a wildcard; negation inside {..:..}."""
    k = q[0]
    if k == "not" and q_has(q[1], ("wild",)):
        return True
    if k in ("exnone", "exopt") and q_has(q, ("not",)):
        return True
    return any(isinstance(x, tuple) and q_rejected(x) for x in q[1:])


# ---------------------------------------------------------------- independent set semantics (from the documentation)

class Ann:
    """Indexed annotation: groups (root = 0), children, parents; node ids pre-order."""

    def __init__(self, children, stale=False):
        self.kids = {0: []}
        self.parent = {}
        self.tag = {}
        cnt = [0]

        def add(c, p):
            cnt[0] += 1
            i = cnt[0]
            self.parent[i] = p
            self.kids[p].append(i)
            if c[0] == "T":
                self.tag[i] = tag_info(c[1], stale)
            else:
                self.kids[i] = []
                for x in c[1]:
                    add(x, i)
        for c in children:
            add(c, 0)


def tag_hit(q, info):
    terms, short, _ = info
    k = q[0]
    if k == "term":          # a bare term matches a tag having the term on its schema path
        return q[1].casefold() in terms
    if k in ("quoted", "exact"):   # only the exact tag (short form incl. value), case-insensitive
        return short.casefold() == q[1].casefold()
    if k == "star":          # short-form prefix
        return short.casefold().startswith(q[1].casefold())
    raise ValueError(k)


def den(q, a, exact):
    """Set of (group, frozenset of that group's children used by the match)."""
    k = q[0]
    if k in ("term", "quoted", "exact", "star"):
        out = set()
        for t, info in a.tag.items():
            if tag_hit(q, info):
                c, g = t, a.parent[t]
                out.add((g, frozenset([c])))
                while not exact and g != 0:
                    c, g = g, a.parent[g]
                    out.add((g, frozenset([c])))
        return out
    if k == "wild":
        out = set()
        for g, ch in a.kids.items():
            for c in ch:
                if q[1] == 1 or (q[1] == 2 and c in a.tag) or (q[1] == 3 and c not in a.tag):
                    out.add((g, frozenset([c])))
        return out
    if k == "and":
        A, B = den(q[2], a, exact), den(q[3], a, exact)
        return {(g, x | y) for g, x in A for h, y in B if g == h and not (x & y)}
    if k == "or":
        return den(q[1], a, exact) | den(q[2], a, exact)
    if k == "not":
        hit = {g for g, _ in den(q[1], a, exact)}
        return {(g, frozenset()) for g in a.kids if g not in hit}
    if k == "paren":
        return den(q[1], a, exact)

    def parents(S):
        return {(a.parent[g], frozenset([g])) for g, _ in S if g != 0}
    if k == "desc":
        return parents(den(q[1], a, False))
    if k == "ex":
        return parents(den(q[1], a, True))

    def full(S):
        return {(g, x) for g, x in S if len(x) == len(a.kids[g])}
    if k == "exnone":
        return parents(full(den(q[1], a, True)))
    if k == "exopt":
        A = den(q[1], a, True)
        F = full(A)
        if F:               # groups that match without the optional part take precedence
            return parents(F)
        B = den(q[2], a, True)
        return parents(full({(g, x | y) for g, x in A for h, y in B if g == h and not (x & y)}))
    raise ValueError(k)


def set_verdict(q, children, stale=False):
    return bool(den(q, Ann(children, stale), False))


# ---------------------------------------------------------------- implementation side

_schema = None


def schema():
    global _schema
    if _schema is None:
        from hed.schema import load_schema
        _schema = load_schema(os.path.join(C.REPO, "hed/schema/schema_data/HED8.3.0.xml"))
    return _schema


def shape(hs):
    from hed.models.hed_tag import HedTag

    def go(g):
        return [(id(c), c.org_tag) if isinstance(c, HedTag) else (id(c), go(c)) for c in g.children]
    return go(hs)


def impl_search_case(case):
    """case = dict(tree, stree, route, shuf_seed, queries={name: text}).  Builds the annotation object along the
    route, then: verdict of every query on the object (twice, and with a fresh handler), on the object re-parsed
    from its own text, and on a sibling reordering; purity; the batch interface."""
    from hed.models.hed_string import HedString
    from hed.models.query_handler import QueryHandler
    from hed.models.query_service import search_hed_objs
    r = {"v": {}, "vs": {}, "vr": {}, "problems": []}
    route = case.get("route") or {"kind": "parse"}
    compiled = {}
    for name, q in case["queries"].items():
        try:
            compiled[name] = QueryHandler(q)
        except ValueError:
            r["v"][name] = r["vs"][name] = r["vr"][name] = "ValueError"
        except Exception as e:  # noqa
            r["v"][name] = r["vs"][name] = r["vr"][name] = "exn:" + type(e).__name__

    def probe(obj):     # searches made BEFORE the annotation reaches its final content (history must not matter)
        for h in compiled.values():
            try:
                h.search(obj)
            except Exception:  # noqa
                pass
    try:
        hs = build_object(case["tree"], route, probe)
        text = str(hs)
        if route["kind"] == "parse":
            tree2, stree2 = case["tree"], case["stree"]
        else:
            tree2 = parse_text(text)
            stree2 = shuffle_tree(random.Random(case.get("shuf_seed", 0)), tree2)
            if not tree2:
                raise ValueError("empty annotation")
        hs2 = HedString(ann_text(stree2), schema())
        hsr = HedString(text, schema())
    except Exception as e:  # noqa
        r["problems"].append(("harness-build", f"{route}: {type(e).__name__}: {e}"))
        return r
    r["tree2"], r["stree2"], r["text"] = tree2, stree2, text
    txt0, shape0 = str(hs), shape(hs)
    handlers, names = [], []
    for name, h in compiled.items():
        q = case["queries"][name]
        try:
            v1 = bool(h.search(hs))
            v2 = bool(h.search(hs))
            v3 = bool(QueryHandler(q).search(hs))
            if not (v1 == v2 == v3):
                r["problems"].append(("repeated-search", f"{name}: {v1} {v2} {v3}"))
            r["v"][name] = v1
            r["vs"][name] = bool(h.search(hs2))
            r["vr"][name] = bool(h.search(hsr))
            handlers.append(h)
            names.append(name)
        except Exception as e:  # noqa
            r["v"][name] = r["vs"][name] = r["vr"][name] = "exn:" + type(e).__name__
    if str(hs) != txt0 or shape(hs) != shape0:
        r["problems"].append(("search-pure", f"{txt0!r} -> {str(hs)!r}"))
    if handlers:
        try:
            df = search_hed_objs([hs, hs2], handlers, names)
            for n in names:
                if bool(df.at[0, n]) != r["v"][n] or bool(df.at[1, n]) != r["vs"][n]:
                    r["problems"].append(("batch-agrees", n))
        except Exception as e:  # noqa
            r["problems"].append(("batch-agrees", "raised " + type(e).__name__))
    return r


# ---------------------------------------------------------------- the batch entry point, row by row
# batch = {"rows": [annotation text | "" | None, ...], "queries": [query text, ...]}

def impl_batch(batch):
    """query_service.get_query_handlers + search_hed_objs on a list of annotations that may hold None / empty
    entries anywhere; returns the frame as a matrix, and the single-annotation answer of every (row, query)."""
    from hed.models.hed_string import HedString
    from hed.models.query_handler import QueryHandler
    from hed.models.query_service import get_query_handlers, search_hed_objs
    r = {"problems": []}
    try:
        names = [f"q{j}" for j in range(len(batch["queries"]))]
        handlers, names2, issues = get_query_handlers(list(batch["queries"]), names)
        if issues or list(names2) != names or any(h is None for h in handlers):
            r["problems"].append(f"get_query_handlers: issues={issues} names={names2}")
            return r
        objs = [None if t is None else HedString(t, schema()) for t in batch["rows"]]
        df = search_hed_objs(objs, handlers, names)
        r["shape"] = list(df.shape)
        r["index"] = [int(i) for i in df.index]
        r["columns"] = list(df.columns)
        r["frame"] = [[int(df.at[i, n]) for n in names] for i in range(len(objs))]
        single = []
        for t in batch["rows"]:
            if not t:
                single.append([0] * len(names))    # documented: empty entries or None entries are 0's
            else:
                hs = HedString(t, schema())
                single.append([1 if QueryHandler(q).search(hs) else 0 for q in batch["queries"]])
        r["single"] = single
    except Exception as e:  # noqa
        r["problems"].append(f"raised {type(e).__name__}: {e}")
    return r


def gen_batches(rng, cases, n):
    """Lists of 1..6 annotations taken from the cases, with None / empty entries inserted at random positions
    (also first and last), and 1..4 compiled queries; plus a systematic sweep: one None / empty entry at every
    position of a short list."""
    pool = [c for c in cases if c["route"]["kind"] == "parse"]
    out = []

    def queries_of(c):
        names = [k for k in ("A", "B", "C", "A||B", "A&&B") if not q_rejected(c["qast"][k])]
        rng.shuffle(names)
        return names[:rng.randint(1, 4)]
    for _ in range(n):
        qc = rng.choice(pool)
        qn = queries_of(qc)
        if not qn:
            continue
        rows = [(c["ann"], c["tree"]) for c in (rng.choice(pool) for _ in range(rng.randint(1, 6)))]
        for _ in range(rng.choice([0, 1, 1, 2, 2, 3])):
            rows.insert(rng.randrange(len(rows) + 1), (rng.choice([None, ""]), None))
        out.append({"rows": [t for t, _ in rows], "trees": [tr for _, tr in rows],
                    "queries": [qc["queries"][k] for k in qn], "qast": [qc["qast"][k] for k in qn]})
    for _ in range(max(3, n // 12)):
        qc = rng.choice(pool)
        qn = queries_of(qc)
        if not qn:
            continue
        base = [(c["ann"], c["tree"]) for c in (rng.choice(pool) for _ in range(3))]
        for pos in range(len(base) + 1):
            for hole in (None, ""):
                rows = base[:pos] + [(hole, None)] + base[pos:]
                out.append({"rows": [t for t, _ in rows], "trees": [tr for _, tr in rows],
                            "queries": [qc["queries"][k] for k in qn], "qast": [qc["qast"][k] for k in qn]})
    return out


def check_batch(b, r, res, stats):
    """Row i / column j of the frame = the answer of query j on annotation i alone (0 for None / empty), and = the
    set semantics of the statement on that annotation."""
    case = {"batch_rows": b["rows"], "batch_queries": b["queries"]}

    def fail(detail):
        stats["oracle_failures"] += 1
        res.report("batch-row-by-row", case, detail)
    if r["problems"]:
        fail("; ".join(r["problems"]))
        return
    nq = len(b["queries"])
    if r["shape"] != [len(b["rows"]), nq] or r["index"] != list(range(len(b["rows"]))) or \
            r["columns"] != [f"q{j}" for j in range(nq)]:
        fail(f"frame shape/index/columns {r['shape']} {r['index']} {r['columns']}")
        return
    for i, row in enumerate(b["rows"]):
        want = [0] * nq if not row else [1 if set_verdict(tup(q), list(tup(b["trees"][i]))) else 0 for q in b["qast"]]
        if r["frame"][i] != r["single"][i] or r["frame"][i] != want:
            fail(f"row {i} ({row!r}): frame {r['frame'][i]}, each query on this annotation alone {r['single'][i]}, "
                 f"set semantics {want}")
            return


def impl_compile(q):
    from hed.models.query_handler import QueryHandler
    try:
        QueryHandler(q)
        return "ok"
    except ValueError:
        return "ValueError"
    except Exception as e:  # noqa
        return "exn:" + type(e).__name__


# ---------------------------------------------------------------- grouping balance (independent)

def balanced(q):
    st = []
    pair = {")": "(", "]": "[", "}": "{"}
    for c in q:
        if c in "([{":
            st.append(c)
        elif c in ")]}":
            if not st or st.pop() != pair[c]:
                return False
    return not st


TOKEN_RE = re.compile(r'\[\[|\]\]|&&|\|\||\?+|[\[\](){}:~,]|["_\-a-zA-Z0-9/.^#*@]+')


def stray_closer_class(q):
    """Class of C15-F2: reading every closing symbol (or '[[' / ']]') that stands where an operand is expected
    as a plain word leaves a text whose grouping symbols are balanced."""
    toks = TOKEN_RE.findall(q)
    out = []
    hit = False
    prev = None
    for t in toks:
        operand_pos = prev is None or prev in ("(", "[", "{", "&&", "||", ",", "~", ":")
        if t == "}" and prev == ":":
            operand_pos = False      # '}' directly after ':' closes the group
        if operand_pos and t in (")", "]", "}", "]]", "[["):
            out.append("w")
            hit = True
            prev = "w"
        else:
            out.append(t)
            prev = t if t in ("(", "[", "{", "&&", "||", ",", "~", ":", ")", "]", "}") else "w"
    return hit and balanced("".join(x for x in out if x in ("(", ")", "[", "]", "{", "}")))


SOUP = ["(", ")", "[", "]", "{", "}", ":", "~", "&&", "||", ",", "?", "??", "???", "Red", "Event", '"Red"', "Sens*",
        "Label/abc", "@Red", "[[", "]]", " ", "&", "|", "????", "!", "a b", '"', "*"]


def gen_soup(rng, n):
    out = []
    for _ in range(n):
        k = rng.randint(0, 9)
        out.append(rng.choice(["", " "]).join(rng.choice(SOUP) for _ in range(k)))
    return out


def gen_near_valid(rng, n):
    """A valid query text with one token deleted / duplicated / replaced (mostly unbalanced groupers)."""
    out = []
    for _ in range(n):
        toks = TOKEN_RE.findall(q_text(gen_query(rng, rng.randint(1, 4))))
        if not toks:
            continue
        i = rng.randrange(len(toks))
        x = rng.random()
        if x < 0.4:
            del toks[i]
        elif x < 0.6:
            toks.insert(i, toks[i])
        elif x < 0.9:
            toks[i] = rng.choice(SOUP[:14])
        else:
            toks.insert(i, rng.choice(SOUP[:11]))
        out.append(" ".join(toks))
    return out


# ---------------------------------------------------------------- cases

F1_WITNESS = {"ann": [("G", [("T", "Red"), ("T", "Blue")]), ("G", [("T", "Red"), ("T", "Blue")])],
              "shuf": [("G", [("T", "Red"), ("T", "Blue")]), ("G", [("T", "Blue"), ("T", "Red")])],
              "A": ("desc", ("and", "&&", ("not", ("term", "Green")), ("not", ("term", "Item")))),
              "B": ("desc", ("and", "&&", ("not", ("term", "Green")), ("not", ("term", "Item")))),
              "C": ("term", "Red")}


def make_case(rng, depth_a=None, depth_q=None, fixed=None):
    if fixed:
        ann, shuf, A, B, Cq = fixed["ann"], fixed["shuf"], fixed["A"], fixed["B"], fixed["C"]
    else:
        ann = gen_children(rng, rng.randint(0, 4) if depth_a is None else depth_a, top=True)
        shuf = shuffle_tree(rng, ann)
        d = rng.randint(0, 3) if depth_q is None else depth_q
        focus = focus_atoms(rng, ann) if rng.random() < 0.5 else None
        A, B, Cq = gen_query(rng, d, True, focus), gen_query(rng, d, True, focus), gen_query(rng, max(d - 1, 0), True, focus)
    qs = {"A": A, "B": B, "C": Cq,
          "A&&B": ("and", "&&", A, B), "B&&A": ("and", "&&", B, A), "A||B": ("or", A, B),
          "(A&&B)&&C": ("and", "&&", ("and", "&&", A, B), Cq), "A&&(B&&C)": ("and", "&&", A, ("and", "&&", B, Cq))}
    route = (fixed or {}).get("route") or ({"kind": "parse"} if fixed else gen_route(rng, ann))
    return {"tree": ann, "stree": shuf, "ann": ann_text(ann), "shuf": ann_text(shuf), "qast": qs,
            "route": route, "shuf_seed": rng.randrange(1 << 30), "base_tree": ann,
            "queries": {k: q_text(v) for k, v in qs.items()}}


def adopt_built(case, r):
    """After the implementation run: the content of a built / edited annotation is what the object printed."""
    if "tree2" in r:
        case["tree"], case["stree"] = list(tup(r["tree2"])), list(tup(r["stree2"]))
        case["ann"], case["shuf"] = ann_text(case["tree"]), ann_text(case["stree"])


def f1_class(case, name):
    """C15-F1: a negation ('~') in the query and two distinct groups with equal content (same order) in the
    annotation or in its reordering."""
    return q_has(case["qast"][name], ("not",)) and (has_equal_groups(case["tree"]) or has_equal_groups(case["stree"]))


def stale_route(case):
    """The object was built by expand_defs() (not shrunk back) and the tree under test lacks fix commit c19994c."""
    rt = case.get("route") or {}
    return (not FIXED_F4) and rt.get("kind") == "expand" and not rt.get("shrink")


def q_bare_terms(q):
    if q[0] == "term":
        return {q[1].casefold()}
    out = set()
    for x in q[1:]:
        if isinstance(x, tuple):
            out |= q_bare_terms(x)
    return out


def f4_class(case, name, r):
    """C15-F4: the annotation object went through expand_defs(), the query has the bare term Def or Def-expand, and
    the three verdicts are exactly those of a Def-expand tag that kept Def's schema path: object = set semantics with
    the stale terms, re-parsed text and reordering (parsed) = set semantics with the true terms."""
    if not stale_route(case) or not (q_bare_terms(case["qast"][name]) & {"def", "def-expand"}):
        return False
    q = case["qast"][name]
    return (r["v"].get(name) == set_verdict(q, case["tree"], stale=True)
            and r["vs"].get(name) == set_verdict(q, case["stree"])
            and r.get("vr", {}).get(name) == set_verdict(q, case["tree"]))


def check_case(case, r, res, stats):
    """Implementation-side oracle: every clause of the statement on the implementation's verdicts."""
    v, vs = r["v"], r["vs"]
    base = {"annotation": case["ann"], "reordered": case["shuf"], "queries": case["queries"],
            "built_by": case.get("route", {"kind": "parse"}), "built_from": ann_text(case.get("base_tree", case["tree"])),
            "replay_case": {"tree": case.get("base_tree", case["tree"]), "stree": case["stree"], "qast": case["qast"],
                            "route": case.get("route", {"kind": "parse"}), "shuf_seed": case.get("shuf_seed", 0)}}

    def rep(clause, name, detail, f1_ok=False):
        fid = "C15-F1" if (not FIXED and f1_ok and f1_class(case, name)) else None
        if fid is None and clause in ("sibling-order", "built-annotation-equals-reparsed", "documented-semantics",
                                      "documented-semantics-term-modes") and f4_class(case, name, r):
            fid = "C15-F4"
        stats["oracle_failures"] += 1
        res.report(clause, dict(base, query=case["queries"].get(name, name)), detail, fid=fid)
    for clause, detail in r["problems"]:
        rep(clause, "A", detail)
    for name, q in case["qast"].items():
        x = v.get(name)
        if isinstance(x, str) and x.startswith("exn:"):
            rep("never-raises", name, x)
            continue
        if x == "ValueError":
            if not q_rejected(q):
                rep("well-formed-query-compiles", name, "ValueError")
            continue
        if q_rejected(q):
            rep("documented-rejection", name, "compiled")
            continue
        if vs[name] != x:
            rep("sibling-order", name, f"{x} vs reordered {vs[name]}", f1_ok=True)
        if r.get("vr", {}).get(name, x) != x:
            rep("built-annotation-equals-reparsed", name,
                f"on the object built by {case.get('route', {}).get('kind')}: {x}; on the same annotation parsed from "
                f"its own text {case['ann']!r}: {r['vr'][name]}")
        for tree, got, tag in ((case["tree"], x, ""), (case["stree"], vs[name], " (reordered)")):
            want = set_verdict(q, tree)
            if want != got:
                rep("documented-semantics" + ("-term-modes" if q[0] in ("term", "quoted", "exact", "star") else ""),
                    name, f"implementation {got}, set semantics {want}{tag}", f1_ok=True)
    ok = all(isinstance(v.get(n), bool) for n in case["qast"])
    if not ok:
        return
    for d, tag in ((v, ""), (vs, " (reordered)")):
        if d["A||B"] != (d["A"] or d["B"]):
            rep("or-iff", "A||B", f"A={d['A']} B={d['B']} A||B={d['A||B']}{tag}")
        if d["A&&B"] != d["B&&A"]:
            rep("and-symmetric", "A&&B", f"A&&B={d['A&&B']} B&&A={d['B&&A']}{tag}", f1_ok=True)
        if d["A&&B"] and not (d["A"] and d["B"]):
            rep("and-implies-both", "A&&B", f"A={d['A']} B={d['B']}{tag}")
        if d["(A&&B)&&C"] != d["A&&(B&&C)"]:
            rep("and-associative", "(A&&B)&&C", f"{d['(A&&B)&&C']} vs {d['A&&(B&&C)']}{tag}", f1_ok=True)


def nesting(q):
    d = m = 0
    for c in q:
        if c in "([{":
            d += 1
            m = max(m, d)
        elif c in ")]}":
            d -= 1
    return m


def deep_class(q, got):
    """Class of C15-F3: RecursionError on a text with at least 200 nested opening symbols."""
    return got == "exn:RecursionError" and nesting(q) >= 200


def check_compile(q, got, res, stats):
    case = {"query": q}
    if got.startswith("exn:"):
        stats["oracle_failures"] += 1
        res.report("compile-or-valueerror", case, got, fid="C15-F3" if (not FIXED and deep_class(q, got)) else None)
    elif got == "ok" and not balanced(q):
        stats["oracle_failures"] += 1
        res.report("unbalanced-rejected", case, "compiled",
                   fid="C15-F2" if (not FIXED and stray_closer_class(q)) else None)


def run(tier, seed, res, model_ok=True, proof_ok=True):
    rng = random.Random(seed)
    schema_paths()
    quick = tier == "quick"
    n_cases = 1300 if quick else 25000
    n_soup = 5000 if quick else 50000
    if not proof_ok:
        n_cases *= 2
        n_soup *= 2
    cases = [make_case(rng, fixed=F1_WITNESS)]
    # a value is not a node of the schema path (regressions)
    for ann, A, B, Cq in [
            ([("T", "Label/Red")], ("term", "Red"), ("quoted", "Label/Red"), ("star", "Lab")),
            ([("T", "Def/Face")], ("term", "Face"), ("term", "Def"), ("star", "Def/")),
            ([("T", "Sensory-event"), ("G", [("T", "Label/Item"), ("T", "Blue")])], ("term", "Item"), ("term", "Object"),
             ("term", "Label")),
            ([("T", "Label/Red"), ("T", "Blue")], ("term", "Red"), ("term", "Blue"), ("exact", "Label/Red")),
            ([("T", "Label/a/Red"), ("T", "Item/Redish")], ("term", "Red"), ("term", "Redish"), ("star", "Label/a/")),
            ([("T", "Red-color/Event")], ("term", "Event"), ("term", "Red-color"), ("quoted", "Red-color/Event"))]:
        cases.append(make_case(rng, fixed={"ann": ann, "shuf": shuffle_tree(rng, ann), "A": A, "B": B, "C": Cq}))
    # annotations built / edited through the API: what was added afterwards must be visible to every term mode
    base = [("T", "Sensory-event"), ("G", [("T", "Green"), ("T", "Object")]), ("T", "Label/abd")]
    for route in [{"kind": "expand", "n": 2, "seed": 1}, {"kind": "placeholder", "n": 1, "seed": 2},
                  {"kind": "edits", "ops": [["append", [1], ("T", "Red")]], "search_between": True, "then": None},
                  {"kind": "edits", "ops": [["replace", [1, 0], ("T", "Red")], ["remove", [2]]], "search_between": False,
                   "then": "contents"},
                  {"kind": "contents", "fresh_tags": True}, {"kind": "from_strings", "cuts": [1]}, {"kind": "sorted"}]:
        cases.append(make_case(rng, fixed={"ann": base, "shuf": base, "A": ("quoted", "Red"), "B": ("star", "Label/ab"),
                                           "C": ("exact", "Label/abc"), "route": route}))
    # witness of C15-F4 (kept as a regression after the fix)
    cases.append(make_case(rng, fixed={"ann": [("T", "Green")], "shuf": [("T", "Green")], "A": ("term", "Def"),
                                       "B": ("term", "Def-expand"), "C": ("star", "Def-e"),
                                       "route": {"kind": "expand", "n": 1, "seed": 3}}))
    # exhaustive small layer: every spelling of a tag (alone, or alone in a group) x every atomic query
    atoms = ([("term", t) for t in sorted(set(BARE))] + [("quoted", t) for t in QUOTED] + [("exact", t) for t in SLASH]
             + [("star", t) for t in STAR])
    while len(atoms) % 3:
        atoms.append(("term", "Red"))
    n_exh = 0
    for si, text in enumerate(sorted(FORMS)):
        for k in range(0, len(atoms), 3):
            ann = [("T", text)] if (si + k // 3) % 2 == 0 else [("G", [("T", text)])]
            cases.append(make_case(rng, fixed={"ann": ann, "shuf": ann, "A": atoms[k], "B": atoms[k + 1],
                                               "C": atoms[k + 2]}))
            n_exh += 1
    # exhaustive small layer: every atom x every single-tag / two-tag annotation is covered by volume; plus random
    for _ in range(n_cases):
        cases.append(make_case(rng))
    soup_corpus = [")", "]", "}", "a && )", "{)}", "(])", "{}}", "[[", "]]", "(", "(a", "a)", "((a)", "(a))", "{a]", "[a}",
                   "", "a b", "~?", "{~a:}", "{a:b}", "{a:}", "&&", ":", "{:}", "~~", "????", "@a", "a || || b",
                   "(" * 50 + "a" + ")" * 50, "[[a]]", "{a:b:c}", "{a && }:}", "(" * 300 + "a" + ")" * 300]
    soup = soup_corpus + gen_soup(rng, n_soup // 2) + gen_near_valid(rng, n_soup // 2)
    soup += [c["queries"][k] for c in cases[:400] for k in ("A", "A&&B")]

    stats = {"oracle_failures": 0}
    with Pool(int(C.JOBS)) as pool:
        impl = pool.map(impl_search_case, [{"tree": c["tree"], "stree": c["stree"], "route": c["route"],
                                            "shuf_seed": c["shuf_seed"], "queries": c["queries"]} for c in cases],
                        chunksize=50)
        impl_c = pool.map(impl_compile, soup, chunksize=500)
        batches = gen_batches(rng, cases, 240 if quick else 4000)
        impl_b = pool.map(impl_batch, [{"rows": b["rows"], "queries": b["queries"]} for b in batches], chunksize=20)

    for c, r in zip(cases, impl):
        adopt_built(c, r)
        check_case(c, r, res, stats)
    for b, r in zip(batches, impl_b):
        check_batch(b, r, res, stats)
    for q, got in zip(soup, impl_c):
        check_compile(q, got, res, stats)

    disagreements = 0
    pairs = 0
    edited_pairs = 0
    if model_ok:
        exe = C.build_driver("c15")
        lines, index = [], []
        for ci, c in enumerate(cases):
            mt, ms = model_tree(c["tree"], stale=stale_route(c)), model_tree(c["stree"])
            for name, q in c["queries"].items():
                lines.append(C.to_sx(["S", FIXED, MODEL_DEPTH, C.cps(q), mt]))
                index.append((ci, name, "v"))
                lines.append(C.to_sx(["S", FIXED, MODEL_DEPTH, C.cps(q), ms]))
                index.append((ci, name, "vs"))
        n_plain = len(lines)
        # edited annotations once more: the model applies the edits itself (append / replace) to the parsed base tree
        for ci, c in enumerate(cases):
            steps = model_steps(c["route"], c["queries"]["A"])
            if steps is None or "tree2" not in impl[ci]:
                continue
            mb = model_tree(c["base_tree"])
            for name, q in c["queries"].items():
                lines.append(C.to_sx(["E", FIXED, MODEL_DEPTH, C.cps(q), mb, steps]))
                index.append((ci, name, "v"))
        out = C.run_driver(exe, lines)
        pairs = len(lines)
        edited_pairs = len(lines) - n_plain
        for (ci, name, which), m in zip(index, out):
            got = impl[ci][which].get(name)
            if m[0] == "ok":
                mv = m[1] == "1"
            elif m[0] == "exn":
                mv = m[1]
            else:
                mv = "model-error:" + str(m)
            if mv != got:
                disagreements += 1
                c = cases[ci]
                res.violation("correspondence", {"annotation": c["ann"] if which == "v" else c["shuf"],
                                                 "query": c["queries"][name]},
                              f"model={mv} implementation={got}", no_input=True)
        outc = C.run_driver(exe, [C.to_sx(["C", FIXED, MODEL_DEPTH, C.cps(q)]) for q in soup])
        for q, m, got in zip(soup, outc, impl_c):
            mv = "ok" if m[0] == "ok" else (m[1] if m[0] == "exn" else "model-error:" + str(m))
            mb = (m[2] if m[0] == "ok" else m[2] if m[0] == "exn" else None)
            if nesting(q) >= 200:
                continue   # the interpreter's actual recursion limit is not modelled; outcome checked by the oracle
            if mv != got or (mb is not None and (mb == "1") != balanced(q)):
                disagreements += 1
                res.violation("correspondence", {"query": q}, f"model={m} implementation={got} balanced={balanced(q)}",
                              no_input=True)

    nontrivial = set()
    hist = {"ann_depth": {}, "query_depth": {}, "verdict": {"match": 0, "no-match": 0, "rejected": 0},
            "equal_groups": 0, "soup_balanced": sum(1 for q in soup if balanced(q)),
            "soup_unbalanced": sum(1 for q in soup if not balanced(q)),
            "soup_compiled": sum(1 for g in impl_c if g == "ok")}
    for c, r in zip(cases, impl):
        d = depth_of(c["tree"])
        hist["ann_depth"][d] = hist["ann_depth"].get(d, 0) + 1
        if has_equal_groups(c["tree"]):
            hist["equal_groups"] += 1
        for name, q in c["qast"].items():
            qd = q_depth(q)
            hist["query_depth"][qd] = hist["query_depth"].get(qd, 0) + 1
            x = r["v"].get(name)
            hist["verdict"]["rejected" if not isinstance(x, bool) else "match" if x else "no-match"] += 1
            if qd >= 2 and d >= 1:
                nontrivial.add((c["ann"], c["queries"][name]))
        hist.setdefault("route", {})
        hist["route"][c["route"]["kind"]] = hist["route"].get(c["route"]["kind"], 0) + 1
    return {
        "evaluations": len(cases) * len(cases[0]["queries"]) * 3 + len(soup),
        "distinct_nontrivial": len(nontrivial),
        "rule": "corpus (refuted witnesses, parser regressions, value-spelled-like-a-term cases) + random annotations "
                "(depth 0-4 over 37 spellings of 12 HED 8.3.0 tags incl. values/extensions spelled like schema terms) x query triples A,B,C generated from the grammar (depth 0-3, the combined queries "
                "reach depth 5), each evaluated on the annotation and on a random sibling reordering; + token soup and "
                "near-valid (one token deleted/duplicated/replaced) query texts for the compile clause; non-trivial = "
                "distinct (annotation, query) with a nested annotation and a compound query",
        "samples": [{"annotation": cases[i]["ann"], "query": cases[i]["queries"]["A&&B"]} for i in (0, 1, 2)] + soup[40:43],
        "exhaustive": False,
        "exhaustive_layer": f"{len(FORMS)} tag spellings x {len(atoms)} atomic queries (all three term modes), "
                            f"{n_exh} cases",
        "disagreements_checked": disagreements,
        "correspondence_cases": pairs + (len(soup) if model_ok else 0),
        "correspondence_edit_histories": edited_pairs if model_ok else 0,
        "oracle_failures": stats["oracle_failures"],
        "histogram": hist,
        "batches": {"count": len(batches), "rows": sum(len(b["rows"]) for b in batches),
                    "with_hole_before_annotation": sum(
                        1 for b in batches if any(not t and any(b["rows"][k] for k in range(i + 1, len(b["rows"])))
                                                  for i, t in enumerate(b["rows"])))},
        "fixed_semantics": bool(FIXED),
        "fixed_F4": bool(FIXED_F4),
    }


def tup(x):
    return tuple(tup(y) for y in x) if isinstance(x, (list, tuple)) else x


def replay(payload):
    case = payload.get("case") or {}
    res = C.Result(PROP)
    res.known_ids = {}
    if "batch_rows" in case:
        b = {"rows": case["batch_rows"], "queries": case["batch_queries"]}
        r = impl_batch(b)
        print("queries:", b["queries"])
        bad = bool(r["problems"])
        for i, row in enumerate(b["rows"]):
            fr = r.get("frame", [None] * len(b["rows"]))[i]
            sg = r.get("single", [None] * len(b["rows"]))[i]
            print(f"  row {i} {row!r}: frame {fr} / alone {sg}" + ("   <-- differs" if fr != sg else ""))
            bad = bad or fr != sg
        print("problems:", r["problems"])
        return 1 if bad else 0
    if "replay_case" in case:
        rc = case["replay_case"]
        tree, stree = list(tup(rc["tree"])), list(tup(rc["stree"]))
        qast = {k: tup(v) for k, v in rc["qast"].items()}
        route = rc.get("route") or {"kind": "parse"}
        c = {"tree": tree, "stree": stree, "ann": ann_text(tree), "shuf": ann_text(stree), "qast": qast, "route": route,
             "shuf_seed": rc.get("shuf_seed", 0), "base_tree": tree,
             "queries": {k: q_text(v) for k, v in qast.items()}}
        r = impl_search_case({"tree": tree, "stree": stree, "route": route, "shuf_seed": c["shuf_seed"],
                              "queries": c["queries"]})
        print("built from:", c["ann"], "by", route)
        adopt_built(c, r)
        check_case(c, r, res, {"oracle_failures": 0})
        print("annotation:", c["ann"])
        print("reordered :", c["shuf"])
        for k, q in c["queries"].items():
            print(f"  {k:10s} {q!r}: {r['v'].get(k)} / reordered {r['vs'].get(k)}")
        for v in res.violations:
            print("FAILS:", v["clause"], "|", v["case"].get("query"), "|", v["detail"])
        return 1 if res.violations else 0
    if "annotation" in case and "query" in case:
        from hed.models.hed_string import HedString
        from hed.models.query_handler import QueryHandler
        out = {}
        for k in ("annotation", "reordered"):
            if k in case:
                try:
                    out[k] = bool(QueryHandler(case["query"]).search(HedString(case[k], schema())))
                except Exception as e:  # noqa
                    out[k] = type(e).__name__
        print("query:", case["query"])
        for k, v in out.items():
            print(f"  {k}: {case[k]!r} -> {v}")
        print("clause:", payload.get("clause"), "detail:", payload.get("detail"))
        if payload.get("clause") == "sibling-order":
            return 1 if out.get("annotation") != out.get("reordered") else 0
        return 1
    if "query" in case:
        got = impl_compile(case["query"])
        print("query:", repr(case["query"]), "->", got, "balanced:", balanced(case["query"]))
        return 1 if (got.startswith("exn:") or (got == "ok" and not balanced(case["query"]))) else 0
    print("no concrete input in replay:", str(payload.get("detail", ""))[:500])
    return 1
