"""Claimed properties and their manifest texts.  MANIFEST.json is generated from this
(python -m harness.manifest) so that it is always valid."""

CLAIMED = {
    "C02": {
        "technique": "Coq proof (induction over the scanner state machine + kernel-evaluated exhaustive bound) "
                     "with OCaml-extracted model differential against the implementation",
        "text": "Machine-checked theorems over a Gallina transcription of split_hed_string/split_into_groups/__init__ "
                "and the parenthesis check, for ALL strings (induction over the scanner state machine and a token-level "
                "simulation): never raises; the tree equals the character-level specification (one tag per maximal "
                "trimmed run, spans, nesting = parenthesis nesting, group spans); unbalanced => empty tree; mismatch "
                "reported iff unbalanced. Print/re-parse equality is proved exhaustively for every string over the "
                "delimiter alphabet up to length 7 inside the kernel (bounded, as the property's quantifier allows). "
                "The model is tied to /repo by running the extracted model and the implementation on the same ~62k "
                "(quick) / ~750k (thorough) strings.",
        "note": "Trusted: Coq kernel+vm_compute, ExtrOcamlBasic extraction, hand transcription validated by "
                "correspondence (testing); short/long-form re-parse checked on the implementation only.",
        "design_ref": "DESIGN.md section 7 C02",
    },
}

NOT_APPLICABLE = {}
