"""Claimed properties and their manifest texts: one JSON file per property in harness/registry.d/
(keys: technique, text, note, design_ref[, category]).  MANIFEST.json is generated from these
(python -m harness.manifest) so that it is always valid."""
import glob
import json
import os

_D = os.path.join(os.path.dirname(os.path.abspath(__file__)), "registry.d")
CLAIMED = {}
for _p in sorted(glob.glob(os.path.join(_D, "C*.json"))):
    CLAIMED[os.path.basename(_p)[:-5]] = json.load(open(_p))

NOT_APPLICABLE = {}
