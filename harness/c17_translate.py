"""T5 -- translate the PARAMS JSON-schema literals and the parameter accesses of the eight
non-summary remodeling operations into coq/Gen/RemodelParams.v.  Fail closed: any source
shape that is not recognised raises TranslateError (reported by ./check as a broken tie)."""
import ast
import os

from harness import common as C

OPS = ["remove_rows", "remove_columns", "rename_columns", "reorder_columns",
       "factor_column", "remap_columns", "merge_consecutive", "split_rows"]

SCHEMA_KEYS = {"type", "properties", "patternProperties", "required", "additionalProperties",
               "dependentRequired", "items", "minItems", "uniqueItems", "minProperties", "description"}
JTYPES = {"string": "TString", "number": "TNumber", "boolean": "TBoolean", "array": "TArray", "object": "TObject"}


class TranslateError(Exception):
    pass


def coq_str(s):
    if not isinstance(s, str):
        raise TranslateError(f"string expected: {s!r}")
    if "*)" in s or "(*" in s:
        raise TranslateError("comment delimiter in literal")
    return "[" + ";".join(str(ord(c)) for c in s) + "]"


def ident(s):
    out = "".join(c if c.isalnum() else "_" for c in s)
    if not out or not out.isascii():
        raise TranslateError(f"cannot make identifier from {s!r}")
    return out


def coq_list(items):
    return "[" + "; ".join(items) + "]"


class Keys:
    def __init__(self):
        self.seen = []

    def k(self, s):
        if s not in self.seen:
            self.seen.append(s)
        return "k_" + ident(s)


def schema_term(d, keys, depth=0):
    if not isinstance(d, dict):
        raise TranslateError(f"schema node is not a dict: {d!r}")
    extra = set(d) - SCHEMA_KEYS
    if extra:
        raise TranslateError(f"unsupported JSON-schema keyword(s) {sorted(extra)}")
    ty = d.get("type", [])
    if isinstance(ty, str):
        ty = [ty]
    if not isinstance(ty, list) or any(t not in JTYPES for t in ty):
        raise TranslateError(f"unsupported type {ty!r}")
    types = coq_list([JTYPES[t] for t in ty])
    props = d.get("properties", {})
    if not isinstance(props, dict):
        raise TranslateError("properties must be a dict")
    pad = "  " * (depth + 2)
    props_t = coq_list([f"\n{pad}({keys.k(k)}, {schema_term(v, keys, depth + 1)})" for k, v in props.items()])
    pat = d.get("patternProperties")
    if pat is None:
        pat_t = "None"
    else:
        if not isinstance(pat, dict) or list(pat) != [".*"]:
            raise TranslateError(f"only patternProperties {{'.*': ...}} is supported: {pat!r}")
        pat_t = f"(Some ({schema_term(pat['.*'], keys, depth + 1)}))"
    req = d.get("required", [])
    if not isinstance(req, list) or any(not isinstance(x, str) for x in req):
        raise TranslateError("required must be a list of strings")
    req_t = coq_list([keys.k(k) for k in req])
    ap = d.get("additionalProperties", True)
    if ap not in (True, False):
        raise TranslateError("additionalProperties must be a boolean")
    dep = d.get("dependentRequired", {})
    if not isinstance(dep, dict) or any(not isinstance(v, list) for v in dep.values()):
        raise TranslateError("dependentRequired must map to lists")
    dep_t = coq_list([f"({keys.k(k)}, {coq_list([keys.k(x) for x in v])})" for k, v in dep.items()])
    it = d.get("items")
    it_t = "None" if it is None else f"(Some ({schema_term(it, keys, depth + 1)}))"
    for nk in ("minItems", "minProperties"):
        if not isinstance(d.get(nk, 0), int) or isinstance(d.get(nk, 0), bool) or not (0 <= d.get(nk, 0) < 100):
            raise TranslateError(f"{nk} must be a small integer")
    if d.get("uniqueItems", False) not in (True, False):
        raise TranslateError("uniqueItems must be boolean")
    return (f"Sch {types} {props_t} {pat_t} {req_t} {'true' if ap else 'false'} {dep_t} {it_t} "
            f"{d.get('minItems', 0)} {'true' if d.get('uniqueItems', False) else 'false'} {d.get('minProperties', 0)}")


def default_term(node):
    if isinstance(node, ast.Constant):
        v = node.value
        if v is None:
            return "JNull"
        if isinstance(v, bool):
            return f"(JBool {'true' if v else 'false'})"
        if isinstance(v, int):
            return f"(JNum ({v})%Z)"
        if isinstance(v, str):
            return f"(JStr {coq_str(v)})"
    if isinstance(node, ast.List) and not node.elts:
        return "(JArr [])"
    if isinstance(node, ast.Dict) and not node.keys:
        return "(JObj [])"
    raise TranslateError(f"unsupported default value: {ast.dump(node)}")


def accesses(func, var, allow_calls=()):
    """All uses of the name `var` inside `func`, in source order: ('req', key) for var['key'],
    ('opt', key, default) for var.get('key', default).  Any other use raises."""
    out = []
    parents = {}
    for n in ast.walk(func):
        for ch in ast.iter_child_nodes(n):
            parents[ch] = n
    names = [n for n in ast.walk(func) if isinstance(n, ast.Name) and n.id == var]
    names.sort(key=lambda n: (n.lineno, n.col_offset))
    for n in names:
        p = parents.get(n)
        if isinstance(p, ast.Subscript) and p.value is n and isinstance(n.ctx, ast.Load):
            if isinstance(parents.get(p), (ast.Assign, ast.AugAssign)) and p in getattr(parents[p], "targets", [p]):
                raise TranslateError(f"{func.name}: assignment into {var}[...]")
            if not (isinstance(p.slice, ast.Constant) and isinstance(p.slice.value, str)):
                raise TranslateError(f"{func.name}: non-literal subscript of {var}")
            if not isinstance(p.ctx, ast.Load):
                raise TranslateError(f"{func.name}: {var}[...] is stored to or deleted")
            out.append(("req", p.slice.value))
        elif isinstance(p, ast.Attribute) and p.value is n and p.attr == "get":
            call = parents.get(p)
            if not (isinstance(call, ast.Call) and call.func is p and not call.keywords and 1 <= len(call.args) <= 2
                    and isinstance(call.args[0], ast.Constant) and isinstance(call.args[0].value, str)):
                raise TranslateError(f"{func.name}: unsupported {var}.get(...) call")
            d = default_term(call.args[1]) if len(call.args) == 2 else "JNull"
            out.append(("opt", call.args[0].value, d))
        elif isinstance(p, ast.Call) and n in p.args and ast.unparse(p.func) in allow_calls:
            continue
        elif isinstance(n.ctx, ast.Store) and isinstance(p, (ast.For, ast.Tuple)):
            continue   # loop variable binding
        elif isinstance(p, ast.arg):
            continue
        else:
            raise TranslateError(f"{func.name}: unrecognised use of `{var}`: {ast.unparse(p) if p else n.id}")
    # the same key must always be accessed the same way
    seen = {}
    res = []
    for a in out:
        if a[1] in seen:
            if seen[a[1]] != a:
                raise TranslateError(f"{func.name}: key {a[1]!r} accessed in two different ways")
            continue
        seen[a[1]] = a
        res.append(a)
    return res


def fetch_def(name, accs, keys):
    lines = [f"Definition {name} (p : json) : res (list (str * json)) :="]
    for i, a in enumerate(accs):
        if a[0] == "req":
            lines.append(f"  let* v{i} := jget_req p {keys.k(a[1])} in")
        else:
            lines.append(f"  let* v{i} := jget_opt p {keys.k(a[1])} {a[2]} in")
    lines.append("  Ok " + coq_list([f"({keys.k(a[1])}, v{i})" for i, a in enumerate(accs)]) + ".")
    return "\n".join(lines)


def find_class(tree, path):
    cls = [n for n in tree.body if isinstance(n, ast.ClassDef)]
    if len(cls) != 1:
        raise TranslateError(f"{path}: expected exactly one class")
    return cls[0]


def class_assign(cls, name, path):
    for n in cls.body:
        if isinstance(n, ast.Assign) and len(n.targets) == 1 and isinstance(n.targets[0], ast.Name) \
                and n.targets[0].id == name:
            return n.value
    raise TranslateError(f"{path}: no class attribute {name}")


def method(cls, name, path):
    for n in cls.body:
        if isinstance(n, ast.FunctionDef) and n.name == name:
            return n
    raise TranslateError(f"{path}: no method {name}")


def generate(repo=None):
    repo = repo or C.REPO
    opdir = os.path.join(repo, "hed/tools/remodeling/operations")
    keys = Keys()
    for base in ("operation", "description", "parameters"):
        keys.k(base)
    # valid_operations: names -> class names
    vpath = os.path.join(opdir, "valid_operations.py")
    vtree = ast.parse(open(vpath).read())
    vdict = None
    for n in vtree.body:
        if isinstance(n, ast.Assign) and isinstance(n.targets[0], ast.Name) and n.targets[0].id == "valid_operations":
            vdict = n.value
    if not isinstance(vdict, ast.Dict):
        raise TranslateError("valid_operations is not a dict literal")
    valid = {}
    for k, v in zip(vdict.keys, vdict.values):
        if not (isinstance(k, ast.Constant) and isinstance(k.value, str) and isinstance(v, ast.Name)):
            raise TranslateError("valid_operations entry is not 'name': Class")
        valid[k.value] = v.id
    body = []
    table = []
    for op in OPS:
        path = os.path.join(opdir, f"{op}_op.py")
        tree = ast.parse(open(path).read())
        cls = find_class(tree, path)
        if valid.get(op) != cls.name:
            raise TranslateError(f"valid_operations[{op!r}] is {valid.get(op)!r}, file defines {cls.name}")
        nm = class_assign(cls, "NAME", path)
        if not (isinstance(nm, ast.Constant) and nm.value == op):
            raise TranslateError(f"{path}: NAME is not {op!r}")
        try:
            params = ast.literal_eval(class_assign(cls, "PARAMS", path))
        except ValueError as e:
            raise TranslateError(f"{path}: PARAMS is not a literal: {e}")
        body.append(f"(* {op}: PARAMS *)\nDefinition {op}_schema : schema :=\n  {schema_term(params, keys)}.")
        init = method(cls, "__init__", path)
        if [a.arg for a in init.args.args] != ["self", "parameters"]:
            raise TranslateError(f"{path}: __init__ signature changed")
        accs = accesses(init, "parameters", allow_calls=("super().__init__",))
        body.append(f"(* {op}: parameter accesses of __init__ *)\n" + fetch_def(f"{op}_init", accs, keys))
        if op == "split_rows":
            sp = method(cls, "_split_rows", path)
            eaccs = accesses(sp, "event_params")
            if not eaccs:
                raise TranslateError("split_rows._split_rows no longer reads event_params")
            body.append("(* split_rows: accesses to each new_events entry in _split_rows (at do_op time) *)\n"
                        + fetch_def("split_rows_event_fetch", eaccs, keys))
        table.append(f"(n_{op}, ({op}_schema, {op}_init))")
    head = ["(* GENERATED by harness/c17_translate.py (translator T5) from",
            "   hed/tools/remodeling/operations/{valid_operations,*_op}.py -- do not edit. *)",
            "From Coq Require Import List NArith ZArith.",
            "From HV Require Import Base.Res Base.Str Model.RemodelJson.",
            "Import ListNotations.", "Local Open Scope N_scope.", ""]
    for op in valid:
        head.append(f"Definition n_{ident(op)} : str := {coq_str(op)}. (* {op} *)")
    head.append("")
    head.append("(* keys of valid_operations, in source order *)")
    head.append("Definition valid_operation_names : list str :=\n  " + coq_list([f"n_{ident(op)}" for op in valid]) + ".")
    head.append("")
    kdefs = [f"Definition k_{ident(k)} : str := {coq_str(k)}. (* {k} *)" for k in keys.seen]
    tail = ["", "Definition op_table : list (str * (schema * (json -> res (list (str * json))))) :=\n  "
            + coq_list(["\n   " + t for t in table]) + "."]
    return "\n".join(head + kdefs + [""] + ["\n\n".join(body)] + tail) + "\n"


def translate():
    text = generate()
    C.write_if_changed(os.path.join(C.COQ, "Gen", "RemodelParams.v"), text)
    return text
