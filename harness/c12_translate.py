"""T1: error-kind table and sort-key lists -> coq/Gen/ErrorCodes.v (fail closed).

Sources (read with ast only, hed is not imported):
  hed/errors/error_types.py          class constants (ErrorSeverity, ErrorContext, *Errors)
  hed/errors/error_messages.py       @hed_error / @hed_tag_error registrations
  hed/errors/schema_error_messages.py
  hed/errors/error_reporter.py       default_sort_list, int_sort_list, the "Unknown" registration,
                                     the location-suffix literal
"""
import ast
import os

from harness import common as C

CKEY = {  # ErrorContext attribute -> Coq constructor of Base/IssueTypes.ckey
    "CUSTOM_TITLE": "CTitle", "FILE_NAME": "CFile", "SIDECAR_COLUMN_NAME": "CSidecarCol",
    "SIDECAR_KEY_NAME": "CSidecarKey", "ROW": "CRow", "COLUMN": "CColumn", "LINE": "CLine",
    "HED_STRING": "CHedString", "SCHEMA_SECTION": "CSection", "SCHEMA_TAG": "CSchemaTag",
    "SCHEMA_ATTRIBUTE": "CAttr",
}
SUFFIX_PREFIX = "  Problem spans string indexes: "
# sort_issues._get_keys as of fix commit 2e53521 (ast.unparse form)
GET_KEYS_SRC = """def _get_keys(d):
    result = []
    for key in default_sort_list:
        if key in int_sort_list:
            result.append(d.get(key, -1))
        else:
            value = d.get(key, '')
            result.append((0, value) if isinstance(value, str) else (1, value))
    return tuple(result)"""


class TieBroken(Exception):
    pass


def _src(rel):
    p = os.path.join(C.REPO, rel)
    return ast.parse(open(p, encoding="utf8").read(), filename=p)


def read_constants():
    """{(Class, NAME): value} for every class-level constant assignment of error_types.py."""
    tree = _src("hed/errors/error_types.py")
    out = {}
    for node in tree.body:
        if isinstance(node, ast.ClassDef):
            for st in node.body:
                if isinstance(st, ast.Assign):
                    if len(st.targets) != 1 or not isinstance(st.targets[0], ast.Name):
                        raise TieBroken(f"error_types.py:{st.lineno}: unrecognised assignment")
                    if not isinstance(st.value, ast.Constant) or not isinstance(st.value.value, (str, int)):
                        raise TieBroken(f"error_types.py:{st.lineno}: non-literal constant")
                    out[(node.name, st.targets[0].id)] = st.value.value
                elif isinstance(st, ast.Expr) and isinstance(st.value, ast.Constant):
                    continue  # docstring
                elif isinstance(st, ast.Pass):
                    continue
                else:
                    raise TieBroken(f"error_types.py:{st.lineno}: unrecognised class statement")
    return out


def _resolve(node, consts, where):
    if isinstance(node, ast.Constant) and isinstance(node.value, (str, int)):
        return node.value
    if isinstance(node, ast.Attribute) and isinstance(node.value, ast.Name):
        key = (node.value.id, node.attr)
        if key in consts:
            return consts[key]
    raise TieBroken(f"{where}: cannot resolve {ast.dump(node)[:120]}")


def _names_used(fn):
    used = set()
    for n in ast.walk(fn):
        if isinstance(n, ast.Name):
            used.add(n.id)
    return used


def _lit_len(node, env):
    """Lower bound of the number of literal characters of a message expression."""
    if isinstance(node, ast.Constant) and isinstance(node.value, str):
        return len(node.value)
    if isinstance(node, ast.JoinedStr):
        return sum(len(v.value) for v in node.values if isinstance(v, ast.Constant) and isinstance(v.value, str))
    if isinstance(node, ast.BinOp) and isinstance(node.op, ast.Add):
        return _lit_len(node.left, env) + _lit_len(node.right, env)
    if isinstance(node, ast.IfExp):
        return min(_lit_len(node.body, env), _lit_len(node.orelse, env))
    if isinstance(node, ast.Name) and node.id in env:
        return env[node.id]
    return 0


def message_min_len(fn, where):
    """Every return of a message function contains at least this many literal characters (0 = unknown shape;
    the Coq obligation C12_message_literal_nonempty then fails)."""
    env = {}
    for st in ast.walk(fn):
        if isinstance(st, ast.Assign) and len(st.targets) == 1 and isinstance(st.targets[0], ast.Name):
            v = _lit_len(st.value, env)
            n = st.targets[0].id
            env[n] = min(env[n], v) if n in env else v
        elif isinstance(st, ast.AugAssign) and isinstance(st.target, ast.Name):
            env[st.target.id] = env.get(st.target.id, 0)      # "+=" only adds text
    rets = [r for r in ast.walk(fn) if isinstance(r, ast.Return)]
    if not rets or any(r.value is None for r in rets):
        raise TieBroken(f"{where}: message function without a returned text")
    return min(_lit_len(r.value, env) for r in rets)


def read_registrations(rel, consts, allow_undecorated=False):
    tree = _src(rel)
    rows = []
    fns = []
    for node in tree.body:
        if isinstance(node, ast.FunctionDef):
            fns.append((node, False))
        elif isinstance(node, ast.ClassDef):
            for st in node.body:
                if isinstance(st, ast.FunctionDef):
                    fns.append((st, True))
    for fn, in_class in fns:
        regs = []
        for d in fn.decorator_list:
            if isinstance(d, ast.Call) and isinstance(d.func, ast.Name) and d.func.id in ("hed_error", "hed_tag_error"):
                regs.append(d)
            elif isinstance(d, ast.Call) and isinstance(d.func, ast.Name) and d.func.id == "wraps":
                continue
            elif isinstance(d, ast.Name) and d.id in ("staticmethod", "classmethod", "property"):
                continue
            elif isinstance(d, ast.Attribute):   # e.g. @tag.setter - not in these files, fail closed below
                raise TieBroken(f"{rel}:{fn.lineno}: unrecognised decorator on {fn.name}")
            else:
                if not allow_undecorated:
                    raise TieBroken(f"{rel}:{fn.lineno}: unrecognised decorator on {fn.name}")
        if not regs:
            if allow_undecorated or in_class:
                continue
            raise TieBroken(f"{rel}:{fn.lineno}: function {fn.name} carries no @hed_error/@hed_tag_error")
        if len(regs) != 1:
            raise TieBroken(f"{rel}:{fn.lineno}: {fn.name} registered more than once")
        d = regs[0]
        is_tag = d.func.id == "hed_tag_error"
        where = f"{rel}:{fn.lineno}"
        if len(d.args) != 1:
            raise TieBroken(f"{where}: expected exactly one positional decorator argument")
        kind = _resolve(d.args[0], consts, where)
        sev = consts[("ErrorSeverity", "ERROR")]
        sub = False
        code = None
        for kw in d.keywords:
            if kw.arg == "default_severity":
                sev = _resolve(kw.value, consts, where)
            elif kw.arg == "actual_code":
                code = _resolve(kw.value, consts, where)
            elif kw.arg == "has_sub_tag" and is_tag:
                if not isinstance(kw.value, ast.Constant) or not isinstance(kw.value.value, bool):
                    raise TieBroken(f"{where}: has_sub_tag is not a literal")
                sub = kw.value.value
            else:
                raise TieBroken(f"{where}: unrecognised decorator keyword {kw.arg}")
        if code is None:
            code = kind
        if not isinstance(kind, str) or not isinstance(code, str) or not isinstance(sev, int):
            raise TieBroken(f"{where}: kind/code/severity of unexpected type")
        params = [a.arg for a in fn.args.args]
        used = _names_used(fn)
        q_tag = bool(is_tag and params and params[0] in used)
        q_sub = bool(is_tag and sub and len(params) > 1 and params[1] in used)
        if is_tag and not params and not fn.args.vararg:
            raise TieBroken(f"{where}: tag error without a tag parameter")
        if is_tag and sub and len(params) < 2:
            raise TieBroken(f"{where}: has_sub_tag error without a problem_tag parameter")
        rows.append({"kind": kind, "code": code, "sev": sev, "tag": is_tag, "sub": sub,
                     "quotes_tag": q_tag, "quotes_sub": q_sub, "fn": fn.name, "params": params,
                     "msg_min": message_min_len(fn, where),
                     "where": where})
    return rows


def read_reporter(consts):
    tree = _src("hed/errors/error_reporter.py")
    lists = {}
    for node in tree.body:
        if isinstance(node, ast.Assign) and len(node.targets) == 1 and isinstance(node.targets[0], ast.Name) \
                and node.targets[0].id in ("default_sort_list", "int_sort_list"):
            if not isinstance(node.value, ast.List):
                raise TieBroken(f"error_reporter.py:{node.lineno}: sort list is not a list literal")
            items = []
            for e in node.value.elts:
                if not (isinstance(e, ast.Attribute) and isinstance(e.value, ast.Name) and e.value.id == "ErrorContext"
                        and e.attr in CKEY and ("ErrorContext", e.attr) in consts):
                    raise TieBroken(f"error_reporter.py:{node.lineno}: unrecognised sort key {ast.dump(e)[:80]}")
                items.append(e.attr)
            lists[node.targets[0].id] = items
    for k in ("default_sort_list", "int_sort_list"):
        if k not in lists:
            raise TieBroken(f"error_reporter.py: {k} not found")
    # sort_issues._get_keys must still read: for key in default_sort_list: if key in int_sort_list: -1 else ""
    src = open(os.path.join(C.REPO, "hed/errors/error_reporter.py"), encoding="utf8").read()
    sort_fn = None
    for node in tree.body:
        if isinstance(node, ast.FunctionDef) and node.name == "sort_issues":
            sort_fn = node
    if sort_fn is None:
        raise TieBroken("error_reporter.py: sort_issues not found")
    if SUFFIX_PREFIX + "{new_start}, {new_end}" not in src:
        raise TieBroken("error_reporter.py: location suffix literal changed")
    # push_error_context None defaults: 0 for int keys, "" otherwise  (textual guard)
    regs = read_registrations("hed/errors/error_reporter.py", consts, allow_undecorated=True)
    return lists, regs


def check_sort_shape():
    """The shape of sort_issues._get_keys is modelled by hand (Model/Issues.v get_key1): any edit fails closed."""
    tree = _src("hed/errors/error_reporter.py")
    sort_fn = next((n for n in tree.body if isinstance(n, ast.FunctionDef) and n.name == "sort_issues"), None)
    if sort_fn is None:
        raise TieBroken("error_reporter.py: sort_issues not found")
    inner = [m for m in sort_fn.body if isinstance(m, ast.FunctionDef)]
    rest = [ast.unparse(m) for m in sort_fn.body if not isinstance(m, ast.FunctionDef)
            and not (isinstance(m, ast.Expr) and isinstance(m.value, ast.Constant))]
    if len(inner) != 1 or ast.unparse(inner[0]) != GET_KEYS_SRC:
        raise TieBroken("error_reporter.py: sort_issues._get_keys changed (modelled shape: int keys raw with "
                        "default -1, other keys (0, text) / (1, number) with default '')")
    if rest != ["issues = sorted(issues, key=_get_keys, reverse=reverse)", "return issues"]:
        raise TieBroken(f"error_reporter.py: body of sort_issues changed: {rest}")


def coq_str(s):
    return "[" + ";".join(str(ord(c)) for c in s) + "]%N" if s else "[]"


def coq_bool(b):
    return "true" if b else "false"


def tables():
    consts = read_constants()
    for k in CKEY:
        if ("ErrorContext", k) not in consts:
            raise TieBroken(f"ErrorContext.{k} missing")
    extra = [n for (c, n) in consts if c == "ErrorContext" and n not in CKEY]
    if extra:
        raise TieBroken(f"ErrorContext has keys unknown to the model: {extra}")
    rows = read_registrations("hed/errors/error_messages.py", consts)
    rows += read_registrations("hed/errors/schema_error_messages.py", consts)
    lists, rep_rows = read_reporter(consts)
    rows += rep_rows
    return consts, rows, lists


def render():
    consts, rows, lists = tables()
    out = ["(* GENERATED by harness/c12_translate.py from hed/errors/{error_types,error_messages,",
           "   schema_error_messages,error_reporter}.py -- do not edit. *)",
           "From Coq Require Import List NArith.",
           "From HV Require Import Base.Str Base.IssueTypes.",
           "Import ListNotations.",
           "",
           f"Definition sev_error : nat := {consts[('ErrorSeverity', 'ERROR')]}.",
           f"Definition sev_warning : nat := {consts[('ErrorSeverity', 'WARNING')]}.",
           "",
           "Definition ckey_name (k : ckey) : str :=",
           "  match k with"]
    for attr, con in CKEY.items():
        out.append(f"  | {con} => {coq_str(consts[('ErrorContext', attr)])}  (* {consts[('ErrorContext', attr)]} *)")
    out += ["  end.", "",
            "Definition default_sort_list : list ckey := [" + "; ".join(CKEY[a] for a in lists["default_sort_list"]) + "].",
            "Definition int_sort_list : list ckey := [" + "; ".join(CKEY[a] for a in lists["int_sort_list"]) + "].",
            "",
            "Definition mk := Build_kind_row.",
            "Definition kind_table : list kind_row := ["]
    body = []
    for r in rows:
        body.append(f"  (* {r['kind']} -> {r['code']}  ({r['fn']}) *)\n"
                    f"  mk {coq_str(r['kind'])}\n     {coq_str(r['code'])}\n     {r['sev']} {coq_bool(r['tag'])} "
                    f"{coq_bool(r['sub'])} {coq_bool(r['quotes_tag'])} {coq_bool(r['quotes_sub'])}")
    out.append(";\n".join(body))
    out.append("].")
    out += ["",
            "(* kind -> number of literal characters every text returned by its message function contains *)",
            "Definition kind_msg_min : list (str * nat) := ["]
    out.append(";\n".join(f"  ({coq_str(r['kind'])}, {r['msg_min']})  (* {r['fn']} *)" for r in rows))
    out.append("].")
    return "\n".join(out) + "\n", rows, lists, consts


def translate():
    check_sort_shape()
    text, rows, lists, consts = render()
    C.write_if_changed(os.path.join(C.COQ, "Gen", "ErrorCodes.v"), text)
    return rows, lists, consts
