"""C12 -- recording the decoration call paths of the file-level entry points.

The implementation is run with the ErrorHandler methods (push/pop/add_context_and_filter/
format_error_with_context) and a few phase boundaries wrapped inside the harness process (no source hooks).
From the log the abstract input of Model/IssuePaths.v is rebuilt: per string the raw issue lists handed to
add_context_and_filter, per structural test the kinds reported, the context values pushed.  The extracted
model (sidecar_validate / table_validate) must then reproduce the decorated, sorted output of the
implementation for warnings on and off.
"""
import contextlib

from harness import common as C

CK = {"ec_title": "title", "ec_filename": "file", "ec_sidecarColumnName": "scol", "ec_sidecarKeyName": "skey",
      "ec_row": "row", "ec_column": "col", "ec_line": "line", "ec_HedString": "hed", "ec_section": "sec",
      "ec_schema_tag": "stag", "ec_attribute": "attr"}


class Unmodelled(Exception):
    pass


class Recorder:
    def __init__(self, rows):
        self.log = []
        self.kinds = {r["kind"]: r for r in rows}
        self.stack = []           # live context stack of the handler being recorded: (key, value object)
        self.fresh = [70000]
        self.extra = {}

    # -- encoding helpers (from harness.c12, imported lazily to avoid a cycle)
    def cur_hs(self):
        from hed.models.hed_string import HedString
        for k, v in reversed(self.stack):
            if k == "ec_HedString" and isinstance(v, HedString):
                return v
        return None

    def enc_val(self, v):
        from harness import c12
        from hed.models.hed_string import HedString
        if isinstance(v, HedString):
            return ["h", c12.enc_hstr(v)[0]]
        if isinstance(v, bool):
            return ["s", C.cps(str(v))]
        if isinstance(v, int):
            return ["i", int(v)]
        if hasattr(v, "item") and not isinstance(v, str):     # numpy scalar
            try:
                iv = v.item()
                if isinstance(iv, int) and not isinstance(iv, bool):
                    return ["i", iv]
            except Exception:  # noqa
                pass
        return ["s", C.cps(str(v))]

    def enc_issues(self, issues):
        from harness import c12
        from hed.models.hed_string import HedString
        hs = self.cur_hs()
        out = []
        for i in issues:
            own = i.get("ec_HedString")
            base = hs if hs is not None else (own if isinstance(own, HedString) else None)
            ids = c12.enc_hstr(base)[1] if base is not None else {}
            hmap = {}
            if isinstance(own, HedString):
                hmap[id(own)] = c12.enc_hstr(own)[0]
            enc = c12.enc_issue(i, ids, hmap, self.fresh)
            # ints coming from numpy
            out.append(enc)
        return out

    def enc_event(self, kind, args, kwargs):
        from harness import c12
        row = self.kinds.get(kind)
        if "severity" in kwargs or kwargs.get("actual_error"):
            raise Unmodelled("event with severity/actual_error override")
        if row is None:
            return [C.cps(kind), "N"]
        if row["sub"]:
            raise Unmodelled("sub-tag event through format_error_with_context")
        if row["tag"]:
            tag = args[0] if args else kwargs.get("tag")
            hs = self.cur_hs()
            ids = c12.enc_hstr(hs)[1] if hs is not None else {}
            return [C.cps(kind), c12.enc_src({"source_tag": tag}, ids, self.fresh)]
        return [C.cps(kind), "N"]


@contextlib.contextmanager
def recording(rec):
    """Wrap the handler methods and phase boundaries; everything is restored on exit."""
    from hed.errors.error_reporter import ErrorHandler
    from hed.validator.sidecar_validator import SidecarValidator
    from hed.validator.spreadsheet_validator import SpreadsheetValidator
    from hed.validator.hed_validator import HedValidator
    from hed.models.sidecar import Sidecar
    saved = []

    def patch(cls, name, make):
        orig = cls.__dict__[name]
        saved.append((cls, name, orig))
        fn = orig.__func__ if isinstance(orig, (staticmethod, classmethod)) else orig
        setattr(cls, name, make(fn))

    def mk_push(fn):
        def push(self, context_type, context):
            fn(self, context_type, context)
            k, v = self.error_context[-1]
            rec.stack.append((k, v))
            rec.log.append(("push", k, rec.enc_val(v), v))
        return push

    def mk_pop(fn):
        def pop(self):
            fn(self)
            if rec.stack:
                rec.stack.pop()
            rec.log.append(("pop",))
        return pop

    def mk_acf(fn):
        def acf(self, issues):
            rec.log.append(("acf", rec.enc_issues(issues), rec.extra.get("mark")))
            return fn(self, issues)
        return acf

    def mk_fewc(fn):
        def fewc(self, error_type, *args, **kwargs):
            if self is not None:
                rec.log.append(("fewc", rec.enc_event(error_type, args, kwargs)))
            return fn(self, error_type, *args, **kwargs)
        return fewc

    def mk_phase(name):
        def make(fn):
            def wrapped(self, *a, **k):
                rec.log.append(("phase", name, "begin"))
                try:
                    return fn(self, *a, **k)
                finally:
                    rec.log.append(("phase", name, "end"))
                    if name == "run_checks":
                        rec.extra["invalid"] = set(self.invalid_original_rows)
            return wrapped
        return make

    def mk_onset(fn):
        def wrapped(self, onset_filtered, error_handler, row_adj):
            rec.extra["onset_rows"] = [int(x) for x in onset_filtered["original_index"]]
            rec.extra["row_adj"] = row_adj
            rec.log.append(("phase", "onset", "begin"))
            try:
                return fn(self, onset_filtered, error_handler, row_adj)
            finally:
                rec.log.append(("phase", "onset", "end"))
        return wrapped

    def mk_runchecks(fn):
        inner = mk_phase("run_checks")(fn)

        def wrapped(self, hed_df, error_handler, row_adj, onset_mask=None):
            rec.extra["row_adj"] = row_adj
            rec.extra["mask"] = None if onset_mask is None else {int(k): bool(v) for k, v in onset_mask.items()}
            return inner(self, hed_df, error_handler=error_handler, row_adj=row_adj, onset_mask=onset_mask)
        return wrapped

    def mk_mark(name):
        def make(fn):
            def wrapped(self, *a, **k):
                rec.extra["mark"] = name
                return fn(self, *a, **k)
            return wrapped
        return make

    def mk_defdict(fn):
        def wrapped(self, *a, **k):
            dd = fn(self, *a, **k)
            if rec.extra.get("in_sidecar"):
                rec.log.append(("defs", rec.enc_issues(list(self._extract_definition_issues) + list(dd.issues))))
            return dd
        return wrapped

    def mk_scvalidate(fn):
        def wrapped(self, *a, **k):
            rec.extra["in_sidecar"] = True
            try:
                return fn(self, *a, **k)
            finally:
                rec.extra["in_sidecar"] = False
        return wrapped

    try:
        patch(ErrorHandler, "push_error_context", mk_push)
        patch(ErrorHandler, "pop_error_context", mk_pop)
        patch(ErrorHandler, "add_context_and_filter", mk_acf)
        patch(ErrorHandler, "format_error_with_context", mk_fewc)
        patch(SidecarValidator, "validate", mk_scvalidate)
        patch(SidecarValidator, "validate_structure", mk_phase("struct"))
        patch(SidecarValidator, "_validate_refs", mk_phase("refs"))
        patch(SidecarValidator, "_check_definitions_bad_spot", mk_phase("badspot"))
        patch(Sidecar, "get_def_dict", mk_defdict)
        patch(HedValidator, "run_basic_checks", mk_mark("basic"))
        patch(HedValidator, "run_full_string_checks", mk_mark("full"))
        patch(SpreadsheetValidator, "_validate_column_structure", mk_phase("colstruct"))
        patch(SpreadsheetValidator, "_run_checks", mk_runchecks)
        patch(SpreadsheetValidator, "_run_onset_checks", mk_onset)
        yield rec
    finally:
        for cls, name, orig in reversed(saved):
            setattr(cls, name, orig)


# --------------------------------------------------------------------------- log -> model input

def _split_phases(log):
    """[(phase-name or None, entries)] in order; entries outside any phase get name None."""
    out = []
    cur, name = [], None
    for e in log:
        if e[0] == "phase":
            if e[2] == "begin":
                if cur:
                    out.append((name, cur))
                cur, name = [], e[1]
            else:
                out.append((name, cur))
                cur, name = [], None
        else:
            cur.append(e)
    if cur:
        out.append((name, cur))
    return out


def sidecar_input(log):
    """The sc_input s-expression of Model/IssuePaths.v rebuilt from a recorded Sidecar.validate run."""
    phases = _split_phases(log)
    name = "N"
    struct, refs, nested, defs, cols, bad = [], [], [], [], [], []
    seen_file = False
    for pname, ents in phases:
        if pname is None and not seen_file:
            for e in ents:
                if e[0] == "push" and e[1] == "ec_filename":
                    name = e[2]
                    seen_file = True
        if pname == "struct":
            col = None
            key = None
            for e in ents:
                if e[0] == "push" and e[1] == "ec_sidecarColumnName":
                    col = [e[2][1], [], []]
                elif e[0] == "push" and e[1] == "ec_sidecarKeyName":
                    key = [e[2][1], []]
                elif e[0] == "fewc":
                    (key[1] if key is not None else col[1]).append(e[1])
                elif e[0] == "pop":
                    if key is not None:
                        col[2].append(key)
                        key = None
                    else:
                        struct.append(col)
                        col = None
                else:
                    raise Unmodelled(f"struct phase: {e[0]}")
        elif pname == "refs":
            col, key, hed, evs, depth = None, "N", None, [], 0
            for e in ents:
                if e[0] == "push" and e[1] == "ec_sidecarColumnName":
                    col = [e[2][1], [], []]
                    depth = 1
                elif e[0] == "push" and e[1] == "ec_sidecarKeyName":
                    key = e[2][1]
                    depth += 1
                elif e[0] == "push" and e[1] == "ec_HedString":
                    hed = e[2][1]
                    evs = []
                    depth += 1
                elif e[0] == "fewc":
                    if depth == 0:
                        (refs[-1][2] if refs else nested).append(e[1])
                    elif hed is not None:
                        evs.append(e[1])
                    else:
                        raise Unmodelled("refs: event outside a string")
                elif e[0] == "pop":
                    depth -= 1
                    if depth == 0:
                        refs.append(col)
                        col = None
                elif e[0] == "acf":
                    col[1].append([key, hed, evs])
                    key, hed, evs = "N", None, []
                else:
                    raise Unmodelled(f"refs phase: {e[0]}")
        elif pname == "badspot":
            col = None
            for e in ents:
                if e[0] == "push":
                    col = [e[2][1], []]
                elif e[0] == "fewc":
                    col[1].append(e[1])
                elif e[0] == "pop":
                    bad.append(col)
        elif pname is None:
            col, key, hed, cur = None, "N", None, None
            for e in ents:
                if e[0] == "defs":
                    defs = e[1]
                elif e[0] == "push" and e[1] == "ec_sidecarColumnName":
                    col = [e[2][1], []]
                elif e[0] == "push" and e[1] == "ec_sidecarKeyName":
                    key = e[2][1]
                elif e[0] == "push" and e[1] == "ec_HedString":
                    hed = e[2][1]
                elif e[0] == "acf" and col is not None:
                    if e[2] == "basic" or cur is None:
                        cur = [key, hed, e[1], []]
                        col[1].append(cur)
                    else:
                        cur[3].append([hed, e[1]])
                elif e[0] == "pop" and col is not None:
                    if hed is not None:
                        hed = None
                    elif key != "N":
                        key = "N"
                        cur = None
                    else:
                        cols.append(col)
                        col, cur = None, None
                if e[0] == "acf" and e[2] == "basic":
                    pass
            # a string whose key context is absent: the next basic acf starts a new record anyway
    # the trailing file-level events of the refs phase: self of the last column ++ nested -- same concatenation
    return [name, struct, refs, nested, defs, cols, bad]


def table_input(log, extra):
    phases = _split_phases(log)
    name = "N"
    mapping, km, badrefs, unordered, rows, onsets = [], [], [], [], [], "N"
    after_colstruct = False
    dummy_hs = ["H", [], [], []]
    sentinel = [C.cps("MODEL_SHOULD_HAVE_SKIPPED_THIS"), 1, "N", "N", "N", [], "N", [], "N", "N"]
    for pname, ents in phases:
        if pname is None:
            for e in ents:
                if e[0] == "push" and e[1] == "ec_filename" and name == "N":
                    name = e[2]
                elif e[0] == "fewc" and after_colstruct:
                    unordered.append(e[1])
        elif pname == "colstruct":
            after_colstruct = True
            col, row, first = None, None, True
            for e in ents:
                if e[0] == "acf" and first:
                    mapping = e[1]
                    first = False
                elif e[0] == "push" and e[1] == "ec_column":
                    col = [e[2], []]
                elif e[0] == "push" and e[1] == "ec_row":
                    row = e[2][1]
                elif e[0] == "fewc":
                    if row is not None:
                        col[1].append([row, e[1]])
                    elif col is None:
                        badrefs.append(e[1])
                    else:
                        raise Unmodelled("column-level event in column structure")
                elif e[0] == "pop":
                    if row is not None:
                        row = None
                    else:
                        km.append(col)
                        col = None
        elif pname == "run_checks":
            mask = extra.get("mask")
            adj = extra.get("row_adj", 0)
            cur, col, hed, hedobj = None, None, None, None
            for e in ents:
                if e[0] == "push" and e[1] == "ec_row":
                    cur = {"label": e[2][1], "cells": [], "objs": [], "rowacf": None}
                elif e[0] == "push" and e[1] == "ec_column":
                    col = e[2]
                elif e[0] == "push" and e[1] == "ec_HedString":
                    hed, hedobj = e[2][1], e[3]
                elif e[0] == "acf":
                    if col is not None:
                        cur["cells"].append([col, hed, e[1]])
                        cur["objs"].append(hedobj)
                    else:
                        cur["rowacf"] = (hed, e[1])
                elif e[0] == "pop":
                    if hed is not None:
                        hed = None
                    elif col is not None:
                        col = None
                    else:
                        label = cur["label"]
                        masked = bool(mask is not None and mask.get(label - adj, False))
                        if cur["rowacf"] is not None:
                            rs, full = [cur["rowacf"][0], True], cur["rowacf"][1]
                        else:
                            truthy = any(bool(o.children) for o in cur["objs"])
                            rs, full = [dummy_hs, truthy], [sentinel]
                        rows.append([label, label, cur["cells"], masked, rs, full])
                        cur = None
        elif pname == "onset":
            adj = extra.get("row_adj", 0)
            invalid = extra.get("invalid", set())
            seq = []
            cur, hed = None, None
            for e in ents:
                if e[0] == "push" and e[1] == "ec_row":
                    cur = {"label": e[2][1], "hed": None, "raw": None}
                elif e[0] == "push" and e[1] == "ec_HedString":
                    hed = e[2][1]
                elif e[0] == "acf":
                    cur["hed"], cur["raw"] = hed, e[1]
                elif e[0] == "pop":
                    if hed is not None:
                        hed = None
                    else:
                        seq.append(cur)
                        cur = None
            onsets = []
            it = iter(seq)
            for orig in extra.get("onset_rows", []):
                label = orig + adj
                if orig in invalid:
                    onsets.append([label, label, [dummy_hs, True], [sentinel]])
                    continue
                ent = next(it, None)
                if ent is None or ent["label"] != label:
                    raise Unmodelled("onset rows do not line up with the log")
                if ent["hed"] is not None:
                    onsets.append([label, label, [ent["hed"], True], ent["raw"]])
                else:
                    onsets.append([label, label, [dummy_hs, False], []])
    return [name, mapping, km, badrefs, unordered, rows, onsets]
