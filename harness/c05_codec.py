"""C05 correspondence part (i): the text codecs and the traversal, model vs implementation.

Everything here compares the extracted Gallina model (ocaml/c05_main.ml) with the real
functions of hed.schema.schema_io on the same inputs: every attribute string / MediaWiki
line / TSV tag row the real writers emit for the bundled schemas, generated entries over the
allowed classes, and a malformed stream."""
import os
import random

from harness import common as C

SX = C.to_sx
# 1 (default): model and oracle follow the current code, which contains fix commits 4719ff8 (F1), 394565c (F2), 784517a (F3), 8fb8446 (F4); 0: the code before them (record)
FIXED = int(os.environ.get("VERIF_C05_FIXED", "1"))
os.environ["VERIF_C05_FIXED"] = str(FIXED)      # the OCaml driver reads it
# 1 (default): the current code, which contains fix commit 4b4f5c6 (C05-F5); 0: the code before it, where a name ending
# in a non-ASCII blank did not survive MediaWiki (record)
FIXED5 = int(os.environ.get("VERIF_C05_FIXED_F5", "1"))
os.environ["VERIF_C05_FIXED_F5"] = str(FIXED5)

# 1 (default): the current code, which contains fix commit f2636f2 (C05-F7); 0: the code before it (a library
# node rooted in a tree that does not allow extensions was listed behind the tree; record)
FIXED7 = int(os.environ.get("VERIF_C05_FIXED_F7", "1"))   # fix commit f2636f2 is in /repo

# 1 (default): the current code, which contains fix commit b5f4533 (C05-F8); 0: the code before it, where a TSV location
# named *.TSV could not be loaded back (record)
FIXED8 = int(os.environ.get("VERIF_C05_FIXED_F8", "1"))   # fix commit b5f4533 is in /repo
os.environ["VERIF_C05_FIXED_F8"] = str(FIXED8)

# Whole-cell texts that CSV / pandas machinery may take for a missing value or a special literal: an input dimension
# for descriptions, names and attribute values in every format
CELL_SPECIAL = ["n/a", "N/A", "NA", "na", "nan", "NaN", "-nan", "None", "none", "null", "NULL", "Null", "#N/A", "#NA",
                "<NA>", "N.A.", "-1.#IND", "1.#QNAN", "true", "True", "false", "1.0", "0", "-", "inf", "-inf"]
# Names of TSV save locations (the last path component): folders with dots, the .tsv form, suffix case, blanks
LOC_NAMES = ["sch", "HED8.3.0", "HED_score_2.0.0", "a.b.c", "v1.2", "trailing.", ".hidden", "sp ace", "\u00fcn\u00ef.1",
             "x.tsv", "y.v1.tsv", "tsv", "x.tsv.d", "Tsv.dir"]
LOC_NAMES_UPPER = ["x.TSV", "y.Tsv", "z.v2.TSV"]          # must load back (repaired finding C05-F8, b5f4533); a known finding only with VERIF_C05_FIXED_F8=0

# One representative of every kind of non-ASCII code point of the schema text class ("printable ASCII except
# , [ ] { } plus every code point above 127") that some API treats specially.  Below 128 nothing else is in the
# class (VT, FF, FS, GS, RS, DEL are refused by the compliance check and VT/FF/FS.. by XML itself).
EXOTIC_LINE = ["\u0085", "\u2028", "\u2029"]                       # str.splitlines boundaries, str.isspace
EXOTIC_BLANK = ["\u00a0", "\u1680", "\u2003", "\u202f", "\u205f", "\u3000"]   # category Zs: str.strip, regex \s
EXOTIC_OTHER = ["\u200b", "\u200c", "\u200d", "\u2060", "\ufeff",       # zero width / BOM
                "\u0301", "\u20dd",                                     # combining marks
                "\U0001F600", "\U0001D11E", "\U00010348",               # astral
                "\u200e", "\u200f", "\u202a", "\u202e", "\u2066", "\u2069",   # bidi controls
                "\u00ad", "\u0080", "\u009f", "\ufffd", "\ue000"]       # soft hyphen, C1 controls, U+FFFD, private use
EXOTIC_WS = EXOTIC_LINE + EXOTIC_BLANK                               # what str.strip() removes at the ends
EXOTIC = EXOTIC_LINE * 3 + EXOTIC_BLANK + EXOTIC_OTHER               # line separators weighted up


def exoticise(rng, s, outer_ok=True):
    """Insert one exotic code point into s: interior (2/3) or at an end (1/3)."""
    c = rng.choice(EXOTIC)
    if len(s) >= 2 and (not outer_ok or rng.random() < 0.67):
        k = rng.randint(1, len(s) - 1)
        return s[:k] + c + s[k:]
    return (c + s) if rng.random() < 0.5 else (s + c)


def sx_s(s):
    return [ord(c) for c in s]


def sx_attrs(d):
    return [[sx_s(k), "T" if v is True else sx_s(v)] for k, v in d.items()]


def sx_desc(d):
    return "N" if d is None else sx_s(d)


def un_s(x):
    return "".join(chr(int(c)) for c in x)


def un_attrs(x):
    return [[un_s(k), True if v == "T" else un_s(v)] for k, v in x]


def un_desc(x):
    return None if x == "N" else un_s(x)


def un_parsed(x):
    """model parsed line -> canonical"""
    if x[0] == "exn":
        return ["exn", x[1]]
    if x[0] == "skip":
        return ["skip"]
    if x[0] == "ok":
        return ["ok", x[1] == "1", int(x[2]), un_s(x[3]), un_attrs(x[4]), un_desc(x[5])]
    return ["ERR", x]


# ---------------------------------------------------------------- implementation side

class StubEntry:
    """Just enough of HedSchemaEntry / HedTagEntry for the writers."""

    def __init__(self, name, attributes, description, section_key=None, short=None):
        self.name = name
        self.attributes = attributes
        self.description = description
        self.section_key = section_key
        long = name[:-2] if name.endswith("/#") else name
        self.short_tag_name = short if short is not None else long.split("/")[-1]
        self.long_tag_name = long
        self.parent = None

    def has_attribute(self, a, return_value=False):
        v = self.attributes.get(a)
        return v if return_value else v is not None


def exn_name(e):
    from hed.errors.exceptions import HedFileError
    if isinstance(e, HedFileError):
        return "HedFileError"
    n = type(e).__name__
    return n if n in ("TypeError", "KeyError", "AttributeError", "ValueError", "IndexError", "RecursionError") else "Other:" + n


def impl_parse_attr(s):
    from hed.schema.schema_io import text_util
    try:
        d = text_util.parse_attribute_string(s)
    except Exception as e:  # noqa
        return ["exn", exn_name(e)]
    return ["ok", [[k, v] for k, v in d.items()]]


def impl_format(mode, attrs):
    from hed.schema.schema_io.schema2base import Schema2Base
    from hed.schema.schema_io.schema2df import Schema2DF
    w = Schema2DF() if mode >= 2 else Schema2Base()
    w._strip_out_in_library = mode in (1, 3)
    return w._format_tag_attributes(attrs)


_wiki_loader = None


def wiki_loader():
    global _wiki_loader
    from hed.schema.schema_io.wiki2schema import SchemaLoaderWiki
    from hed.schema.hed_schema import HedSchema
    if _wiki_loader is None:
        ld = object.__new__(SchemaLoaderWiki)
        ld._schema = HedSchema()
        ld.name = "stub"
        ld.filename = None
        ld._loading_merged = True
        ld.appending_to_schema = False
        _wiki_loader = ld
    _wiki_loader.fatal_errors = []
    return _wiki_loader


def impl_read_line(line, tag_section=True):
    """The per-line part of _split_lines_into_sections + _read_schema/_read_section."""
    from hed.schema.hed_schema_constants import HedSectionKey
    ld = wiki_loader()
    try:
        row = ld._remove_nowiki_tag_from_line(1, line.strip())
        if not row:
            return ["exn", "HedFileError"] if ld.fatal_errors else ["skip"]
        if tag_section:
            root = row.startswith("'''")
            level = 0 if root else ld._get_tag_level(row)
            entry = ld._create_tag_entry(["P"], 1, row)     # a parent, so that '#' children get a legal full name
        else:
            root = False
            level = ld._get_tag_level(row)
            entry = ld._create_entry(1, row, HedSectionKey.ValueClasses)
        if ld.fatal_errors or entry is None:
            return ["exn", "HedFileError"]
        nm = entry.name[2:] if tag_section and entry.name.startswith("P/") else entry.name
        return ["ok", root, level, nm, [[k, v] for k, v in entry.attributes.items()], entry.description]
    except Exception as e:  # noqa
        return ["exn", exn_name(e)]


def impl_write_tag(mode, tag, level, attrs, desc):
    from hed.schema.schema_io.schema2wiki import Schema2Wiki
    w = Schema2Wiki()
    w._initialize_output()
    w._strip_out_in_library = mode in (1, 3)
    w.output = []
    e = StubEntry(tag, attrs, desc)
    w._write_tag_entry(e, None, level)
    lines = [x for x in w.output if x != ""]
    return lines[0] if lines else None


def impl_write_entry(mode, name, depth, incl, attrs, desc):
    from hed.schema.schema_io.schema2wiki import Schema2Wiki
    from hed.schema.hed_schema_constants import HedSectionKey
    w = Schema2Wiki()
    w._initialize_output()
    w._strip_out_in_library = mode in (1, 3)
    e = StubEntry(name, attrs, desc, section_key=HedSectionKey.Units if depth == 2 else HedSectionKey.UnitClasses)
    w._write_entry(e, None, incl)
    lines = [x for x in w.output if x != ""]
    return lines[0] if lines else None


def impl_hdr(s):
    from hed.schema.schema_io import text_util
    m, u = text_util._parse_header_attributes_line(s)
    return [[[k, v] for k, v in m.items()], list(u)]


def impl_hdrw(sep, pairs):
    from hed.schema.schema_io.schema2base import Schema2Base
    return Schema2Base._get_attribs_string_from_schema(dict(pairs), sep=sep)


def impl_cmp(a, b):
    from hed.schema.hed_schema_entry import HedSchemaEntry
    return bool(HedSchemaEntry._compare_attributes_no_order(a, b))


_df_loader = None


def impl_tsv_read(hed_id, name, attr_string, desc):
    global _df_loader
    import pandas as pd
    from hed.schema.schema_io.df2schema import SchemaLoaderDF
    from hed.schema.hed_schema import HedSchema
    from hed.schema.hed_schema_constants import HedSectionKey
    import hed.schema.hed_schema_df_constants as k
    if _df_loader is None:
        ld = object.__new__(SchemaLoaderDF)
        ld._schema = HedSchema()
        ld.name = "stub"
        _df_loader = ld
    ld = _df_loader
    ld.fatal_errors = []
    # an absent description reaches the reader as '' (to_csv writes an empty cell, read_csv uses na_filter=False)
    row = pd.Series({k.hed_id: hed_id, k.level: "1", k.name: name, k.subclass_of: "HedTag", k.attributes: attr_string,
                     k.description: "" if desc is None else desc, k.equivalent_to: ""}, dtype=object)
    try:
        # the way _create_tag_entry calls it: the full name is parents + _get_tag_name(row)
        e = ld._create_entry(1, row, HedSectionKey.Tags, "P/" + ld._get_tag_name(row))
    except Exception as ex:  # noqa
        return ["exn", exn_name(ex)]
    if ld.fatal_errors:
        return ["exn", "HedFileError"]
    return ["ok", e.name[2:], [[kk, v] for kk, v in e.attributes.items()], e.description]


def impl_tsv_write(strip, name, attrs, desc):
    from hed.schema.schema_io.schema2df import Schema2DF
    import hed.schema.hed_schema_df_constants as k

    class W(Schema2DF):
        def _get_subclass_of(self, tag_entry):
            return "HedTag"

        def _get_tag_equivalent_to(self, tag_entry):
            return ""
    w = W()
    w._tag_rows = []
    w._strip_out_in_library = strip
    w._write_tag_entry(StubEntry(name, attrs, desc), None, 1)
    r = w._tag_rows[0]
    return [r[k.hed_id], r[k.name], r[k.attributes], r[k.description]]


def impl_tsv_cells(texts, scratch):
    """The real save_dataframes / load_dataframes on a tag table whose description cells are `texts` (None = no value):
    the description cells read back."""
    import pandas as pd
    import hed.schema.hed_schema_df_constants as k
    from hed.schema.schema_io.df_util import save_dataframes, load_dataframes, create_empty_dataframes
    dfs = create_empty_dataframes()
    rows = [{k.hed_id: "", k.level: "0", k.name: "N%d" % i, k.subclass_of: "HedTag", k.attributes: "",
             k.description: t, k.equivalent_to: ""} for i, t in enumerate(texts)]
    dfs[k.TAG_KEY] = pd.DataFrame(rows, columns=k.tag_columns, dtype=str)
    base = os.path.join(scratch, "cells", "sch")
    save_dataframes(base, dfs)
    back = load_dataframes(base)[k.TAG_KEY]
    return [None if (v is None or v != v or v == "") else v for v in back[k.description]]


def impl_tsv_location(parent, name, scratch):
    """(files the real writer creates for the location, files the real reader will look for), relative to scratch."""
    from hed.schema.schema_io.df_util import save_dataframes, convert_filenames_to_dict, create_empty_dataframes
    root = os.path.join(scratch, "loc%d" % impl_tsv_location.n)
    impl_tsv_location.n += 1
    path = os.path.join(root, *parent, name)
    os.makedirs(os.path.join(root, *parent), exist_ok=True)
    save_dataframes(path, create_empty_dataframes())
    written = sorted(os.path.relpath(os.path.join(dp, f), root) for dp, _, fs in os.walk(root) for f in fs)
    wanted = sorted(os.path.relpath(f, root) for f in convert_filenames_to_dict(path).values())
    return written, wanted


impl_tsv_location.n = 0


def impl_open_file_lines(text, path=None):
    """SchemaLoaderWiki._open_file on a string source (or on the file `path`)."""
    from hed.schema.schema_io.wiki2schema import SchemaLoaderWiki
    ld = object.__new__(SchemaLoaderWiki)
    ld.filename = path
    ld.schema_as_string = None if path else text
    return list(ld._open_file())


def canon_lines(lines):
    """Lines as the per-line reader uses them: without the line feed; empty lines at the end do not matter."""
    out = [x[:-1] if x.endswith("\n") else x for x in lines]
    while out and out[-1] == "":
        out.pop()
    return out


def lf_lines(text, keepends=False):
    """Reference: the lines of a text when a line ends at U+000A and nowhere else."""
    parts = text.split("\n")
    if not keepends:
        return parts
    out = [x + "\n" for x in parts[:-1]]
    return out + ([parts[-1]] if parts[-1] else [])


def impl_rebuild(lines):
    """The real SchemaLoaderWiki._read_schema on rows '***.. Tn' / root rows: the long names it builds.
    lines = [(level, id)]; returns ["ok", [[ids of the long name] ...]] or ["exn", name]."""
    from hed.schema.schema_io.wiki2schema import SchemaLoaderWiki
    from hed.schema.hed_schema import HedSchema
    ld = object.__new__(SchemaLoaderWiki)
    ld._schema = HedSchema()
    ld._schema.header_attributes = {"version": "8.3.0"}
    ld.name = "stub"
    ld.filename = None
    ld.library = ""
    ld._loading_merged = True
    ld.appending_to_schema = False
    ld.fatal_errors = []
    rows = []
    for i, (lvl, n) in enumerate(lines):
        rows.append((i + 1, ("'''T%d'''" % n) if lvl == 0 else "*" * lvl + " T%d" % n))
    try:
        ld._read_schema(rows)
    except Exception as e:  # noqa
        return ["exn", exn_name(e)]
    if ld.fatal_errors:
        return ["exn", "HedFileError"]
    return ["ok", [[int(c[1:]) for c in e.name.split("/")] for e in ld._schema.tags.all_entries]]


def gen_tree_lines(rng):
    """(level, id) lines: a random forest written parents-first, sometimes with one node moved behind a later
    subtree (the shape of C05-F7) or a level that skips a generation."""
    names = []
    for i in range(rng.randint(1, 9)):
        if names and rng.random() < 0.75:
            p = rng.choice(names)
            names.append(p + [i + 1])
        else:
            names.append([i + 1])
    names.sort(key=lambda n: [names.index(n[:k + 1]) if n[:k + 1] in names else 0 for k in range(len(n))])
    # depth-first order
    order = []

    def add(n):
        order.append(n)
        for m in names:
            if len(m) == len(n) + 1 and m[:-1] == n:
                add(m)
    for n in names:
        if len(n) == 1:
            add(n)
    x = rng.random()
    if x < 0.3 and len(order) > 2:
        k = rng.randrange(1, len(order))
        moved = order.pop(k)
        order.insert(rng.randrange(k, len(order) + 1), moved)
    lines = [(len(n) - 1, n[-1]) for n in order]
    if x > 0.9 and lines:
        k = rng.randrange(len(lines))
        lines[k] = (lines[k][0] + 2, lines[k][1])
    return order, lines


def impl_xml_name_text(is_tag, name):
    """Text of the <name> element Schema2XML writes for a tag (_write_tag_entry) or another entry (_write_entry)."""
    from xml.etree.ElementTree import Element
    from hed.schema.schema_io.schema2xml import Schema2XML
    from hed.schema.hed_schema_constants import HedSectionKey
    w = Schema2XML()
    w._strip_out_in_library = True
    parent = Element("x")
    if is_tag:
        node = w._write_tag_entry(StubEntry(name, {}, None), parent, 1)
    else:
        node = w._write_entry(StubEntry(name, {}, None, section_key=HedSectionKey.Units), parent)
    return node.find("name").text


def impl_xml_name(text):
    import xml.etree.ElementTree as ET
    impl_xml_desc("x")      # creates the stub loader
    el = ET.Element("node")
    ET.SubElement(el, "name").text = text
    return _xml_loader._get_element_tag_value(el)


_xml_loader = None


def impl_xml_desc(text):
    """Description part of SchemaLoaderXML._parse_node on <node><name>X</name><description>text</description></node>."""
    global _xml_loader
    import xml.etree.ElementTree as ET
    from hed.schema.schema_io.xml2schema import SchemaLoaderXML
    from hed.schema.hed_schema import HedSchema
    from hed.schema.hed_schema_constants import HedSectionKey
    if _xml_loader is None:
        ld = object.__new__(SchemaLoaderXML)
        ld._schema = HedSchema()
        ld.name = "stub"
        _xml_loader = ld
    el = ET.Element("node")
    ET.SubElement(el, "name").text = "X"
    if text:
        ET.SubElement(el, "description").text = text
    return _xml_loader._parse_node(el, HedSectionKey.Tags).description


def impl_tsv_write_entry(strip, incl, name, attrs, desc):
    """Schema2DF._write_entry for a unit class row."""
    from hed.schema.schema_io.schema2df import Schema2DF
    from hed.schema.hed_schema_constants import HedSectionKey
    import hed.schema.hed_schema_df_constants as k

    class W(Schema2DF):
        def _get_subclass_of(self, tag_entry):
            return "HedUnitClass"

        def _get_tag_equivalent_to(self, tag_entry):
            return ""
    w = W()
    w._initialize_output()
    w._strip_out_in_library = strip
    w._write_entry(StubEntry(name, attrs, desc, section_key=HedSectionKey.UnitClasses), None, incl)
    df = w.output[k.UNIT_CLASS_KEY]
    r = df.iloc[0]
    d = r[k.description]
    d = None if (d is None or d != d or d == "") else d
    return [r[k.hed_id], r[k.name], r[k.attributes], d]


# ---------------------------------------------------------------- traversal

class TEntry:
    """Stub tag entry for Schema2Base._output_tags."""

    def __init__(self, name, inlib, attrs):
        self.name = name
        self._inlib = inlib
        self.attributes = attrs
        self.parent = None
        self.description = None

    def has_attribute(self, a, return_value=False):
        assert a == "inLibrary"
        return ("lib" if self._inlib else None) if return_value else self._inlib

    @property
    def parent_name(self):
        if self.parent:
            return self.parent.name
        return self.name.rpartition("/")[0]


def impl_traverse(schema_like, merged):
    """Run the real Schema2Base.process_schema with a recording subclass."""
    from hed.schema.schema_io.schema2base import Schema2Base
    from hed.schema.hed_schema_constants import HedSectionKey

    class Rec(Schema2Base):
        def _initialize_output(self):
            self.output = {"tags": [], "units": [], "secs": []}
            self._cur = None

        def _output_header(self, attributes, prologue):
            pass

        def _output_footer(self, epilogue):
            pass

        def _start_section(self, key_class):
            if key_class not in (HedSectionKey.Tags, HedSectionKey.UnitClasses):
                self.output["secs"].append([])
            return "SCHEMA"

        def _end_tag_section(self):
            pass

        def _emitted(self, e):
            return [a for a in e.attributes if not self._attribute_disallowed(a)]

        def _write_tag_entry(self, tag_entry, parent=None, level=0):
            self.output["tags"].append([tag_entry.name, level, None if parent == "SCHEMA" else parent, self._emitted(tag_entry)])
            return tag_entry.name

        def _write_entry(self, entry, parent_node, include_props=True):
            if entry.section_key == HedSectionKey.UnitClasses:
                self.output["units"].append([entry.name, include_props, []])
                return ("UC", len(self.output["units"]) - 1)
            if entry.section_key == HedSectionKey.Units:
                self.output["units"][parent_node[1]][2].append([entry.name, self._emitted(entry)])
                return None
            self.output["secs"][-1].append([entry.name, self._emitted(entry)])
            return None
    from hed.errors.exceptions import HedFileError
    try:
        return ["ok", Rec().process_schema(schema_like, merged)]
    except HedFileError:
        return ["exn", "HedFileError"]
    except Exception as e:  # noqa
        return ["exn", exn_name(e)]


class SEntry:
    def __init__(self, name, inlib, attrs, section_key):
        self.name = name
        self._inlib = inlib
        self.attributes = attrs
        self.section_key = section_key
        self.units = {}
        self.description = None

    def has_attribute(self, a, return_value=False):
        return self._inlib


class FakeSection:
    def __init__(self, entries):
        self.all_entries = entries
        self._d = {e.name: e for e in entries}

    def values(self):
        return self._d.values()


class FakeSchema:
    """Duck-typed HedSchema for process_schema, with the REAL can_save / with_standard /
    library properties bound from HedSchema."""

    def __init__(self, library, with_standard, tags, unit_classes, sections):
        from hed.schema.hed_schema_constants import HedSectionKey
        self.header_attributes = {"version": "1.0.0"}
        if library:
            self.header_attributes["library"] = library
        if with_standard:
            self.header_attributes["withStandard"] = with_standard
        self.prologue = ""
        self.epilogue = ""
        self.filename = None
        self.tags = FakeSection(tags)
        self.unit_classes = FakeSection(unit_classes)
        keys = [HedSectionKey.UnitModifiers, HedSectionKey.ValueClasses, HedSectionKey.Attributes, HedSectionKey.Properties]
        self._secs = {k: FakeSection(s) for k, s in zip(keys, sections)}

    def __getitem__(self, k):
        return self._secs[k]

    def get_save_header_attributes(self, save_merged=False):
        return dict(self.header_attributes)


def bind_real_props():
    from hed.schema.hed_schema import HedSchema
    FakeSchema.can_save = HedSchema.can_save
    FakeSchema.library = HedSchema.library
    FakeSchema.with_standard = HedSchema.with_standard


def gen_traversal_case(rng):
    """Random abstract schema: tags as a forest (some mis-nested on purpose), library flags."""
    from hed.schema.hed_schema_constants import HedSectionKey
    n = rng.randint(0, 12)
    ws = rng.choice(["", "", "8.3.0"])
    lib = rng.choice(["", "lib", "lib", "a,b", ","]) if not ws else rng.choice(["lib", "lib", "a,b", ""])
    tags = []
    names = []
    for i in range(n):
        if names and rng.random() < 0.7:
            p = rng.choice(names)
            nm = p + "/" + "T%d" % i
        else:
            nm = "T%d" % i
        if rng.random() < 0.08:     # a deeper name whose parent is missing
            nm = nm + "/X%d" % i
        names.append(nm)
        inlib = rng.random() < (0.5 if lib else 0.1)
        at = [a for a in ("inLibrary", "x", "y") if (a == "inLibrary" and inlib and rng.random() < 0.9) or (a != "inLibrary" and rng.random() < 0.4)]
        tags.append(TEntry(nm, inlib, at))
    byname = {t.name: t for t in tags}
    for t in tags:
        pn = t.name.rpartition("/")[0]
        t.parent = byname.get(pn)
    if rng.random() < 0.5:
        rng.shuffle(tags) if rng.random() < 0.2 else None
    ucs = []
    for i in range(rng.randint(0, 3)):
        c = SEntry("C%d" % i, rng.random() < 0.4, rng.sample(["inLibrary", "x"], rng.randint(0, 2)), HedSectionKey.UnitClasses)
        for j in range(rng.randint(0, 3)):
            u = SEntry("C%dU%d" % (i, j), rng.random() < 0.4, rng.sample(["inLibrary", "x"], rng.randint(0, 2)), HedSectionKey.Units)
            # _output_units reads unit.attributes.get(InLibrary) for has_lib_unit and has_attribute for the skip
            if u._inlib:
                u.attributes = ["inLibrary"] + [a for a in u.attributes if a != "inLibrary"]
            else:
                u.attributes = [a for a in u.attributes if a != "inLibrary"]
            u.attributes = {a: True for a in u.attributes}
            c.units[u.name] = u
        ucs.append(c)
    secs = []
    for k in range(4):
        secs.append([SEntry("S%d_%d" % (k, i), rng.random() < 0.4, rng.sample(["inLibrary", "x"], rng.randint(0, 2)), None)
                     for i in range(rng.randint(0, 3))])
    return lib, ws, tags, ucs, secs


def traversal_to_model(lib, ws, merged, tags, ucs, secs):
    """Abstract ids: path components and attribute names -> nat."""
    comp = {}

    def cid(c):
        return comp.setdefault(c, len(comp))
    aid = {"inLibrary": 0}

    def at(a):
        return aid.setdefault(a, len(aid))

    def nm(n):
        return [cid(c) for c in n.split("/")]
    tl = []
    for t in tags:
        par = "N" if t.parent is None else [nm(t.parent.name), t.parent.has_attribute("inLibrary")]
        tl.append([nm(t.name), t.has_attribute("inLibrary"), par, [at(a) for a in t.attributes]])
    ids = {}

    def eid(e):
        return ids.setdefault(e.name, len(ids))
    ul = [[[eid(c), bool(c.has_attribute("inLibrary")), [at(a) for a in c.attributes]],
           [[eid(u), bool(u.has_attribute("inLibrary")), [at(a) for a in u.attributes]] for u in c.units.values()]] for c in ucs]
    sl = [[[eid(e), bool(e.has_attribute("inLibrary")), [at(a) for a in e.attributes]] for e in s] for s in secs]
    line = SX(["trav", sx_s(lib), sx_s(ws), merged, tl, ul, sl])
    return line, (comp, aid, ids)


def traversal_canon_impl(out, maps):
    comp, aid, ids = maps
    if out[0] != "ok":
        return out

    def nm(n):
        return [comp[c] for c in n.split("/")]
    o = out[1]
    return ["ok",
            [[nm(n), lvl, None if p is None else nm(p), [aid[a] for a in at]] for n, lvl, p, at in o["tags"]],
            [[ids[c], bool(props), [[ids[u], [aid[a] for a in at]] for u, at in us]] for c, props, us in o["units"]],
            [[[ids[e], [aid[a] for a in at]] for e, at in s] for s in o["secs"]]]


def traversal_canon_model(m):
    if m[0] != "ok":
        return [m[0], m[1]]
    ints = lambda l: [int(x) for x in l]  # noqa
    return ["ok",
            [[ints(n), int(lvl), None if p == "N" else ints(p), ints(at)] for n, lvl, p, at in m[1]],
            [[int(c), props == "1", [[int(u), ints(at)] for u, at in us]] for c, props, us in m[2]],
            [[[int(e), ints(at)] for e, at in s] for s in m[3]]]


def real_schema_traversal_inputs(schema):
    """Turn a real HedSchema into stub entries mirroring what _output_tags reads."""
    from hed.schema.hed_schema_constants import HedSectionKey
    tags = []
    by = {}
    for e in schema.tags.all_entries:
        t = TEntry(e.name, e.has_attribute("inLibrary"), list(e.attributes))
        by[id(e)] = t
        tags.append((e, t))
    for e, t in tags:
        t.parent = by.get(id(e.parent)) if e.parent is not None else None
    ucs = []
    for c in schema.unit_classes.values():
        sc = SEntry(c.name, c.has_attribute("inLibrary"), list(c.attributes), HedSectionKey.UnitClasses)
        for u in c.units.values():
            su = SEntry(u.name, u.has_attribute("inLibrary"), {a: v for a, v in u.attributes.items()}, HedSectionKey.Units)
            sc.units[su.name] = su
        ucs.append(sc)
    secs = []
    for k in (HedSectionKey.UnitModifiers, HedSectionKey.ValueClasses, HedSectionKey.Attributes, HedSectionKey.Properties):
        secs.append([SEntry(e.name, e.has_attribute("inLibrary"), list(e.attributes), None) for e in schema[k].values()])
    return schema.library, schema.with_standard, [t for _, t in tags], ucs, secs


# ---------------------------------------------------------------- generators

ALPHA = "abcdefghijklmnopqrstuvwxyzABCDEFGHIJKLMNOPQRSTUVWXYZ"
NAME_CH = ALPHA + "0123456789-_." + "éß中Ω"
TEXT_CH = ALPHA * 3 + "0123456789" + "      " + "-_:;,./()+^=\"'<>&|~!?@#$%*\\" + "éß中Ω  "
BAD_CH = "[]{}\n\t\r ,=<>/*'#"


def g_name(rng, wide=False):
    n = rng.randint(1, 10)
    s = "".join(rng.choice(NAME_CH) for _ in range(n))
    if wide and rng.random() < 0.3:
        s = s[:len(s) // 2] + rng.choice([" ", "'", "*", "''", "<", "&#", " extend", "/"]) + s[len(s) // 2:]
    return s


def g_piece(rng, wide=False):
    n = rng.randint(1, 8)
    ch = NAME_CH + (" /:+()" if rng.random() < 0.5 else "")
    s = "".join(rng.choice(ch) for _ in range(n)).strip() or "v"
    if wide and rng.random() < 0.3:
        k = rng.randint(0, len(s))
        s = s[:k] + rng.choice(["=", " ", "\n", "{", "}", "[", "]", "<nowiki>", "<", "\t", " "]) + s[k:]
    return s


def g_attrs(rng, wide=False):
    d = {}
    for _ in range(rng.choice([0, 0, 1, 1, 2, 3])):
        k = "".join(rng.choice(ALPHA) for _ in range(rng.randint(1, 9)))
        if rng.random() < 0.2:
            k = rng.choice(["inLibrary", "hedId", "annotationProperty", "suggestedTag", "relatedTag", "takesValue"])
        if wide and rng.random() < 0.1:
            k += rng.choice(["1", "-", " ", "é"])
        if rng.random() < 0.4:
            d[k] = True
        else:
            d[k] = ",".join(g_piece(rng, wide) for _ in range(rng.choice([1, 1, 2, 3])))
            if wide and rng.random() < 0.1:
                d[k] += rng.choice([",", ",,x", " "])
    return d


def g_desc(rng, wide=False):
    if rng.random() < 0.25:
        return None
    n = rng.randint(1, 30)
    s = "".join(rng.choice(TEXT_CH) for _ in range(n))
    s = s.replace("<n", "<m").replace("</", "<:")
    if rng.random() < 0.08:
        k = rng.randint(0, len(s))
        s = s[:k] + " extend here " + s[k:]       # inside the class since the repair of C05-F3
    if rng.random() < 0.3:
        s = exoticise(rng, s)
    if not wide:
        s = s.strip() or "d"
        if not FIXED:
            s = s.replace("extend here", "extendhere")
        s = s.replace("&#8203;", "")
    elif rng.random() < 0.4:
        k = rng.randint(0, len(s))
        s = s[:k] + rng.choice(["[", "]", "{", "}", " ", "\n", "<nowiki>", "</nowiki>", "extend here", "&#8203;", "<", "'''", " ", "</n", "<n"]) + s[k:]
    return s


def g_garbage(rng, base=None):
    if base and rng.random() < 0.7:
        s = list(base)
        for _ in range(rng.randint(1, 3)):
            k = rng.randint(0, len(s))
            op = rng.random()
            tok = rng.choice(["*", "'", "'''", "[", "]", "{", "}", " ", "<nowiki>", "</nowiki>", "=", ",", "\n", "a", "#", "\t", " ", "extend here", "&#8203;", "<"])
            if op < 0.5 or not s:
                s[k:k] = list(tok)
            elif op < 0.8:
                del s[k:k + rng.randint(1, 4)]
            else:
                s[k:k + 1] = list(tok)
        return "".join(s)
    return "".join(rng.choice("*' []{}<>/=,#a\nb\t&nowiki") for _ in range(rng.randint(0, 14)))
