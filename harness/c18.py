"""C18 -- Backups restore byte-for-byte and are never half-valid.

Ties Model/Backup.v to hed/tools/remodeling/backup_manager.py, dispatcher.get_data_file and the
run_remodel{,_backup,_restore} CLIs WITHOUT source hooks: os.mkdir / shutil.copy2 / open / json.dump /
datetime are monkeypatched inside the harness (worker) process to record the real effect trace and to
interrupt create_backup at every file-system step."""
import builtins
import json
import os
import random
import shutil
from multiprocessing import Pool

from harness import common as C

PROP = "C18"
# 1: /repo contains fix commit fb42f68 for C18-F1 (create_backup also refuses a name that exists on disk);
#    correspondence uses the model with fixed=true and the oracle accepts no known-finding class.
# 0: the behaviour before fix commit fb42f68 (model fixed=false; the stale-manager overwrite was finding C18-F1).
FIXED = int(os.environ.get("VERIF_C18_FIXED", "1"))
COQ_TARGETS = ["Props/C18.vo", "Extract/ExtractC18.vo"]
TRUSTED = [
    "Model/Backup.v is a hand transcription of BackupManager (__init__, create_backup, _get_backups, "
    "_check_backup_consistency, get_backup_path, get_file_key, restore_backup, get_task), io_util.get_path_components/"
    "get_file_list, Dispatcher.get_data_file and run_remodel.handle_backup/main over a file system "
    "fs = list (path * node); tied by the correspondence run (effect trace of create_backup, outcome of a fresh "
    "BackupManager and the whole directory tree at every crash point, tree after every step of random histories)",
    "POSIX behaviour of os.mkdir / shutil.copy2 (a copy interrupted after k bytes leaves the first k bytes) / "
    "open(..,'w') + json.dump (an interrupted dump leaves a prefix of json.dumps(obj, indent=4)); timestamps ignored "
    "(datetime.now is pinned in the harness)",
    "json.load is modelled only on objects {string: string} without control / non-ASCII characters (the record "
    "format create_backup writes); compared with json.load on every prefix the harness produces",
    "file discovery (io_util.get_file_list + run_remodel.parse_tasks) is not modelled: the model of run_remodel "
    "receives the target list captured from the real run",
    "OSError family is mapped onto the constructor Unmodelled of the shared exn enum",
]
ASSUMPTIONS = [
    "C18_crash_consistent: for all trees, selections and ALL crash points (unbounded, induction over the trace), "
    "under: nothing exists below backups/<name> beforehand, selected files are not inside it, name components "
    "non-empty, not '.', no '/', code points >= 32",
    "the file-system model carries NO metadata (size is the content's length, no time stamps) and the modelled "
    "restore_backup copies every selected recorded file unconditionally; C18_restore_identical / "
    "C18_restore_selected_from_backup / C18_restore_history_independent are therefore statements about content under "
    "unconditional copying.  A restore that consults size / mtime to decide what to copy is not this program: that is "
    "tied by the restore effect-trace correspondence (the real restore must perform exactly the model's mkdir/copy "
    "effects: one copy per selected recorded file) and searched on the implementation by same-size in-place edits "
    "whose atime/mtime are reset to the pre-edit values, to the backup copy's values, or back-dated",
    "outcomes after a crash: the property names two (not listed / listed complete); the code has a third, counted as "
    "'not listed': the constructor raises (C18_crash_midway_raises: exactly between the first mkdir and the completed "
    "record).  While the half-made backups/<name> exists no BackupManager can be constructed, so every other backup of "
    "that directory is unavailable too -- behaviour of the code, observed by the harness, not excluded by the property",
    "C18_restore_total establishes when a full restore completes (harmless edits outside the backup, non-empty "
    "selection); the other restore/remodel theorems (C18_restore_identical, _selected_from_backup, C18_remodel_idempotent, "
    "C18_remodel_from_backup) are stated for runs that complete; completion of a task-filtered restore and of a remodel "
    "run is shown by the harness only",
    "C18_restore_identical / C18_remodel_idempotent / C18_remodel_from_backup are stated for runs that complete "
    "(a restore or remodel aborted by an OS error is outside the statement); the backup record seen by the "
    "second remodel run is taken equal to the first (the run provably never writes below backups/<name>)",
    "file and directory names: the model and theorems cover every name that is non-empty, not '.' or '..', without '/' "
    "and with code points >= 32 (leading periods, blanks, long names included; generated); non-ASCII and control "
    "characters are generated for the implementation-side oracle only",
    "backup names are strings as the API/CLI accept them; the model resolves them like realpath(join(backups_path, "
    "name)) (empty and '.' components vanish): covered are all spellings resolving to ONE directory entry ('b1/', "
    "'./b1', 'b1/.', 'b1//'); nested names ('a/b'), '..' and absolute names are outside the model and not generated",
    "C18_never_overwritten (current /repo = after fix commit fb42f68, create_backup true; the bare statement is the "
    "modelled guard read back, its corollaries _listed/_alias/crash_then_create carry content): any manager object, any file system in "
    "which backups/<name> exists; C18_never_overwritten_stale_refuted keeps the witness of the repaired defect "
    "(behaviour before fix commit fb42f68, create_backup false); VERIF_C18_FIXED=0 checks that old behaviour against "
    "fixed=false",
]

TS = "2026-01-02 03:04:05.678901"
OPS = [{"operation": "rename_columns", "description": "rename",
        # deliberately NOT idempotent as a table transformation (a second application renames again), so a run
        # that starts from anything but the backed-up original shows up in the twice-equals-once clause
        "parameters": {"column_mapping": {"trial_type": "tt", "duration": "trial_type"}, "ignore_missing": True}}]
REL_BACKUPS = ("derivatives", "remodel", "backups")


ALIASES = ["{}", "{}/", "./{}", "{}/.", "{}//", "./{}//./"]


def canon(name):
    """The directory entry a backup name resolves to under realpath(join(backups_path, name))."""
    return "/".join(c for c in name.split("/") if c not in ("", "."))


def alias(name, i):
    """The i-th spelling of the same directory (0 = as given)."""
    return ALIASES[i % len(ALIASES)].format(name)


class Interrupt(BaseException):
    """The injected interruption (not an Exception, so no handler in the code under test eats it)."""


def exn_name(e):
    from hed.errors.exceptions import HedFileError
    if isinstance(e, HedFileError):
        return "HedFileError"
    if isinstance(e, ValueError):
        return "ValueError"
    if isinstance(e, OSError):
        return "OSError"
    return type(e).__name__


def b2s(b):
    return b.decode("latin-1")


def s2b(s):
    return s.encode("latin-1")


# ---------------------------------------------------------------- real file trees

def build_tree(root, tree):
    """tree: {relpath: None (dir) | latin-1 str (file)}"""
    os.makedirs(root, exist_ok=True)
    for rel in sorted(tree, key=lambda r: (r.count("/"), r)):
        p = os.path.join(root, rel)
        if tree[rel] is None:
            os.makedirs(p, exist_ok=True)
        else:
            os.makedirs(os.path.dirname(p), exist_ok=True)
            with builtins.open(p, "wb") as f:
                f.write(s2b(tree[rel]))


def snapshot(root):
    out = {}
    for r, dirs, files in os.walk(root):
        for d in dirs:
            out[os.path.relpath(os.path.join(r, d), root)] = None
        for f in files:
            p = os.path.join(r, f)
            with builtins.open(p, "rb") as fh:
                out[os.path.relpath(p, root)] = b2s(fh.read())
    return out


class Instr:
    """Records the effective file-system effects of create_backup and optionally interrupts before
    effect number crash_n (crash_k None) or inside it after crash_k bytes."""

    def __init__(self, root, crash_n=None, crash_k=None):
        self.root = root
        self.crash_n, self.crash_k = crash_n, crash_k
        self.n = 0
        self.trace = []
        self.pending = None

    def rel(self, p):
        return os.path.relpath(os.path.realpath(p), os.path.realpath(self.root))

    def hit(self):
        return self.crash_n is not None and self.n == self.crash_n

    def __enter__(self):
        import hed.tools.remodeling.backup_manager as bm
        import datetime as _dt
        self.bm = bm
        self.o_mkdir, self.o_copy2, self.o_dump = os.mkdir, shutil.copy2, json.dump
        ins = self

        def mkdir(path, *a, **k):
            if os.path.lexists(path):
                return ins.o_mkdir(path, *a, **k)      # FileExistsError: not an effect
            if ins.hit():
                raise Interrupt()
            r = ins.o_mkdir(path, *a, **k)
            ins.n += 1
            ins.trace.append(["mkdir", ins.rel(path)])
            return r

        def copy2(src, dst, *a, **k):
            if ins.hit():
                if ins.crash_k is None:
                    raise Interrupt()
                with builtins.open(src, "rb") as f:      # missing source: the real error, nothing created
                    data = f.read()
                with builtins.open(dst, "wb") as f:
                    f.write(data[:ins.crash_k])
                raise Interrupt()
            r = ins.o_copy2(src, dst, *a, **k)
            ins.n += 1
            ins.trace.append(["copy", ins.rel(src), ins.rel(dst)])
            return r

        def open_(path, mode="r", *a, **k):
            if "w" in mode:
                if ins.hit() and ins.crash_k is None:
                    raise Interrupt()
                fp = builtins.open(path, mode, *a, **k)
                ins.pending = (fp, path)
                return fp
            return builtins.open(path, mode, *a, **k)

        def dump(obj, fp, *a, **k):
            if ins.pending is not None and fp is ins.pending[0]:
                text = json.dumps(obj, *a, **k)
                if ins.hit():
                    fp.write(text[:ins.crash_k])
                    fp.flush()
                    raise Interrupt()
                fp.write(text)
                ins.n += 1
                ins.trace.append(["write", ins.rel(ins.pending[1]), text])
                ins.pending = None
                return None
            return ins.o_dump(obj, fp, *a, **k)

        class FakeDT(_dt.datetime):
            @classmethod
            def now(cls, tz=None):
                return _dt.datetime(2026, 1, 2, 3, 4, 5, 678901)

        os.mkdir, shutil.copy2, json.dump = mkdir, copy2, dump
        bm.open = open_
        self.o_datetime = bm.datetime
        bm.datetime = FakeDT
        return self

    def __exit__(self, *exc):
        os.mkdir, shutil.copy2, json.dump = self.o_mkdir, self.o_copy2, self.o_dump
        if "open" in self.bm.__dict__:
            del self.bm.open
        self.bm.datetime = self.o_datetime
        return False


def manager_outcome(root, backups_root=None):
    """What a fresh BackupManager says: ["exn", name] or ["ok", {backup: [keys]}, manager]."""
    from hed.tools.remodeling.backup_manager import BackupManager
    try:
        m = BackupManager(root, backups_root=backups_root)
    except Exception as e:  # noqa
        return ["exn", exn_name(e)], None
    return ["ok", {b: list(d.keys()) for b, d in m.backups_dict.items()}], m


def check_listed_complete(m, name, originals, where):
    """Oracle: a listed backup has every recorded file present with the original bytes."""
    bad = []
    d = m.backups_dict.get(name)
    if d is None:
        return bad
    for key in d:
        bpath = os.path.join(m.backups_path, name, "backup_root", key)
        if not os.path.isfile(bpath):
            bad.append(f"{where}: recorded file {key!r} missing in backup")
            continue
        with builtins.open(bpath, "rb") as f:
            got = b2s(f.read())
        if key not in originals or originals[key] is None:
            bad.append(f"{where}: recorded file {key!r} has no original")
        elif got != originals[key]:
            bad.append(f"{where}: recorded file {key!r} truncated/different ({len(got)} vs {len(originals[key])} bytes)")
    return bad


def abs_files(root, scn):
    out = []
    for f in scn["files"]:
        out.append(f[4:] if f.startswith("ABS:") else os.path.join(root, f))
    return out


def real_crash(scn):
    """Clean instrumented run + one interrupted run per crash point, each on a private copy."""
    from hed.tools.remodeling.backup_manager import BackupManager
    base = C.scratch_dir("hedverif-c18-")
    out = {"violations": [], "points": []}
    try:
        init = os.path.join(base, "init")
        build_tree(init, scn["tree"])
        for pre in scn.get("pre", []):
            try:
                with Instr(init):
                    BackupManager(init).create_backup([os.path.join(init, f) for f in pre["files"]], pre["name"])
            except Exception as e:  # noqa  (the code under test, not the harness)
                out["violations"].append(["create-completes", [0, -1], f"create_backup({pre['name']!r}) of existing regular "
                                          f"files {pre['files']} raised {exn_name(e)}: {str(e)[:80]}"])
                out["clean"], out["trace"], out["tree0"] = ["ctor-exn", exn_name(e)], [], snapshot(init)
                return out
        tree0 = snapshot(init)
        out["tree0"] = tree0
        # clean run
        run = os.path.join(base, "clean")
        shutil.copytree(init, run)
        res = None
        try:
            m = BackupManager(run)
            with Instr(run) as ins:
                try:
                    res = ["ok", m.create_backup(abs_files(run, scn), scn["name"])]
                except Exception as e:  # noqa
                    res = ["exn", exn_name(e)]
                    if not isinstance(e, OSError) and all(isinstance(tree0.get(f), str) for f in scn["files"]) \
                            and exn_name(e) != "HedFileError":
                        out["violations"].append(["create-completes", [len(ins.trace), -1],
                                                  f"create_backup of existing regular files raised {exn_name(e)}: {str(e)[:80]}"])
            trace = ins.trace
        except Exception as e:  # noqa
            res = ["ctor-exn", exn_name(e)]
            trace = []
        out["clean"] = res
        out["trace"] = trace
        # crash points
        pts = []
        rng = random.Random(scn.get("seed", 0))
        full = scn.get("all_k", False)
        for n, e in enumerate(trace):
            pts.append([n, -1])
            if e[0] == "copy":
                ln = len(tree0.get(e[1]) or "")
            elif e[0] == "write":
                ln = len(e[2])
            else:
                continue
            if full or ln <= 8:
                ks = list(range(ln))
            else:
                ks = sorted({0, 1, ln // 2, ln - 1} | ({2, ln - 2, rng.randrange(ln), rng.randrange(ln)}
                                                      if e[0] == "write" else set()))
            pts += [[n, k] for k in ks if 0 <= k < ln]
        pts.append([len(trace), -1])
        if res and res[0] == "ctor-exn":
            pts = []
        # every crash point on ONE working copy: an interrupted create_backup may only have written below
        # backups/<name>, which is removed afterwards (checked: nothing else changed)
        d = os.path.join(base, "work")
        shutil.copytree(init, d)
        BackupManager(d)
        base_state = snapshot(d)
        cname = canon(scn["name"])
        bdir = "/".join(REL_BACKUPS) + "/" + cname
        existing = cname in [canon(p["name"]) for p in scn.get("pre", [])]

        def outside(st):
            return {p: v for p, v in st.items() if existing or not (p == bdir or p.startswith(bdir + "/"))}
        for i, (n, k) in enumerate(pts):
            try:
                m = BackupManager(d)
            except Exception as e:  # noqa
                out["violations"].append(["crash-cleanup", [n, k], f"constructor raised {exn_name(e)} on the reset tree"])
                break
            with Instr(d, n, None if k < 0 else k):
                try:
                    r = ["ok", m.create_backup(abs_files(d, scn), scn["name"])]
                except Interrupt:
                    r = ["interrupted"]
                except Exception as e:  # noqa
                    r = ["exn", exn_name(e)]
            # the same (in-memory) manager must not list a half backup either
            for msg in check_listed_complete(m, scn["name"], tree0, "same manager"):
                out["violations"].append(["crash-listed-complete", [n, k], msg])
            oc, m2 = manager_outcome(d)
            if m2 is not None:
                for msg in check_listed_complete(m2, cname, tree0, "fresh manager"):
                    out["violations"].append(["crash-listed-complete", [n, k], msg])
                for pre in scn.get("pre", []):      # other backups stay intact
                    if canon(pre["name"]) != cname:
                        for msg in check_listed_complete(m2, canon(pre["name"]), tree0, "other backup"):
                            out["violations"].append(["crash-other-backup", [n, k], msg])
            state = snapshot(d)
            out["points"].append({"pt": [n, k], "run": r, "outcome": oc, "state": state})
            # C18_crash_then_create on the implementation: the manager object that was interrupted (constructed
            # before the half-made directory existed) retries the same name: refused, nothing changes
            if FIXED and k < 0 and 1 <= n < len(trace) and not existing and r == ["interrupted"]:
                retry = alias(cname, i)       # any spelling of the same directory
                try:
                    with Instr(d):
                        r2 = ["ok", m.create_backup(abs_files(d, scn), retry)]
                except Exception as e:  # noqa
                    r2 = ["exn", exn_name(e)]
                st2 = snapshot(d)
                if r2 != ["ok", False] or st2 != state:
                    out["violations"].append(["crash-then-create", [n, k], f"retry as {retry!r} on a half-made backup -> "
                                              f"{r2}, changed {diff_state(st2, state)}"])
                    state = st2
            if outside(state) != outside(base_state):
                what = "never-overwritten" if existing else "create-touches-only"
                out["violations"].append([what, [n, k], f"create_backup({scn['name']!r}) changed "
                                          f"{diff_state(outside(state), outside(base_state))}"])
                shutil.rmtree(d, ignore_errors=True)
                shutil.copytree(init, d)
                BackupManager(d)
            elif not existing:
                shutil.rmtree(os.path.join(d, *REL_BACKUPS, cname), ignore_errors=True)
    finally:
        shutil.rmtree(base, ignore_errors=True)
    return out


# ---------------------------------------------------------------- histories

_op_cache = {}


def compute_op(content, base):
    """op(content): the remodelled table text, computed by the real Dispatcher without any backup."""
    if content in _op_cache:
        return _op_cache[content]
    from hed.tools.remodeling.dispatcher import Dispatcher
    tmp = os.path.join(base, "op_in_events.tsv")
    with builtins.open(tmp, "wb") as f:
        f.write(s2b(content))
    try:
        disp = Dispatcher(OPS, data_root=None, backup_name=None)
        df = disp.run_operations(tmp)
        df.to_csv(tmp + ".out", sep="\t", index=False, header=True)
        with builtins.open(tmp + ".out", "rb") as f:
            out = b2s(f.read())
    except Exception:  # noqa
        out = None
    _op_cache[content] = out
    return out


def same_size_edit(data, how, k):
    """A different byte string of the same length (None when there is none of this kind)."""
    n = len(data)
    if n == 0:
        return None
    b = bytearray(data)
    if how == "swap":
        pairs = [(i, j) for i in range(n) for j in range(i + 1, min(n, i + 12)) if b[i] != b[j]]
        if not pairs:
            return None
        i, j = pairs[k % len(pairs)]
        b[i], b[j] = b[j], b[i]
    elif how == "flip":
        b[k % n] ^= 1
    else:  # rot
        b = b[1:] + b[:1]
    return bytes(b) if bytes(b) != data else None


def task_match(tasks, key):
    """The statement's 'requested tasks' as the code implements the marker: task_<name> in the base name."""
    base = key.rsplit("/", 1)[-1]
    for t in tasks:                      # first requested name whose marker occurs decides
        if ("task_" + t) in base:
            return True
    return False


def ancestors(key):
    parts = key.split("/")
    return {"/".join(parts[:i]) for i in range(1, len(parts))}


def real_hist(scn):
    from hed.tools.remodeling.backup_manager import BackupManager
    from hed.tools.remodeling.cli import run_remodel, run_remodel_backup, run_remodel_restore
    from hed.tools.util import io_util
    base = C.scratch_dir("hedverif-c18-")
    out = {"violations": [], "steps": []}
    try:
        # the names of the dataset root (and its ancestors) and of an alternative backups location (-bd /
        # backups_root) are inputs too; with "bd" the external location is shown in the snapshots at the
        # standard place derivatives/remodel/backups (the model is not consulted for such scenarios)
        root = os.path.join(base, scn.get("rootname", "data"))
        build_tree(root, scn["tree"])
        bd = os.path.join(base, scn["bd"]) if scn.get("bd") else None
        bd_args = ["-bd", bd] if bd else []
        bk_abs = bd or os.path.join(root, *REL_BACKUPS)

        def mk():
            return BackupManager(root, backups_root=bd)

        def snapshot_(r):
            sn = snapshot(r)
            if bd and os.path.isdir(bd):
                pre_ = "/".join(REL_BACKUPS)
                for i_ in range(1, len(REL_BACKUPS) + 1):
                    sn["/".join(REL_BACKUPS[:i_])] = None
                for k_, v_ in snapshot(bd).items():
                    sn[pre_ + "/" + k_] = v_
            return sn
        model_path = os.path.join(base, "ops.json")
        with builtins.open(model_path, "w") as f:
            json.dump(OPS, f)
        out["tree0"] = snapshot_(root)
        originals = {}      # backup name -> {key: bytes at backup time}
        stale = {}
        for si, st in enumerate(scn["steps"]):
            before = snapshot_(root)
            rec = {"op": st["op"]}
            res = None
            try:
                if st["op"] == "create":
                    files = [os.path.join(root, f) for f in st["files"]]
                    existed = os.path.exists(os.path.join(root, *REL_BACKUPS, st["name"]))
                    with Instr(root):
                        if st.get("via") == "cli":
                            # the CLI discovers the files itself; used only for the exists check
                            run_remodel_backup.main([root, "-bn", st["name"], "-x", "derivatives", "-f", "*", "-e", "*"] + bd_args)
                            res = ["ok", None]
                        else:
                            res = ["ok", bool(mk().create_backup(files, st["name"]))]
                elif st["op"] == "hold":          # construct a manager now, use it later (stale)
                    stale[st["id"]] = mk()
                    res = ["ok"]
                elif st["op"] == "stale":
                    files = [os.path.join(root, f) for f in st["files"]]
                    with Instr(root):
                        res = ["ok", bool(stale[st["id"]].create_backup(files, st["name"]))]
                elif st["op"] == "write":
                    p = os.path.join(root, st["path"])
                    os.makedirs(os.path.dirname(p), exist_ok=True)
                    with builtins.open(p, "wb") as f:
                        f.write(s2b(st["data"]))
                    res = ["ok"]
                elif st["op"] == "delete":
                    p = os.path.join(root, st["path"])
                    if os.path.isfile(p):
                        os.remove(p)
                    res = ["ok"]
                elif st["op"] == "edit":
                    # same-size in-place edit; the file's metadata afterwards is what a metadata-preserving
                    # tool (cp -p, rsync -t, touch -r, an edit within one clock tick) leaves behind
                    p = os.path.join(root, st["path"])
                    rec["data"] = None
                    if os.path.isfile(p):
                        with builtins.open(p, "rb") as f:
                            data = f.read()
                        new = same_size_edit(data, st["how"], st.get("k", 0))
                        if new is not None:
                            stt = os.stat(p)
                            with builtins.open(p, "r+b") as f:
                                f.write(new)
                            if st["meta"] == "keep":
                                os.utime(p, ns=(stt.st_atime_ns, stt.st_mtime_ns))
                            elif st["meta"] == "backup":
                                cands = [os.path.join(bk_abs, nm_, "backup_root", st["path"]) for nm_ in originals]
                                cands = [c for c in cands if os.path.isfile(c)]
                                ref = os.stat(cands[0]) if cands else stt
                                os.utime(p, ns=(ref.st_atime_ns, ref.st_mtime_ns))
                            elif st["meta"] == "old":
                                os.utime(p, ns=(stt.st_atime_ns, stt.st_mtime_ns - 3600 * 10 ** 9))
                            rec["data"] = b2s(new)
                    res = ["ok"]
                elif st["op"] == "restore":
                    try:
                        mk()                         # the constructor's own mkdirs are not part of the restore trace
                    except Exception:  # noqa
                        pass
                    with Instr(root) as ins:
                        try:
                            if st.get("via") == "cli":
                                run_remodel_restore.main([root, "-bn", st["name"]] + bd_args + (["-t"] + st["tasks"] if st["tasks"] else []))
                            else:
                                mk().restore_backup(st["name"], st["tasks"], verbose=False)
                        finally:
                            rec["trace"] = ins.trace
                    res = ["ok"]
                elif st["op"] == "remodel":
                    captured = {}
                    o_parse = run_remodel.parse_tasks

                    def parse_tasks(files, task_args):
                        d = o_parse(files, task_args)
                        captured["targets"] = [os.path.relpath(f, os.path.realpath(root)) for fl in d.values() for f in fl]
                        return d
                    run_remodel.parse_tasks = parse_tasks
                    try:
                        args = [root, model_path, "-bn", st["name"], "-x", "derivatives", "-ns"]
                        if st["tasks"]:
                            args += ["-t"] + st["tasks"]
                        try:
                            run_remodel.main(args)
                            res = ["ok"]
                        finally:
                            rec["targets"] = captured.get("targets", [])
                    finally:
                        run_remodel.parse_tasks = o_parse
                elif st["op"] == "list":
                    oc, _m = manager_outcome(root, bd)
                    res = oc
            except Exception as e:  # noqa
                res = ["exn", exn_name(e)]
            after = snapshot_(root)
            rec["result"] = res
            rec["state"] = after
            changed = {p for p in set(before) | set(after) if before.get(p, "<absent>") != after.get(p, "<absent>")}
            # ------------- oracle (statement clauses, checked on the implementation)
            bdir = "/".join(REL_BACKUPS)
            if st["op"] == "create" and res[0] == "exn" and res[1] != "HedFileError" and st.get("via") != "cli" \
                    and canon(st["name"]) not in originals and f"{bdir}/{canon(st['name'])}" not in before \
                    and all(isinstance(before.get(f), str) for f in st["files"]):
                out["violations"].append(["create-completes", si, f"create_backup of existing regular files raised {res[1]}", None])
            if st["op"] in ("create", "stale"):
                nm = canon(st["name"])
                if nm in originals:
                    # an existing backup of the same name is never overwritten
                    under = {p for p in changed if p == f"{bdir}/{nm}" or p.startswith(f"{bdir}/{nm}/")}
                    if under or (res[0] == "ok" and res[1] is True):
                        out["violations"].append(["never-overwritten", si, f"create_backup({st['name']!r}) on existing {nm!r} -> {res}, "
                                                  f"changed {sorted(under)[:3]}", "stale" if st["op"] == "stale" else None])
                elif res[0] == "ok" and res[1] is not False and f"{bdir}/{nm}/backup_lock.json" in after:
                    rec["keys"] = list(json.loads(after[f"{bdir}/{nm}/backup_lock.json"]))
                    originals[nm] = {k: before.get(k) for k in rec["keys"]}
                    oc, m2 = manager_outcome(root, bd)
                    if m2 is None or nm not in m2.backups_dict:
                        out["violations"].append(["created-backup-listed", si, f"{oc[:2]}", None])
                    elif set(m2.backups_dict[nm]) != set(rec["keys"]) or \
                            (st.get("via") != "cli" and set(rec["keys"]) != set(st["files"])):
                        # a fresh manager lists the backup with EVERY recorded file (and the record names the selection)
                        out["violations"].append(["created-backup-lists-every-file", si,
                                                  f"listed {sorted(m2.backups_dict[nm])} record {sorted(rec['keys'])} "
                                                  f"selection {sorted(st['files'])}"[:400], None])
                    else:
                        for msg in check_listed_complete(m2, nm, before, "after create"):
                            out["violations"].append(["created-backup-complete", si, msg, None])
            if st["op"] == "restore" and canon(st["name"]) in originals:
                orig = originals[canon(st["name"])]
                sel = [k for k in orig if (not st["tasks"]) or task_match(st["tasks"], k)]
                allowed = set(sel) | set().union(*[ancestors(k) for k in sel]) if sel else set()
                extra = changed - allowed
                if extra:
                    out["violations"].append(["restore-touches-only", si, f"tasks={st['tasks']} also changed {sorted(extra)[:4]}", None])
                if res == ["ok"]:
                    # full restore: every backed-up file.  Task restore: every recorded file of EVERY requested task
                    # (marker task_<name> in the base name, for each non-empty requested name, whatever its position
                    # in the list; a list containing an empty name is degenerate and only "touched => identical" is
                    # required of it), and every file the restore touched.
                    if not st["tasks"]:
                        need = sel
                    elif all(st["tasks"]):
                        need = [k for k in orig if any(("task_" + t) in k.rsplit("/", 1)[-1] for t in st["tasks"])]
                    else:
                        need = [k for k in sel if k in changed]
                    for k in need:
                        if after.get(k) != orig[k]:
                            out["violations"].append(["restore-identical", si, f"tasks={st['tasks']}: {k!r} differs from "
                                                      f"the backed-up original", None])
            if st["op"] == "remodel" and canon(st["name"]) in originals and res == ["ok"]:
                orig = originals[canon(st["name"])]
                for t in rec["targets"]:
                    if t in orig and orig[t] is not None:
                        exp = compute_op(orig[t], base)
                        if exp is not None and after.get(t) != exp:
                            out["violations"].append(["remodel-from-backup", si, f"{t!r} is not op(backed-up original)", None])
                if scn["steps"][si - 1] == st and si > 0 and out["steps"][-1]["result"] == ["ok"]:
                    if out["steps"][-1]["state"] != after:
                        diff = [p for p in set(after) | set(before) if out["steps"][-1]["state"].get(p) != after.get(p)]
                        out["violations"].append(["remodel-idempotent", si, f"second run differs at {sorted(diff)[:4]}", None])
            if st["op"] == "remodel":
                pre = f"{bdir}/{canon(st['name'])}/backup_root/"
                tbl = {}
                for p_, c_ in before.items():
                    if p_.startswith(pre) and c_ is not None:
                        o_ = compute_op(c_, base)
                        if o_ is not None:
                            tbl[c_] = o_
                rec["optable"] = [[k, v] for k, v in tbl.items()]
            if st["op"] in ("restore", "remodel", "write", "delete", "list", "edit"):
                bchanged = {p for p in changed if p.startswith(bdir + "/")}
                if bchanged:
                    out["violations"].append(["backup-immutable", si, f"{st['op']} changed {sorted(bchanged)[:3]}", None])
            out["steps"].append(rec)
    finally:
        shutil.rmtree(base, ignore_errors=True)
    return out


def real_case(scn):
    try:
        return real_crash(scn) if scn["kind"] == "crash" else real_hist(scn)
    except Exception as e:  # noqa
        import traceback
        return {"harness_error": traceback.format_exc()[-2000:], "violations": []}


# ---------------------------------------------------------------- model side

def P(rel):
    return [C.cps(c) for c in rel.split("/")]


def tree_sx(tree):
    return [[P(rel), "D" if v is None else ["F", C.cps(v)]] for rel, v in sorted(tree.items())]


def state_of(sx):
    out = {}
    for p, nd in sx:
        rel = "/".join(C.uncps(c) for c in p)
        out[rel] = None if nd == "D" else C.uncps(nd[1])
    return out


def mgr_of(sx):
    return {C.uncps(nm): [C.uncps(k) for k in ks] for nm, ks in sx}


def model_ok_names(scn):
    """Inside the modelled domain: relative files, code points 32..126."""
    def ok(s):
        return all(32 <= ord(c) <= 126 for c in s)
    names = list(scn["tree"]) + [scn.get("name", "")] + [p["name"] for p in scn.get("pre", [])]
    for st in scn.get("steps", []):
        names += [st.get("name", ""), st.get("path", "")] + st.get("files", []) + st.get("tasks", [])
    names += scn.get("files", [])
    if scn.get("bd"):
        return False
    return all(ok(n) and not n.startswith("ABS:") for n in names)


def crash_request(scn, real):
    pts = [p["pt"] for p in real["points"]]
    return C.to_sx(["crash", FIXED, tree_sx(real["tree0"]), [P(f) for f in scn["files"]], C.cps(scn["name"]), C.cps(TS), pts])


def hist_request(scn, real):
    steps = []
    for st, rec in zip(scn["steps"], real["steps"]):
        op = st["op"]
        if op == "create":
            files = rec.get("keys", st["files"]) if st.get("via") == "cli" else st["files"]
            steps.append(["create", [P(f) for f in files], C.cps(st["name"]), C.cps(TS)])
        elif op == "hold":
            steps.append(["list"])
        elif op == "stale":
            steps.append(["stale", [P(f) for f in st["files"]], C.cps(st["name"]), C.cps(TS)])
        elif op == "write":
            steps.append(["write", P(st["path"]), C.cps(st["data"])])
        elif op == "delete":
            steps.append(["delete", P(st["path"])])
        elif op == "edit":
            steps.append(["write", P(st["path"]), C.cps(rec["data"])] if rec.get("data") is not None else ["nop"])
        elif op == "restore":
            steps.append(["restore", C.cps(st["name"]), [C.cps(t) for t in st["tasks"]]])
        elif op == "remodel":
            steps.append(["remodel", C.cps(st["name"]), [C.cps(t) for t in st["tasks"]],
                          [P(t) for t in rec.get("targets", [])],
                          [[C.cps(a), C.cps(b)] for a, b in rec.get("optable", [])]])
        elif op == "list":
            steps.append(["list"])
    return C.to_sx(["hist", FIXED, tree_sx(real["tree0"]), steps])


def diff_state(a, b):
    d = [p for p in set(a) | set(b) if a.get(p, "<absent>") != b.get(p, "<absent>")]
    return sorted(d)[:4]


def compare_crash(scn, real, m):
    """Returns list of disagreement strings."""
    out = []
    if m[0] == "ERR":
        return [f"model driver: {m}"]
    mtrace = []
    for e in m[0]:
        if e[0] == "mkdir":
            mtrace.append(["mkdir", "/".join(C.uncps(c) for c in e[1])])
        elif e[0] == "copy":
            mtrace.append(["copy", "/".join(C.uncps(c) for c in e[1]), "/".join(C.uncps(c) for c in e[2])])
        else:
            mtrace.append(["write", "/".join(C.uncps(c) for c in e[1]), C.uncps(e[2])])
    if mtrace != real["trace"]:
        out.append(f"effect trace: impl={real['trace']} model={mtrace}")
    for pt, mr in zip(real["points"], m[1]):
        moc = mr[0]
        if moc[0] == "exn":
            mo = ["exn", moc[1]]
        else:
            mo = ["ok", mgr_of(moc[1])]
        ro = pt["outcome"]
        if ro[0] != mo[0] or (ro[0] == "ok" and ro[1] != mo[1]) or (ro[0] == "exn" and ro[1] != mo[1]):
            out.append(f"crash point {pt['pt']}: outcome impl={ro} model={mo}")
        ms = state_of(mr[1])
        if ms != pt["state"]:
            out.append(f"crash point {pt['pt']}: tree differs at {diff_state(ms, pt['state'])}")
    return out


def compare_hist(scn, real, m):
    out = []
    if m and m[0] == "ERR":
        return [f"model driver: {m}"]
    for si, (st, rec, mr) in enumerate(zip(scn["steps"], real["steps"], m)):
        mres, mstate = mr[0], mr[1]
        if st["op"] == "restore" and "trace" in rec:
            # restore copies every selected recorded file, unconditionally (the model has no metadata)
            mtrace = []
            for e in mr[2]:
                if e[0] == "mkdir":
                    mtrace.append(["mkdir", "/".join(C.uncps(c) for c in e[1])])
                elif e[0] == "copy":
                    mtrace.append(["copy", "/".join(C.uncps(c) for c in e[1]), "/".join(C.uncps(c) for c in e[2])])
            if mtrace != rec["trace"]:
                out.append(f"step {si} restore effect trace: impl={rec['trace']} model={mtrace}")
        rr = rec["result"]
        if st["op"] in ("list",):
            mo = ["exn", mres[1]] if mres[0] == "exn" else ["ok", mgr_of(mres[1])]
            if rr != mo:
                out.append(f"step {si} list: impl={rr} model={mo}")
        elif st["op"] == "hold":
            pass
        elif st["op"] in ("create", "stale"):
            mo = ["exn", mres[1]] if mres[0] == "exn" else ["ok", mres[1] == "1"]
            if st.get("via") == "cli":
                ok = (rr[0] == "ok" and mo[0] == "ok") or (rr == ["exn", "HedFileError"] and mo in (["ok", False], ["exn", "HedFileError"])) \
                    or rr == mo
            else:
                ok = rr == mo
            if not ok:
                out.append(f"step {si} {st['op']}: impl={rr} model={mo}")
        else:
            mo = ["ok"] if mres[0] == "ok" else ["exn", mres[1]]
            if rr != mo:
                out.append(f"step {si} {st['op']}: impl={rr} model={mo}")
        ms = state_of(mstate)
        if ms != rec["state"]:
            out.append(f"step {si} {st['op']}: tree differs at {diff_state(ms, rec['state'])}")
            break
    return out


# ---------------------------------------------------------------- generators

WORDS = ["sub-01", "sub-02", "eeg", "ses-1", "code", "stimuli", "derivatives", "other", "a b", "x.y", "d-1"]
# names are an input dimension: dot-prefixed, double-dot-prefixed, blanks at either end, upper case, long
DOTTED = [".orig", ".staging", ".a.b", "..x", "...", ".git", " lead", "trail ", "UPPER", "L" * 60 + "ong"]
ODD = ['q"t', "back\\slash", "br{ace}", "co,mma", "col:on", "it's", "[b]"]
OUTSIDE = ["café", "日本", "tab\tname", "nl\nname"]
TASKS = ["go", "stop", "x", ""]
BNAMES = ["default_back", "b1", "bk 2", 'x"y', "back.up", "B\\1", "before_task_go_cleanup", "task_x"]
# names of the dataset root (with ancestors) and of an alternative backups location
ROOTS = ["data", "data", "study_task_gonogo", "task_x/ds", "my data/.r"]
BDS = ["alt_backups", "bk_task_go_store/task_stop"]


def gen_tsv(rng):
    rows = ["onset\tduration\ttrial_type"]
    for i in range(rng.randint(0, 4)):
        rows.append(f"{i}.5\t{rng.choice(['0.25', 'n/a', '1'])}\t{rng.choice(['go', 'stop', 'show'])}")
    x = rng.random()
    if x < 0.7:
        return "\n".join(rows) + "\n"
    if x < 0.85:                                   # file written by a Windows tool
        return "\r\n".join(rows) + "\r\n"
    if x < 0.92:                                   # old-Mac line ends
        return "\r".join(rows) + "\r"
    return "\n".join(rows + ['9.5\t1\t"free\rtext"']) + "\n"     # a CR inside a quoted field


def gen_blob(rng):
    n = rng.choice([0, 0, 1, 2, 5, 9, 17, 40])
    return "".join(chr(rng.randrange(256)) for _ in range(n))


def gen_tree(rng, odd=False, outside=False):
    tree = {}
    dirs = [""]
    dotted = rng.random() < 0.45
    for _ in range(rng.randint(0, 4) + (1 if dotted else 0)):
        parent = rng.choice(dirs)
        pool = WORDS + (ODD if odd else []) + (OUTSIDE if outside else []) + (DOTTED * 3 if dotted else [])
        d = (parent + "/" if parent else "") + rng.choice(pool)
        if d.startswith("derivatives/remodel"):
            continue
        if d not in tree:
            tree[d] = None
            dirs.append(d)
    nfiles = rng.randint(1, 6)
    for i in range(nfiles):
        parent = rng.choice(dirs)
        x = rng.random()
        stem = rng.choice(["sub-01", "run-1", "f", "z9"] + (ODD if odd else []) + (OUTSIDE if outside else []))
        if x < 0.35:
            nm = f"{stem}_task-{rng.choice(TASKS[:3])}_events.tsv"
        elif x < 0.6:
            nm = f"{stem}_task_{rng.choice(TASKS[:3])}_events.tsv"
        elif x < 0.75:
            nm = f"{stem}{i}_events.tsv"
        else:
            nm = rng.choice(["notes.txt", "README", "data.bin", ".hidden", stem + ".json"])
        rel = (parent + "/" if parent else "") + nm
        if rel in tree:
            continue
        tree[rel] = gen_tsv(rng) if nm.endswith(".tsv") else gen_blob(rng)
        # a same-named twin one level up (beside the directory the file lives in) or one level down
        if parent and rng.random() < 0.35:
            up = parent.rsplit("/", 1)[0] if "/" in parent else ""
            twin = (up + "/" if up else "") + nm
            if twin not in tree:
                tree[twin] = gen_tsv(rng) if nm.endswith(".tsv") else gen_blob(rng)
    return tree


def files_of(tree):
    return [r for r, v in tree.items() if v is not None]


def gen_crash(rng, i, malformed=False):
    odd = rng.random() < 0.3
    tree = gen_tree(rng, odd=odd, outside=malformed and rng.random() < 0.5)
    fl = files_of(tree)
    sel = rng.sample(fl, rng.randint(0 if rng.random() < 0.1 else 1, len(fl))) if fl else []
    if sel and rng.random() < 0.15:
        sel.append(rng.choice(sel))          # duplicate entry
    nm0 = rng.choice(BNAMES)
    scn = {"kind": "crash", "tree": tree, "files": sel, "name": nm0 if rng.random() < 0.75 else alias(nm0, rng.randint(1, 5)),
           "seed": i,
           "all_k": rng.random() < 0.04, "pre": []}
    if rng.random() < 0.35 and fl:
        scn["pre"].append({"name": nm0 if rng.random() < 0.4 else rng.choice(BNAMES),
                           "files": rng.sample(fl, rng.randint(1, len(fl)))})
    if malformed:
        x = rng.random()
        if x < 0.3:
            sel.insert(rng.randint(0, len(sel)), "missing_events.tsv")
        elif x < 0.5:
            sel.insert(rng.randint(0, len(sel)), "ABS:/etc/hostname")
        elif x < 0.7:
            dirs = [r for r, v in tree.items() if v is None]
            if dirs:
                sel.insert(rng.randint(0, len(sel)), rng.choice(dirs))
    return scn


def gen_hist(rng, i):
    tree = gen_tree(rng, odd=rng.random() < 0.25, outside=rng.random() < 0.08)
    fl = files_of(tree)
    if not any(f.endswith("_events.tsv") for f in fl):
        tree["sub-01_task-go_events.tsv"] = gen_tsv(rng)
        tree["f_task_go_events.tsv"] = gen_tsv(rng)
        fl = files_of(tree)
    name = rng.choice(BNAMES)
    rootname = rng.choice(ROOTS)
    bd = rng.choice(BDS) if rng.random() < 0.12 else None
    first = name if rng.random() < 0.85 else alias(name, rng.randint(1, 5))
    steps = []
    stale = rng.random() < 0.15
    if stale:
        steps.append({"op": "hold", "id": "0"})
    if rng.random() < 0.25:
        steps.append({"op": "create", "files": [], "name": first, "via": "cli"})
        sel = fl
    else:
        ev = [f for f in fl if f.endswith("_events.tsv")]
        sel = rng.sample(fl, rng.randint(1, len(fl))) if rng.random() < 0.5 else ev + rng.sample(
            [f for f in fl if f not in ev], rng.randint(0, len(fl) - len(ev)))
        steps.append({"op": "create", "files": sel, "name": first})
    dirs = [""] + [r for r, v in tree.items() if v is None and not r.startswith("derivatives")]
    live = set(fl)
    empties = [f for f in sel if tree.get(f) == ""]
    if empties and rng.random() < 0.7:
        steps.append({"op": "write", "path": rng.choice(empties), "data": rng.choice(["x", gen_tsv(rng)])})
        steps.append({"op": "restore", "name": name, "tasks": [], "via": rng.choice(["api", "cli"])})
    for _ in range(rng.randint(2, 8)):
        x = rng.random()
        if x < 0.3:
            if rng.random() < 0.8 and live:
                p = rng.choice(sorted(live))
            else:
                d = rng.choice(dirs)
                p = (d + "/" if d else "") + rng.choice(["new_task-go_events.tsv", "new.txt", "n_task_x_events.tsv"])
            steps.append({"op": "write", "path": p, "data": rng.choice([gen_blob(rng), gen_tsv(rng), "MODIFIED\n"])})
            live.add(p)
        elif x < 0.40 and live:
            p = rng.choice(sorted(live))
            steps.append({"op": "delete", "path": p})
            live.discard(p)
        elif x < 0.52 and live:
            cand = sorted(set(sel) & live) or sorted(live)
            steps.append({"op": "edit", "path": rng.choice(cand), "how": rng.choice(["swap", "swap", "flip", "rot"]),
                          "k": rng.randrange(1000), "meta": rng.choice(["keep", "keep", "backup", "new", "old"])})
            if rng.random() < 0.6:
                steps.append({"op": "restore", "name": name, "tasks": [], "via": rng.choice(["api", "cli"])})
                live |= set(sel)
        elif x < 0.7:
            steps.append({"op": "restore", "name": name if rng.random() < 0.85 else rng.choice(["nope", name + "/"]),
                          "tasks": rng.choice([[], [], ["go"], ["x", "go"], ["stop"], [""], ["stop", "go"], ["nope", "x", "stop"],
                                               ["go", "stop", "x"]]),
                          "via": rng.choice(["api", "cli"])})
            live |= set(sel)
        elif x < 0.85 and not bd:      # run_remodel takes no alternative backups location
            st = {"op": "remodel", "name": name, "tasks": rng.choice([[], [], ["go"], ["stop", "go"]])}
            steps += [st, dict(st)]
        elif x < 0.92:
            steps.append({"op": "create", "files": rng.sample(fl, rng.randint(1, len(fl))),
                          "name": alias(name, rng.randint(0, 5)) if rng.random() < 0.75 else rng.choice(BNAMES),
                          "via": rng.choice(["api", "api", "cli"])})
        else:
            steps.append({"op": "list"})
    if stale:
        steps.append({"op": "write", "path": sel[0], "data": "CHANGED AFTER BACKUP\n"})
        steps.append({"op": "stale", "id": "0", "files": sel, "name": alias(name, rng.randint(0, 5))})
    steps.append({"op": "list"})
    scn = {"kind": "hist", "tree": tree, "steps": steps, "rootname": rootname}
    if bd:
        scn["bd"] = bd
    return scn


CORPUS = [
    # witness of the repaired C18-F1: a manager constructed before the backup existed must refuse
    {"kind": "hist", "tree": {"sub": None, "sub/a_task_x.t": "\x01\x02\x03", 'c"\\': "\x07"},
     "steps": [{"op": "hold", "id": "0"},
               {"op": "create", "files": ["sub/a_task_x.t", 'c"\\'], "name": "b1"},
               {"op": "write", "path": "sub/a_task_x.t", "data": "\t"},
               {"op": "stale", "id": "0", "files": ["sub/a_task_x.t", 'c"\\'], "name": "b1"},
               {"op": "list"}]},
    # every spelling of an existing backup's directory is refused (fresh manager, CLI, stale manager)
    {"kind": "hist", "tree": {"sub": None, "sub/a_task_x.t": "\x01\x02\x03", 'c"\\': "\x07"},
     "steps": [{"op": "hold", "id": "0"},
               {"op": "create", "files": ["sub/a_task_x.t", 'c"\\'], "name": "b1"},
               {"op": "write", "path": "sub/a_task_x.t", "data": "\t"},
               {"op": "create", "files": ["sub/a_task_x.t", 'c"\\'], "name": "b1/"},
               {"op": "create", "files": ["sub/a_task_x.t"], "name": "./b1"},
               {"op": "create", "files": [], "name": "b1/.", "via": "cli"},
               {"op": "create", "files": ["sub/a_task_x.t"], "name": "b1//"},
               {"op": "stale", "id": "0", "files": ["sub/a_task_x.t", 'c"\\'], "name": "./b1//./"},
               {"op": "restore", "name": "b1", "tasks": [], "via": "api"},
               {"op": "list"}]},
    # a backup created under a non-canonical spelling is the backup of the resolved name
    {"kind": "hist", "tree": {"n_task_go_events.tsv": "onset\tduration\ttrial_type\n1\t2\tgo\n"},
     "steps": [{"op": "create", "files": ["n_task_go_events.tsv"], "name": "./bk 2/"},
               {"op": "write", "path": "n_task_go_events.tsv", "data": "changed"},
               {"op": "create", "files": ["n_task_go_events.tsv"], "name": "bk 2"},
               {"op": "restore", "name": "bk 2", "tasks": [], "via": "cli"},
               {"op": "list"}]},
    {"kind": "crash", "tree": {"a.txt": "xyz", "d": None, "d/b.bin": "\x00\xff"}, "files": ["a.txt", "d/b.bin"],
     "name": "b1/", "pre": [], "all_k": True},
    {"kind": "crash", "tree": {"a.txt": "xyz"}, "files": ["a.txt"], "name": "./b1", "pre": [{"name": "b1", "files": ["a.txt"]}]},
    # same-size edits that keep (or are given) the backup copy's time stamp are restored like any other edit
    {"kind": "hist", "tree": {"sub1": None, "sub1/sub1_events.tsv": "onset\tduration\ttrial_type\n1.0\t0.5\tgo\n2.0\t0.5\tstop\n",
                              "top_events.tsv": "onset\tduration\n9.0\t1.0\n"},
     "steps": [{"op": "create", "files": ["sub1/sub1_events.tsv", "top_events.tsv"], "name": "back1"},
               {"op": "edit", "path": "sub1/sub1_events.tsv", "how": "swap", "k": 40, "meta": "keep"},
               {"op": "restore", "name": "back1", "tasks": [], "via": "api"},
               {"op": "edit", "path": "top_events.tsv", "how": "flip", "k": 3, "meta": "keep"},
               {"op": "restore", "name": "back1", "tasks": [], "via": "cli"},
               {"op": "write", "path": "top_events.tsv", "data": "x"},
               {"op": "edit", "path": "top_events.tsv", "how": "rot", "k": 0, "meta": "backup"},
               {"op": "edit", "path": "sub1/sub1_events.tsv", "how": "rot", "k": 0, "meta": "backup"},
               {"op": "restore", "name": "back1", "tasks": [], "via": "api"},
               {"op": "restore", "name": "back1", "tasks": [], "via": "api"},
               {"op": "list"}]},
    # dot-prefixed directories and same-named twins: every directory component is part of the key
    {"kind": "hist", "tree": {"sub1": None, "sub1/.orig": None, "sub1/.orig/sub1_events.tsv": "onset\tduration\n1\t2\n",
                              "sub1/sub1_events.tsv": "onset\tduration\n3\t4\n", "..x y": None,
                              "..x y/.n_events.tsv": "onset\tduration\n5\t6\n"},
     "steps": [{"op": "create", "files": [], "name": "back1", "via": "cli"},
               {"op": "write", "path": "sub1/.orig/sub1_events.tsv", "data": "gone"},
               {"op": "delete", "path": "..x y/.n_events.tsv"},
               {"op": "restore", "name": "back1", "tasks": [], "via": "api"},
               {"op": "remodel", "name": "back1", "tasks": []},
               {"op": "remodel", "name": "back1", "tasks": []},
               {"op": "list"}]},
    {"kind": "crash", "tree": {".s": None, ".s/a.txt": "xyz", "a.txt": "uvw", ".s/.t": None, ".s/.t/a.txt": "1"},
     "files": [".s/a.txt", "a.txt", ".s/.t/a.txt"], "name": "b1", "pre": []},
    # task-restricted restores when the backup name, the dataset directory, an ancestor or the backups location
    # contain 'task_<requested name>': only the file's BASE name decides
    {"kind": "hist", "rootname": "task_stop_lab/study_task_gonogo",
     "tree": {"f_task_go_events.tsv": "onset\tduration\n1\t2\n", "f_task_stop_events.tsv": "onset\tduration\n3\t4\n",
              "task_go": None, "task_go/notes.txt": "n"},
     "steps": [{"op": "create", "files": ["f_task_go_events.tsv", "f_task_stop_events.tsv", "task_go/notes.txt"],
                "name": "before_task_go_cleanup"},
               {"op": "write", "path": "f_task_stop_events.tsv", "data": "edited stop\n"},
               {"op": "write", "path": "f_task_go_events.tsv", "data": "edited go\n"},
               {"op": "write", "path": "task_go/notes.txt", "data": "edited notes"},
               {"op": "restore", "name": "before_task_go_cleanup", "tasks": ["go"], "via": "api"},
               {"op": "write", "path": "f_task_go_events.tsv", "data": "edited go again\n"},
               {"op": "restore", "name": "before_task_go_cleanup", "tasks": ["go"], "via": "cli"},
               {"op": "remodel", "name": "before_task_go_cleanup", "tasks": ["go"]},
               {"op": "remodel", "name": "before_task_go_cleanup", "tasks": ["go"]},
               {"op": "list"}]},
    {"kind": "hist", "rootname": "data", "bd": "bk_task_go_store",
     "tree": {"f_task_go_events.tsv": "g", "f_task_stop_events.tsv": "s"},
     "steps": [{"op": "create", "files": [], "name": "b1", "via": "cli"},
               {"op": "write", "path": "f_task_stop_events.tsv", "data": "edited"},
               {"op": "write", "path": "f_task_go_events.tsv", "data": "edited"},
               {"op": "restore", "name": "b1", "tasks": ["go"], "via": "cli"},
               {"op": "restore", "name": "b1", "tasks": ["stop"], "via": "api"},
               {"op": "list"}]},
    # degenerate sizes: a legitimately empty backed-up file gets content later and is restored by a fresh manager
    {"kind": "hist", "tree": {"e_events.tsv": "", "sub": None, "sub/empty.bin": "", "n.txt": "n"},
     "steps": [{"op": "create", "files": ["e_events.tsv", "sub/empty.bin", "n.txt"], "name": "b1"},
               {"op": "list"},
               {"op": "write", "path": "e_events.tsv", "data": "onset\tduration\n1\t2\n"},
               {"op": "write", "path": "sub/empty.bin", "data": "\x00"},
               {"op": "restore", "name": "b1", "tasks": [], "via": "cli"},
               {"op": "list"}]},
    # several requested tasks: the files of EVERY requested task come back, the others stay; CR / CRLF bytes survive
    {"kind": "hist", "tree": {"a_task_go_events.tsv": "onset\tduration\r\n1\t2\r\n", "b_task_stop_events.tsv": "onset\r1\r",
                              "c_task_x_events.tsv": 'onset\tnote\n1\t"a\rb"\n', "d_task_rest_events.tsv": "onset\n4\n"},
     "steps": [{"op": "create", "files": ["a_task_go_events.tsv", "b_task_stop_events.tsv", "c_task_x_events.tsv",
                                          "d_task_rest_events.tsv"], "name": "b1"},
               {"op": "restore", "name": "b1", "tasks": [], "via": "api"},
               {"op": "write", "path": "a_task_go_events.tsv", "data": "A"},
               {"op": "write", "path": "b_task_stop_events.tsv", "data": "B"},
               {"op": "delete", "path": "c_task_x_events.tsv"},
               {"op": "write", "path": "d_task_rest_events.tsv", "data": "D"},
               {"op": "restore", "name": "b1", "tasks": ["go", "stop"], "via": "api"},
               {"op": "write", "path": "b_task_stop_events.tsv", "data": "B2"},
               {"op": "restore", "name": "b1", "tasks": ["nope", "x", "stop"], "via": "cli"},
               {"op": "list"}]},
    {"kind": "crash", "tree": {"w_events.tsv": "onset\tduration\r\n1\t2\r\n", "m.txt": "a\rb"},
     "files": ["w_events.tsv", "m.txt"], "name": "b1", "pre": [{"name": "old", "files": ["m.txt"]}]},
    # the Coq non-vacuity instance, every crash point and every byte of every partial write
    {"kind": "crash", "tree": {"sub": None, "sub/a_task_x.t": "\x01\x02\x03", 'c"\\': "\x07"},
     "files": ["sub/a_task_x.t", 'c"\\'], "name": "b1", "all_k": True, "pre": []},
    # existing backup of the same name, data modified: no effect at all
    {"kind": "hist", "tree": {"a_task_go_events.tsv": "onset\tduration\ttrial_type\n1\t2\tgo\n", "n.txt": "hello"},
     "steps": [{"op": "create", "files": ["a_task_go_events.tsv", "n.txt"], "name": "default_back"},
               {"op": "write", "path": "n.txt", "data": "changed"},
               {"op": "create", "files": ["a_task_go_events.tsv", "n.txt"], "name": "default_back"},
               {"op": "create", "files": [], "name": "default_back", "via": "cli"},
               {"op": "delete", "path": "a_task_go_events.tsv"},
               {"op": "restore", "name": "default_back", "tasks": ["go"], "via": "cli"},
               {"op": "restore", "name": "default_back", "tasks": [], "via": "api"},
               {"op": "remodel", "name": "default_back", "tasks": []},
               {"op": "remodel", "name": "default_back", "tasks": []},
               {"op": "list"}]},
    # empty selection, missing source, file outside the data root
    {"kind": "crash", "tree": {"a.txt": "x"}, "files": [], "name": "b1", "pre": []},
    {"kind": "crash", "tree": {"a.txt": "xyz", "d": None}, "files": ["a.txt", "gone.txt", "d"], "name": "b1", "pre": []},
    {"kind": "crash", "tree": {"a.txt": "xyz"}, "files": ["a.txt", "ABS:/etc/hostname"], "name": "b1", "pre": []},
]


# ---------------------------------------------------------------- run / replay

def judge(scn, real, res, stats):
    """Oracle violations of one scenario -> res; returns True when a property failure was reported."""
    failed = False
    if "harness_error" in real:
        res.violation("harness-error", {"scenario": scn}, real["harness_error"], no_input=True)
        return True
    for v in real["violations"]:
        clause, where, msg = v[0], v[1], v[2]
        tag = v[3] if len(v) > 3 else None
        fid = "C18-F1" if (not FIXED and clause == "never-overwritten" and tag == "stale") else None
        res.report(clause, {"scenario": scn, "where": where}, msg, fid=fid)
        failed = True
    return failed


def run(tier, seed, res, model_ok=True, proof_ok=True):
    rng = random.Random(seed)
    n_crash, n_mal, n_hist = (60, 25, 160) if tier == "quick" else (800, 250, 2000)
    if not proof_ok:
        n_crash, n_mal, n_hist = n_crash * 3, n_mal * 3, n_hist * 3
    cases = list(CORPUS)
    cases += [gen_crash(rng, i) for i in range(n_crash)]
    cases += [gen_crash(rng, 10 ** 6 + i, malformed=True) for i in range(n_mal)]
    cases += [gen_hist(rng, i) for i in range(n_hist)]
    # import the code under test once, before forking, so the workers do not each pay for pandas/hed
    import hed.tools.remodeling.cli.run_remodel, hed.tools.remodeling.cli.run_remodel_backup  # noqa
    import hed.tools.remodeling.cli.run_remodel_restore, hed.tools.remodeling.dispatcher  # noqa
    order = sorted(range(len(cases)), key=lambda i: -(len(cases[i]["files"]) * 40 if cases[i]["kind"] == "crash"
                                                      else len(cases[i]["steps"])))
    with Pool(int(C.JOBS)) as pool:
        rs = pool.map(real_case, [cases[i] for i in order], chunksize=1)
    reals = [None] * len(cases)
    for i, r in zip(order, rs):
        reals[i] = r

    failed = [judge(scn, real, res, None) for scn, real in zip(cases, reals)]

    disagreements = 0
    corr = 0
    if model_ok:
        exe = C.build_driver("c18")
        idx, lines = [], []
        for i, (scn, real) in enumerate(zip(cases, reals)):
            if "harness_error" in real or not model_ok_names(scn):
                continue
            if scn["kind"] == "crash" and real.get("clean", ["x"])[0] == "ctor-exn":
                continue
            idx.append(i)
            lines.append(crash_request(scn, real) if scn["kind"] == "crash" else hist_request(scn, real))
        outs = C.run_driver(exe, lines, shards=int(C.JOBS))
        for i, m in zip(idx, outs):
            scn, real = cases[i], reals[i]
            corr += 1
            d = compare_crash(scn, real, m) if scn["kind"] == "crash" else compare_hist(scn, real, m)
            if d:
                disagreements += 1
                if not failed[i]:
                    res.violation("correspondence", {"scenario": scn}, "; ".join(d)[:1500], no_input=True)

    # measured statistics
    n_points = sum(len(r.get("points", [])) for r in reals)
    n_steps = sum(len(r.get("steps", [])) for r in reals)
    inner = 0
    outcomes = {"raises": 0, "not_listed": 0, "listed": 0}
    kinds = {}
    seen = set()
    for scn, r in zip(cases, reals):
        tl = len(r.get("trace", []))
        for p in r.get("points", []):
            n, k = p["pt"]
            if 0 < n < tl or k >= 0:
                key = (json.dumps(scn["tree"], sort_keys=True), tuple(scn["files"]), scn["name"], n, k)
                if key not in seen:
                    seen.add(key)
                    inner += 1
            oc = p["outcome"]
            outcomes["raises" if oc[0] == "exn" else ("listed" if canon(scn["name"]) in oc[1] else "not_listed")] += 1
        mod = False
        for st, rec in zip(scn.get("steps", []), r.get("steps", [])):
            kinds[st["op"]] = kinds.get(st["op"], 0) + 1
            if st["op"] in ("write", "delete", "edit"):
                mod = True
            if st["op"] in ("restore", "remodel") and mod:
                key = (json.dumps(scn, sort_keys=True), len(seen))
                seen.add(key)
                inner += 1
    return {
        "evaluations": n_points + n_steps,
        "distinct_nontrivial": inner,
        "rule": "crash points strictly inside the effect trace of create_backup or inside a copy / the record write "
                "(distinct by tree, selection, name, point) + restore/remodel steps executed after a modification "
                "or deletion of data files",
        "samples": [[st.get("name") for st in cases[1]["steps"]], cases[len(CORPUS)]["files"], cases[-1]["steps"][:3]],
        "histogram": {"scenarios_crash": n_crash + n_mal, "scenarios_history": n_hist, "crash_points": n_points,
                      "history_steps": n_steps, "outcome_after_crash": outcomes, "step_kinds": kinds},
        "disagreements_checked": disagreements,
        "correspondence_cases": corr,
        "exhaustive": False,
    }


def replay(payload):
    case = payload.get("case") or {}
    scn = case.get("scenario")
    if scn is None:
        print("no concrete input in replay:", str(payload.get("detail", ""))[:800])
        return 1
    real = real_case(scn)
    kf = {f["id"] for f in C.known_findings().get("findings", []) if f.get("property") == PROP}
    bad = 0
    for v in real.get("violations", []):
        known = (not FIXED) and v[0] == "never-overwritten" and len(v) > 3 and v[3] == "stale" and "C18-F1" in kf
        print("KNOWN" if known else "FAILS:", v[0], v[1], v[2])
        bad += 0 if known else 1
    if "harness_error" in real:
        print(real["harness_error"])
        bad += 1
    if model_ok_names(scn) and not bad:
        exe = C.build_driver("c18")
        line = crash_request(scn, real) if scn["kind"] == "crash" else hist_request(scn, real)
        m = C.run_driver(exe, [line])[0]
        d = compare_crash(scn, real, m) if scn["kind"] == "crash" else compare_hist(scn, real, m)
        for x in d:
            print("MODEL-DIFFERS:", x[:600])
        bad += len(d)
    if scn["kind"] == "hist":
        for st, rec in zip(scn["steps"], real.get("steps", [])):
            print(" ", st["op"], rec["result"][:2])
    else:
        print("  trace:", real.get("trace"))
        print("  outcomes:", [(p["pt"], p["outcome"][0]) for p in real.get("points", [])][:40])
    return 1 if bad else 0
