"""C05 -- Schemas survive saving and reloading in every format."""
import os
import random
import shutil
import time
from multiprocessing import Pool

from harness import common as C
from harness import c05_codec as K

PROP = "C05"
COQ_TARGETS = ["Props/C05.vo", "Extract/ExtractC05.vo"]
TRUSTED = [
    "Model/AttrCodec.v, WikiCodec.v, TsvCodec.v, Traversal.v are hand transcriptions of text_util.parse_attribute_string/"
    "_parse_header_attributes_line, Schema2Base._format_tag_attributes/process_schema/_output_tags/_output_units/"
    "_should_skip/_attribute_disallowed, Schema2Wiki._write_tag_entry/_write_entry/_format_props_and_desc/"
    "_flush_current_tag, SchemaLoaderWiki._remove_nowiki_tag_from_line/_get_tag_level/_get_tag_name/_get_line_section/"
    "_create_entry, Schema2DF._write_tag_entry, SchemaLoaderDF._create_entry, HedSchemaEntry._compare_attributes_no_order; "
    "tied by the correspondence run (every attribute string / MediaWiki line / TSV tag row emitted for every bundled "
    "schema, generated entries, malformed stream)",
    "Python re on tag_name_expression, attr_re and the attribute pattern is modelled by hand scanners (validated by the "
    "correspondence run incl. malformed lines); str.strip()/\\s = Base/Str.v isspace table",
    "XML lexing/serialisation (xml.etree, defusedxml, minidom pretty printer), pandas to_csv/read_csv, file I/O, the "
    "loaders' section splitting, parent tracking and partnered-schema merge are NOT modelled: exercised end-to-end only "
    "(testing)",
]
ASSUMPTIONS = [
    "PROVED (all inputs in the stated classes, model at the mode of the current /repo: every repair 4719ff8, 394565c, "
    "784517a, 8fb8446, 4b4f5c6, f2636f2 is in): the MediaWiki tag section of a merged save decodes to the entries that "
    "were written (long names/parents, attributes, descriptions) when the entry list is parents-first; one line of every "
    "other MediaWiki section; the attribute grammar; one TSV tag row and the unit class stub row; the traversal "
    "selection; the refusal of every multi-library merge",
    "BY CONSTRUCTION OF THE MODEL ONLY: that the writer's entry list is parents-first (HedSchemaTagSection."
    "_finalize_section is not modelled; tested for file-loaded and for in-memory edited schemas by the clause "
    "wiki-independent-listing, an independent line reader of the saved MediaWiki text); a TSV location is a map from the ten suffixes (file naming not modelled); the "
    "reader's line splitting is splitting at U+000A; the XML writer is modelled at the name element only",
    "TESTED ONLY (this harness, on the implementation): the headline clause at whole-schema level -- save;load == "
    "original for XML/MediaWiki/TSV x merged/unmerged over all bundled schemas and generated edits --, cross-format "
    "equality, the independent ElementTree listing, the TSV tag table as a whole, header/prologue/epilogue, the '#' line "
    "layout, unmerged (rooted) MediaWiki sections, XML lexing/pretty printing, pandas CSV I/O, section splitting, the "
    "partnered merge on load",
    "open findings: C05-F3 rest (nowiki words inside a description are deleted by the MediaWiki reader) and C05-F6 (a tab "
    "or line feed in a name admitted through allowedCharacter cannot be held by TSV / MediaWiki); the VERIF_C05_FIXED* "
    "switches at 0 describe the code BEFORE the corresponding fix commits (records only)",
]

FIXED = K.FIXED     # VERIF_C05_FIXED, default 1: the current code, which contains fix commits 4719ff8 (F1), 394565c (F2), 784517a (F3), 8fb8446 (F4), and the full statements
DATA = "hed/schema/schema_data"
LEGACY = ("HED_score_1.0.0.xml", "HED_testlib_1.0.2.xml")


def bundled():
    d = os.path.join(C.REPO, DATA)
    return sorted(f for f in os.listdir(d) if f.endswith(".xml"))


def load(fn):
    from hed.schema import load_schema
    return load_schema(os.path.join(C.REPO, DATA, fn))


# ---------------------------------------------------------------- expected entries (oracle of the selection rule)

def expected_tag_entries(s, merged):
    """Property rule: an unmerged save of a partnered library holds exactly the inLibrary entries; every other save
    holds every entry once.  inLibrary is kept only in a partnered merged save."""
    partnered = bool(s.with_standard)
    keep_all = merged or not partnered
    strip = not (partnered and merged)
    out = []
    for e in s.tags.all_entries:
        if keep_all or e.has_attribute("inLibrary"):
            at = {k: v for k, v in e.attributes.items() if not (strip and k == "inLibrary")}
            short = e.name.split("/")[-1]
            out.append((short, at, e.description))
    return out


def wiki_sections(text):
    """Split emitted MediaWiki text into (section, line) for '*'/root lines."""
    sec = "header"
    out = []
    for ln in text.split("\n"):
        st = ln
        if st.startswith("!# start schema"):
            sec = "schema"
            continue
        if st.startswith("!# end schema"):
            sec = "after"
            continue
        if st.startswith("!# end hed"):
            sec = "end"
            continue
        if sec == "header" and st.startswith("'''Prologue'''"):
            sec = "prologue"
            continue
        if sec == "after" or sec in ("units", "other"):
            if st.startswith("'''Unit classes'''"):
                sec = "units"
                continue
            if st.startswith("'''") and st.rstrip().endswith("'''") and "<nowiki>" not in st:
                sec = "other" if not st.startswith("'''Epilogue'''") else "epilogue"
                continue
        if sec in ("schema", "units", "other") and st.strip():
            out.append((sec, ln))
    return out


# ---------------------------------------------------------------- case building

class Cases:
    def __init__(self):
        self.items = []     # (kind, payload, sx)

    def add(self, kind, payload, sx):
        self.items.append((kind, payload, C.to_sx(sx)))


def canon_attrs(lst):
    return [[k, v] for k, v in lst]


def build_bundled_cases(cs, res, names, hist):
    from hed.schema.hed_schema_constants import HedSectionKey
    K.bind_real_props()
    for fn in names:
        try:
            s = load(fn)
        except Exception as e:  # noqa  -- a bundled schema that no longer loads is a concrete failing input
            res.report("bundled-schema-loads", {"schema": fn}, f"{type(e).__name__}: {str(e)[:300]}")
            continue
        modes = [True, False] if s.with_standard else [True]
        # attribute strings of every entry of every section, all four writer modes
        seen = set()
        for key in HedSectionKey:
            for e in s[key].all_entries if hasattr(s[key], "all_entries") else s[key].values():
                if not e.attributes:
                    continue
                sig = tuple((k, v) for k, v in e.attributes.items())
                if sig in seen:
                    continue
                seen.add(sig)
                for mode in (0, 1, 2, 3):
                    cs.add("fmt", {"schema": fn, "entry": e.name, "mode": mode, "attrs": dict(e.attributes)},
                           ["fmt", mode, K.sx_attrs(e.attributes)])
                hist["bundled_attr_dicts"] = hist.get("bundled_attr_dicts", 0) + 1
        for m in modes:
            text = s.get_as_mediawiki_string(m)
            lines = wiki_sections(text)
            exp = expected_tag_entries(s, m)
            tag_lines = [ln for sec, ln in lines if sec == "schema"]
            if len(tag_lines) != len(exp):
                res.report("wiki-line-count", {"schema": fn, "merged": m},
                           f"{len(tag_lines)} tag lines for {len(exp)} expected entries")
                exp = [None] * len(tag_lines)
            if m:
                # the whole tag section through the section reader of the model (C05_wiki_tag_section_roundtrip's reader)
                full = [(e.name, {k: v for k, v in e.attributes.items() if not ((not s.with_standard) and k == "inLibrary")},
                         e.description) for e in s.tags.all_entries]
                cs.add("tsection", {"schema": fn, "merged": m, "n": len(tag_lines), "expect": full},
                       ["tsection", [K.sx_s(x) for x in tag_lines]])
            for ln, ex in zip(tag_lines, exp):
                cs.add("tline", {"schema": fn, "merged": m, "line": ln, "expect": ex}, ["tline", K.sx_s(ln)])
            for sec, ln in lines:
                if sec != "schema":
                    cs.add("eline", {"schema": fn, "merged": m, "line": ln}, ["eline", K.sx_s(ln)])
            hist["bundled_wiki_lines"] = hist.get("bundled_wiki_lines", 0) + len(lines)
            # header line
            h = text.split("\n")[0]
            cs.add("hdr", {"schema": fn, "s": h[3:]}, ["hdr", K.sx_s(h[3:])])
            ha = s.get_save_header_attributes(m)
            for sep in (" ", ", "):
                cs.add("hdrw", {"sep": sep, "pairs": list(ha.items())}, ["hdrw", K.sx_s(sep), [[K.sx_s(k), K.sx_s(v)] for k, v in ha.items()]])
            # TSV tag rows
            if fn not in LEGACY:
                import hed.schema.hed_schema_df_constants as dk
                df = s.get_as_dataframes(m)[dk.TAG_KEY]
                exp = expected_tag_entries(s, m)
                rows = list(df.iterrows())
                if len(rows) != len(exp):
                    res.report("tsv-row-count", {"schema": fn, "merged": m}, f"{len(rows)} rows for {len(exp)} entries")
                    exp = [None] * len(rows)
                for (_, r), ex in zip(rows, exp):
                    d = r[dk.description]
                    d = None if (d is None or d != d) else d
                    cs.add("tsvr", {"schema": fn, "merged": m, "row": [r[dk.hed_id], r[dk.name], r[dk.attributes], d], "expect": ex},
                           ["tsvr", K.sx_s(r[dk.hed_id]), K.sx_s(r[dk.name]), K.sx_s(r[dk.attributes]), K.sx_desc(d)])
                hist["bundled_tsv_rows"] = hist.get("bundled_tsv_rows", 0) + len(rows)
            # traversal on the real schema
            lib, ws, tags, ucs, secs = K.real_schema_traversal_inputs(s)
            fake = K.FakeSchema(lib, ws, tags, ucs, secs)
            line, maps = K.traversal_to_model(lib, ws, m, tags, ucs, secs)
            cs.items.append(("trav", {"schema": fn, "merged": m, "fake": fake, "maps": maps, "real": s}, line))
        # a schema that is not partnered ignores save_merged: also run the traversal with False
        if not s.with_standard:
            lib, ws, tags, ucs, secs = K.real_schema_traversal_inputs(s)
            fake = K.FakeSchema(lib, ws, tags, ucs, secs)
            line, maps = K.traversal_to_model(lib, ws, False, tags, ucs, secs)
            cs.items.append(("trav", {"schema": fn, "merged": False, "fake": fake, "maps": maps, "real": None}, line))


def build_generated_cases(cs, rng, n, hist):
    for i in range(n):
        wide = rng.random() < 0.3
        name = K.g_name(rng, wide)
        attrs = K.g_attrs(rng, wide)
        desc = K.g_desc(rng, wide)
        level = rng.choice([0, 1, 1, 2, 3, 5])
        mode = rng.choice([0, 0, 1])
        is_value = rng.random() < 0.12
        tag = "#" if is_value and level > 0 else name
        if rng.random() < 0.1 and level > 0:
            tag = "Par/" + tag
        p = {"tag": tag, "level": level, "attrs": attrs, "desc": desc, "mode": mode, "wide": wide}
        cs.add("wtag", p, ["wtag", mode, K.sx_s(tag), level, K.sx_attrs(attrs), K.sx_desc(desc)])
        cs.add("ok", p, ["ok", K.sx_s(tag), K.sx_attrs(attrs), K.sx_desc(desc)])
        if rng.random() < 0.3:
            depth = rng.choice([1, 2])
            incl = rng.random() < 0.9
            uname = name if rng.random() < 0.7 else name + " " + K.g_name(rng)
            pe = {"name": uname, "depth": depth, "incl": incl, "attrs": attrs, "desc": desc, "mode": mode}
            if rng.random() < 0.5:     # one opaque term: slash, '$', '^', '#' are ordinary characters of a non-tag name
                k = rng.randint(1, len(uname))
                uname = uname[:k] + rng.choice(["/", "/", "$", "^", "#", "%", "(", "=", "*"]) + uname[k:]
                pe["name"] = uname
            cs.add("went", pe, ["went", mode, K.sx_s(uname), depth, incl, K.sx_attrs(attrs), K.sx_desc(desc)])
            cs.add("oke", pe, ["ok", K.sx_s(uname), K.sx_attrs(attrs), K.sx_desc(desc)])
        for m in (0, 1, 2, 3):
            if m == 0 or rng.random() < 0.3:
                cs.add("fmt", {"mode": m, "attrs": attrs, "gen": True, "wide": wide}, ["fmt", m, K.sx_attrs(attrs)])
        strip = rng.random() < 0.5
        tname = "Par/" + name + "/#" if is_value else name
        cs.add("tsvw", {"strip": strip, "name": tname, "attrs": attrs, "desc": desc}, ["tsvw", strip, K.sx_s(tname), K.sx_attrs(attrs), K.sx_desc(desc)])
        if rng.random() < 0.3:
            b = dict(attrs)
            items = list(b.items())
            rng.shuffle(items)
            b = dict(items)
            for k in list(b):
                if isinstance(b[k], str) and rng.random() < 0.5:
                    parts = b[k].split(",")
                    rng.shuffle(parts)
                    if rng.random() < 0.2:
                        parts = parts + [parts[0]]
                    if rng.random() < 0.1:
                        parts = parts[:-1] or ["zz"]
                    b[k] = ",".join(parts)
                elif rng.random() < 0.05:
                    b[k] = "True"
            if rng.random() < 0.1:
                b["extra"] = True
            cs.add("cmp", {"a": attrs, "b": b}, ["cmp", K.sx_attrs(attrs), K.sx_attrs(b)])
        raw = (desc or "")
        if rng.random() < 0.5:
            raw = rng.choice(["", " ", "  ", "\t", "\u00a0", "\u3000"]) + raw + rng.choice(["", " ", "\n", "\u00a0 "])
        cs.add("xmld", {"text": raw}, ["xmld", K.sx_s(raw)])
        if rng.random() < 0.3:
            order, tl = K.gen_tree_lines(rng)
            cs.add("rebuild", {"lines": tl, "order": order}, ["rebuild", [[a, b] for a, b in tl]])
        if rng.random() < 0.5:
            is_tag = rng.random() < 0.4
            xn = ("Par/" if is_tag and rng.random() < 0.6 else "") + name
            if not is_tag and rng.random() < 0.7:
                k = rng.randint(0, len(xn))
                xn = xn[:k] + rng.choice(["/", "/", "$", "^", " ", "#", "/#"]) + xn[k:]
            cs.add("xmlname", {"is_tag": is_tag, "name": xn}, ["xmlname", is_tag, K.sx_s(xn)])
        if rng.random() < 0.4:
            nm_raw = name if rng.random() < 0.5 else rng.choice(["", " "] + K.EXOTIC_WS) + name + rng.choice([" "] + K.EXOTIC_WS)
            cs.add("xmln", {"text": nm_raw}, ["xmln", K.sx_s(nm_raw)])
        if rng.random() < 0.5:
            # a small MediaWiki-like text: lines may hold any code point of the text class except LF
            ls = []
            for _ in range(rng.randint(1, 5)):
                ln = rng.choice(["", "* ", "** ", "'''"]) + K.g_name(rng) + " <nowiki>[" + (K.g_desc(rng) or "d").replace("\n", " ") + "]</nowiki>"
                if rng.random() < 0.6:
                    ln = K.exoticise(rng, ln)
                ls.append(ln)
            text = "\n".join(ls) + rng.choice(["", "\n"])
            cs.add("lines", {"text": text}, ["lines", K.sx_s(text)])
        if rng.random() < 0.4:
            incl = rng.random() < 0.5
            cs.add("tsve", {"strip": strip, "incl": incl, "name": name, "attrs": attrs, "desc": desc},
                   ["tsve", strip, incl, K.sx_s(name), K.sx_attrs(attrs), K.sx_desc(desc)])
        hist["gen_wide" if wide else "gen_inclass"] = hist.get("gen_wide" if wide else "gen_inclass", 0) + 1
        hist[f"gen_nattrs_{len(attrs)}"] = hist.get(f"gen_nattrs_{len(attrs)}", 0) + 1
        if any(isinstance(v, str) and "," in v for v in attrs.values()):
            hist["gen_multivalued"] = hist.get("gen_multivalued", 0) + 1


def build_malformed_cases(cs, rng, n, real_lines, hist):
    for i in range(n):
        base = rng.choice(real_lines) if real_lines else None
        g = K.g_garbage(rng, base)
        g = g.replace("\r", "")
        cs.add("tline", {"line": g, "expect": None, "malformed": True}, ["tline", K.sx_s(g)])
        if rng.random() < 0.5:
            cs.add("eline", {"line": g, "malformed": True}, ["eline", K.sx_s(g)])
        a = "".join(rng.choice("ab=, {}\n\tX1-é") for _ in range(rng.randint(0, 10)))
        if rng.random() < 0.5:
            a = rng.choice(["a=b=c", "a, a=b", "a=b, a", "a=b, a=c", "a=", "=b", "a==b", " a = b ", "a=b\n", "a=\nb", "a,,b", ",", "a=b,", "a = b", "A=x y , B"])
        cs.add("attr", {"s": a}, ["attr", K.sx_s(a)])
        h = "".join(rng.choice(['a', 'b', '=', '"', ' ', ',', '\n', 'x="1"', ' lib="s"', '="']) for _ in range(rng.randint(0, 8)))
        cs.add("hdr", {"s": h}, ["hdr", K.sx_s(h)])
        hist["malformed"] = hist.get("malformed", 0) + 1
    for j in range(max(50, n // 10)):
        lib, ws, tags, ucs, secs = K.gen_traversal_case(rng)
        fake = K.FakeSchema(lib, ws, tags, ucs, secs)
        for m in (True, False):
            line, maps = K.traversal_to_model(lib, ws, m, tags, ucs, secs)
            cs.items.append(("trav", {"gen": True, "merged": m, "fake": fake, "maps": maps, "real": None,
                                      "desc": [lib, ws, [(t.name, t._inlib) for t in tags]]}, line))
        hist["gen_traversals"] = hist.get("gen_traversals", 0) + 2


# ---------------------------------------------------------------- checking

def same_entry(impl_attrs, exp_attrs):
    return K.impl_cmp(dict((k, v) for k, v in impl_attrs), exp_attrs)


def check_case(kind, p, m, res, stats):
    """Compare model output m with the implementation on one case; returns True when a disagreement was seen."""
    def corr(detail):
        stats["disagreements"] += 1
        q = {k: v for k, v in p.items() if k not in ("fake", "maps", "real")}
        res.violation("correspondence", {"kind": kind, **q}, detail, no_input=True)
        return True

    if isinstance(m, list) and m and m[0] == "ERR":
        return corr(f"model driver error {m}")
    if kind == "fmt":
        im = K.impl_format(p["mode"], p["attrs"])
        mo = K.un_s(m)
        if im != mo:
            return corr(f"format impl={im!r} model={mo!r}")
        # parse it back on the implementation: the attr_roundtrip clause
        back = K.impl_parse_attr(im)
        stats["attr_roundtrips"] += 1
        p["formatted"] = im
        p["back"] = back
        return False
    if kind == "attr":
        im = K.impl_parse_attr(p["s"])
        mo = ["exn", m[1]] if m[0] == "exn" else ["ok", K.un_attrs(m[1])]
        if im != mo:
            return corr(f"parse impl={im} model={mo}")
        return False
    if kind in ("tline", "eline"):
        im = K.impl_read_line(p["line"], kind == "tline")
        mo = K.un_parsed(m)
        if im != mo:
            return corr(f"read impl={im} model={mo}")
        ex = p.get("expect")
        if ex is not None:
            short, at, desc = ex
            if mo[0] != "ok" or mo[3] != short or not same_entry(mo[4], at) or mo[5] != (desc or None):
                res.report("wiki-line-decodes-to-entry", {"schema": p.get("schema"), "merged": p.get("merged"), "line": p["line"]},
                           f"decoded={mo} entry={ex}")
        return False
    if kind == "hdr":
        im = K.impl_hdr(p["s"])
        if m == "fuel":
            return corr("model out of fuel")
        mo = [[[K.un_s(k), K.un_s(v)] for k, v in m[0]], [K.un_s(u) for u in m[1]]]
        if im != mo:
            return corr(f"header impl={im} model={mo}")
        return False
    if kind == "hdrw":
        im = K.impl_hdrw(p["sep"], p["pairs"])
        mo = K.un_s(m)
        if im != mo:
            return corr(f"header write impl={im!r} model={mo!r}")
        # round trip on the implementation
        back = K.impl_hdr(im)
        # the TSV reader ignores the unmatched separators (df2schema._get_header_attributes)
        if back[0] != [[k, v] for k, v in p["pairs"]] or (p["sep"] == " " and back[1]):
            res.report("header-roundtrip", {"pairs": p["pairs"], "sep": p["sep"]}, f"back={back}")
        return False
    if kind == "cmp":
        im = K.impl_cmp(p["a"], p["b"])
        if im != (m == "1"):
            return corr(f"compare impl={im} model={m}")
        return False
    if kind == "tsvr":
        im = K.impl_tsv_read(*p["row"])
        mo = ["exn", m[1]] if m[0] == "exn" else ["ok", K.un_s(m[1]), K.un_attrs(m[2]), K.un_desc(m[3])]
        if im != mo:
            return corr(f"tsv read impl={im} model={mo}")
        ex = p.get("expect")
        if ex is not None:
            short, at, desc = ex
            at = {k: v for k, v in at.items() if k != "annotationProperty"}
            if mo[0] != "ok" or mo[1] != short or not same_entry(mo[2], at) or mo[3] != (desc or None):
                res.report("tsv-row-decodes-to-entry", {"schema": p.get("schema"), "merged": p.get("merged"), "row": p["row"]},
                           f"decoded={mo} entry={ex}")
        return False
    if kind == "lines":
        im = K.canon_lines(K.impl_open_file_lines(p["text"]))
        want = K.canon_lines(K.lf_lines(p["text"]))
        if im != want:
            # property-level: the reader must see the LF-separated lines of the text and nothing else
            res.report("lines-split-only-at-LF", {"text": p["text"], "codepoints": [hex(ord(c)) for c in p["text"] if ord(c) > 126 or ord(c) < 32]},
                       f"reader sees {len(im)} lines, the text has {len(want)} LF-separated lines")
            return True
        mo = K.canon_lines([K.un_s(x) for x in m])
        if im != mo:
            return corr(f"lines impl={im} model={mo}")
        return False
    if kind == "tsection":
        if m[0] != "ok":
            res.report("wiki-section-decodes-to-entries", {"schema": p["schema"], "merged": p["merged"]}, f"model section reader: {m}")
            return False
        got = [("/".join(K.un_s(c) for c in it[0]), K.un_attrs(it[1]), K.un_desc(it[2])) for it in m[1]]
        exp = p["expect"]
        if len(got) != len(exp):
            res.report("wiki-section-decodes-to-entries", {"schema": p["schema"]}, f"{len(got)} entries decoded, {len(exp)} written")
            return False
        for (gn, ga, gd), (en, ea, ed) in zip(got, exp):
            if gn != en or not same_entry(ga, ea) or gd != (ed or None):
                res.report("wiki-section-decodes-to-entries", {"schema": p["schema"], "entry": en},
                           f"decoded=({gn!r}, {ga}, {gd!r}) entry=({en!r}, {ea}, {ed!r})")
                break
        return False
    if kind == "rebuild":
        im = K.impl_rebuild(p["lines"])
        mo = ["exn", m[1]] if m[0] == "exn" else ["ok", [[int(x) for x in n] for n in m[1]]]
        if im != mo:
            return corr(f"rebuilt names impl={im} model={mo}")
        return False
    if kind == "xmlname":
        im = K.impl_xml_name_text(p["is_tag"], p["name"])
        if not p["is_tag"] and im != p["name"]:
            # property-level: the independent XML reader must see the original name of a non-tag entry
            res.report("xml-name-element", {"name": p["name"], "kind": "unit"}, f"the XML writer puts {im!r} into the name element")
            return True
        mo = K.un_s(m)
        if im != mo:
            return corr(f"xml name element impl={im!r} model={mo!r}")
        return False
    if kind == "xmln":
        im = K.impl_xml_name(p["text"])
        mo = K.un_s(m)
        if im != mo:
            return corr(f"xml name impl={im!r} model={mo!r} (VERIF_C05_FIXED_F5={K.FIXED5})")
        return False
    if kind == "xmld":
        im = K.impl_xml_desc(p["text"])
        mo = K.un_desc(m)
        if im != mo:
            return corr(f"xml description impl={im!r} model={mo!r}")
        if FIXED and im is not None and (im != im.strip() or not im):
            res.report("xml-description-normal", {"text": p["text"]}, f"loaded description {im!r}")
        return False
    if kind == "tsve":
        im = K.impl_tsv_write_entry(p["strip"], p["incl"], p["name"], p["attrs"], p["desc"])
        mo = [K.un_s(m[0]), K.un_s(m[1]), K.un_s(m[2]), K.un_desc(m[3]) or None]
        if im != mo:
            return corr(f"tsv entry row impl={im} model={mo}")
        if FIXED and not p["incl"] and (im[0] or im[2] or im[3]):
            res.report("tsv-stub-row", {"name": p["name"], "attrs": p["attrs"], "desc": p["desc"]}, f"row={im}")
        return False
    if kind == "tsvw":
        im = K.impl_tsv_write(p["strip"], p["name"], p["attrs"], p["desc"])
        mo = [K.un_s(m[0]), K.un_s(m[1]), K.un_s(m[2]), K.un_desc(m[3])]
        if im != mo:
            return corr(f"tsv write impl={im} model={mo}")
        imr = K.impl_tsv_read(im[0], im[1], im[2], im[3])
        b = m[4]
        mor = ["exn", b[1]] if b[0] == "exn" else ["ok", K.un_s(b[1]), K.un_attrs(b[2]), K.un_desc(b[3])]
        if imr != mor:
            return corr(f"tsv write+read impl={imr} model={mor}")
        p["back"] = imr
        return False
    if kind == "wtag" or kind == "went":
        if kind == "wtag":
            im = K.impl_write_tag(p["mode"], p["tag"], p["level"], p["attrs"], p["desc"])
        else:
            im = K.impl_write_entry(p["mode"], p["name"], p["depth"], p["incl"], p["attrs"], p["desc"])
        if m[0] == "N":
            if im is not None:
                return corr(f"write impl={im!r} model=None")
            return False
        mo = K.un_s(m[0])
        if im != mo:
            return corr(f"write impl={im!r} model={mo!r}")
        if "\n" in im or "\r" in im:
            return False    # would be split by the line reader
        imr = K.impl_read_line(im, kind == "wtag")
        mor = K.un_parsed(m[1])
        if imr != mor:
            return corr(f"write+read impl={imr} model={mor} line={im!r}")
        p["line"] = im
        p["back"] = imr
        p["row_free"] = m[2] == "1"
        return False
    if kind == "ok":
        p["flags"] = [x == "1" for x in m]
        return False
    if kind == "oke":
        p["eflags"] = [x == "1" for x in m]
        return False
    if kind == "trav":
        im = K.traversal_canon_impl(K.impl_traverse(p["fake"], p["merged"]), p["maps"])
        mo = K.traversal_canon_model(m)
        if im != mo:
            return corr(f"traversal impl={str(im)[:300]} model={str(mo)[:300]}")
        # implementation-side oracle of the selection rule (independent of the model)
        if im[0] == "ok":
            traversal_oracle(p, im, res)
        return False
    return corr("unknown kind")


def traversal_oracle(p, im, res):
    f = p["fake"]
    partnered = bool(f.with_standard)
    merged = p["merged"]
    tags = f.tags.all_entries
    inv = {}
    for c, i in p["maps"][0].items():
        inv[i] = c
    written = ["/".join(inv[c] for c in n) for n, _, _, _ in im[1]]
    case = {"schema": p.get("schema"), "merged": merged, "desc": p.get("desc")}
    if partnered and not merged:
        want = [t.name for t in tags if t.has_attribute("inLibrary")]
    else:
        want = [t.name for t in tags]
    if written != want:
        res.report("traversal-selection", case, f"written={written[:8]}.. want={want[:8]}..")
    keep = partnered and merged
    for (n, _, _, at), t in zip(im[1], [t for t in tags if t.name in set(written)]):
        has = 0 in at
        if has != (keep and "inLibrary" in t.attributes):
            res.report("traversal-inLibrary-attribute", case, f"{t.name}: emitted inLibrary={has}")


def theorem_transfer(items, res, stats):
    """The proved round-trip statements, replayed on the implementation: inside the proved class the real writer
    followed by the real reader must give the entry back."""
    flags = None
    for kind, p, _ in items:
        if kind == "wtag":
            last_w = p
        elif kind == "ok":
            if p is not last_w or "back" not in p:
                continue
            name_ok, wattr_ok, desc_ok, attr_ok = p["flags"][:4]
            if name_ok and wattr_ok and desc_ok and p.get("row_free") and p["tag"] == p["tag"].split("/")[-1]:
                stats["wiki_in_class"] += 1
                strip = p["mode"] == 1
                want_at = {k: v for k, v in p["attrs"].items() if not (strip and k == "inLibrary")}
                want = ["ok", p["level"] == 0, p["level"], p["tag"], [[k, v] for k, v in want_at.items()], p["desc"]]
                if p["back"] != want:
                    res.report("wiki-line-roundtrip", {"tag": p["tag"], "level": p["level"], "attrs": p["attrs"], "desc": p["desc"]},
                               f"line={p['line']!r} read={p['back']} want={want}")
        elif kind == "oke" and "back" in p and "eflags" in p:
            # wiki_entry_line_roundtrip replayed on the implementation
            _, wattr_ok, desc_ok, _, _, ename_ok = p["eflags"]
            if ename_ok and wattr_ok and desc_ok and p["incl"] and p.get("row_free"):
                stats["wiki_entry_in_class"] = stats.get("wiki_entry_in_class", 0) + 1
                strip = p["mode"] == 1
                want_at = {k: v for k, v in p["attrs"].items() if not (strip and k == "inLibrary")}
                want = ["ok", False, p["depth"], p["name"], [[k, v] for k, v in want_at.items()], p["desc"]]
                if p["back"] != want:
                    res.report("wiki-entry-line-roundtrip", {"name": p["name"], "depth": p["depth"], "attrs": p["attrs"], "desc": p["desc"]},
                               f"line={p['line']!r} read={p['back']} want={want}")
    # attr_roundtrip: needs the attr_ok flag; computed with the python mirror below
    for kind, p, _ in items:
        if kind == "fmt" and "back" in p:
            if py_attr_ok(p["attrs"]):
                stats["attr_in_class"] += 1
                mode = p["mode"]
                dis = set()
                if mode in (1, 3):
                    dis.add("inLibrary")
                if mode >= 2:
                    dis |= {"hedId", "annotationProperty"}
                want = ["ok", [[k, v] for k, v in p["attrs"].items() if k not in dis]]
                if p["back"] != want:
                    res.report("attr-roundtrip", {"attrs": p["attrs"], "mode": mode}, f"formatted={p['formatted']!r} back={p['back']}")


def py_attr_ok(d):
    """Python mirror of AttrCodec.attr_ok (cross-checked against the model's own flag on generated cases)."""
    for k, v in d.items():
        if not k or not all(("a" <= c <= "z") or ("A" <= c <= "Z") for c in k):
            return False
        if v is True:
            continue
        for piece in v.split(","):
            if not piece or any(c in ",=\n" for c in piece) or piece != piece.strip():
                return False
    return True


def run_codec(tier, rng, res, hist):
    names = bundled()
    cs = Cases()
    stats = {"disagreements": 0, "attr_roundtrips": 0, "wiki_in_class": 0, "attr_in_class": 0}
    build_bundled_cases(cs, res, names, hist)
    real_lines = [p["line"] for k, p, _ in cs.items if k in ("tline", "eline")]
    n = 1500 if tier == "quick" else 25000
    build_generated_cases(cs, rng, n, hist)
    build_malformed_cases(cs, rng, n, real_lines, hist)
    exe = C.build_driver("c05")
    outs = C.run_driver(exe, [sx for _, _, sx in cs.items])
    for (kind, p, _), m in zip(cs.items, outs):
        check_case(kind, p, m, res, stats)
    # cross-check python mirror of attr_ok with the model's flag
    last_w = None
    for kind, p, _ in cs.items:
        if kind == "ok" and "flags" in p:
            if py_attr_ok(p["attrs"]) != p["flags"][3]:
                res.violation("correspondence", {"attrs": p["attrs"]}, "python mirror of attr_ok differs from the model", no_input=True)
    theorem_transfer(cs.items, res, stats)
    check_tsv_tables(res)
    check_tsv_cells_and_locations(res, rng, stats)
    kinds = {}
    for k, _, _ in cs.items:
        kinds[k] = kinds.get(k, 0) + 1
    samples = [cs.items[i][1].get("line") or str({k: v for k, v in cs.items[i][1].items() if k in ("attrs", "s", "tag")})
               for i in (0, len(cs.items) // 3, len(cs.items) // 2, len(cs.items) - 1)]
    distinct = len({sx for k, _, sx in cs.items if k in ("tline", "eline", "wtag", "went", "tsvr", "tsvw", "attr", "fmt") and
                    ("123" in sx or "91" in sx or "61" in sx)})
    return {"codec_cases": len(cs.items), "kinds": kinds, "stats": stats, "samples": samples, "distinct": distinct}


# ---------------------------------------------------------------- run

# the repaired findings: only recognised with VERIF_C05_FIXED=0 (record of the code before fix commits 4719ff8 (F1), 394565c (F2), 784517a (F3), 8fb8446 (F4))
FIXED5 = K.FIXED5   # VERIF_C05_FIXED_F5, default 1: finding C05-F5 (names with an outer non-ASCII blank) repaired by fix commit 4b4f5c6
LEGACY_FINDINGS = {
    "C05-F1": "description with outer white space kept by the XML reader but stripped by the MediaWiki/TSV readers",
    "C05-F2": "TSV written with QUOTE_NONE but read with default quoting: a description starting with a double quote is altered",
    "C05-F3": "'extend here' / nowiki words inside a description break or alter the MediaWiki reload",
    "C05-F4": "Schema2DF._write_entry ignored include_props: unmerged TSV save of a library unit in a standard unit class "
              "reloads with a duplicate unit class",
}


def run(tier, seed, res, model_ok=True, proof_ok=True):
    if not FIXED:
        res.known_ids = dict(getattr(res, "known_ids", {}))
        for k, v in LEGACY_FINDINGS.items():
            res.known_ids.setdefault(k, {"id": k, "what": "(unrepaired code, VERIF_C05_FIXED=0) " + v})
    rng = random.Random(seed)
    hist = {}
    t0 = time.time()
    out = {"evaluations": 0}
    hist["model_ok"] = bool(model_ok)
    if model_ok:
        cod = run_codec(tier, rng, res, hist)
    else:
        cod = {"codec_cases": 0, "kinds": {}, "stats": {"disagreements": 0}, "samples": [], "distinct": 0}
    t1 = time.time()
    e2e = run_e2e(tier if proof_ok else "thorough", rng, res, hist)
    t2 = time.time()
    return {
        "evaluations": cod["codec_cases"] + e2e["cases"],
        "distinct_nontrivial": cod["distinct"] + e2e["nontrivial"],
        "rule": "codec: distinct model inputs that carry at least one attribute/description delimiter ('{', '[' or '='); "
                "end-to-end: edit cases accepted by the loader and by compliance plus bundled schemas, each taken through "
                "all applicable format x merged round trips",
        "samples": cod["samples"] + e2e["samples"],
        "histogram": {k: v for k, v in hist.items() if k != "model_ok"},
        "disagreements_checked": cod["stats"]["disagreements"],
        "exhaustive": False,
        "correspondence_cases": cod["codec_cases"],
        "codec_kinds": cod["kinds"],
        "codec_stats": cod["stats"],
        "e2e": e2e["summary"],
        "wall_codec_s": round(t1 - t0, 1),
        "wall_e2e_s": round(t2 - t1, 1),
    }


def run_e2e(tier, rng, res, hist):
    try:
        from harness import c05_e2e as E
    except ImportError:
        return {"cases": 0, "nontrivial": 0, "samples": [], "summary": {"missing": True}}
    try:
        cases = [{"kind": "multilib", "tier": tier}] + list(E.CORPUS) + E.gen_cases(rng, tier) + E.gen_histories(rng, tier)
    except Exception as e:  # noqa -- the generator needs every bundled schema to load
        res.report("bundled-schema-loads", {"stage": "edit generation"}, f"{type(e).__name__}: {str(e)[:300]}")
        cases = [{"kind": "bundled", "schema": f} for f in E.bundled()]
    with Pool(int(C.JOBS)) as pool:
        outs = pool.map(E.run_any, cases, chunksize=1)
    summary = {}
    nontrivial = 0
    rts = 0
    want_files = sorted(model_tsv_files()) if hist.get("model_ok", True) else None
    for o in outs:
        if want_files is not None and "tsv_files" in o and o["tsv_files"] != want_files:
            res.report("tsv-file-set", {"e2e": o["case"]},
                       f"section files written {o['tsv_files']} != the fixed set of the model {want_files}")
        if o["case"].get("kind") == "history":
            summary["histories"] = summary.get("histories", 0) + 1
        summary[o["outcome"]] = summary.get(o["outcome"], 0) + 1
        rts += o.get("n_roundtrips", 0)
        for k, v in (o.get("stats") or {}).items():
            if isinstance(v, bool):
                v = int(v)
            if isinstance(v, int):
                hist["e2e_" + k] = hist.get("e2e_" + k, 0) + v
        if o["outcome"] == "ok":
            nontrivial += 1
        for f in o["failures"]:
            case = {"e2e": o["case"], "fmt": f.get("fmt"), "merged": f.get("merged")}
            if f["clause"] == "harness-error":
                res.violation("harness-error", case, f["detail"], no_input=True)
            else:
                res.report(f["clause"], case, f["detail"], fid=f.get("fid"))
    # tie of Model/Traversal.v merged_library: the library header of every legal multi-library merge
    merges = [m for o in outs for m in o.get("merges", [])]
    if merges and hist.get("model_ok", True):
        exe = C.build_driver("c05")
        mo = C.run_driver(exe, [C.to_sx(["mergelib", [K.sx_s(x) for x in m["members"]]]) for m in merges])
        for m, r in zip(merges, mo):
            if K.un_s(r[0]) != m["library"]:
                res.violation("correspondence", {"kind": "mergelib", "merge": m["tag"]},
                              f"library header impl={m['library']!r} model={K.un_s(r[0])!r}", no_input=True)
    summary["multilib_merges"] = len(merges)
    summary["roundtrips"] = rts
    return {"cases": len(cases), "nontrivial": nontrivial, "samples": [str(c)[:200] for c in cases[:2]], "summary": summary}


_model_files = None


def model_tsv_files():
    """df_suffixes of Model/TsvFiles.v (what C05_tsv_files_written_full says every save writes)."""
    global _model_files
    if _model_files is None:
        exe = C.build_driver("c05")
        out = C.run_driver(exe, ["(tsvfiles (1 0 1 0 0 0 0 0 0 1))"])[0]
        _model_files = [K.un_s(x) for x in out]
    return _model_files


def check_tsv_tables(res):
    """Tie of Model/TsvFiles.v: the dict Schema2DF hands to save_dataframes always has the model's ten keys, in the
    model's order, and one file per key is written whatever the table holds."""
    import hed.schema.hed_schema_df_constants as dk
    from hed.schema.schema_io.df_util import create_empty_dataframes
    want = model_tsv_files()
    got = list(create_empty_dataframes().keys())
    if got != want:
        res.violation("correspondence", {"kind": "tsv-tables"}, f"create_empty_dataframes keys {got} model {want}", no_input=True)
    d = C.scratch_dir("hedverif-c05f-")
    try:
        for fn, m in (("HED_testlib_2.0.0.xml", False), ("HED8.0.0.xml", True)):
            try:
                s = load(fn)
            except Exception:  # noqa  (reported by the bundled cases)
                continue
            keys = list(s.get_as_dataframes(m).keys())
            if keys != want:
                res.violation("correspondence", {"kind": "tsv-tables", "schema": fn}, f"get_as_dataframes keys {keys} model {want}",
                              no_input=True)
            p = os.path.join(d, fn[:-4] + str(int(m)), "sch")
            s.save_as_dataframes(p, m)
            files = sorted(f[len("sch_"):-len(".tsv")] for f in os.listdir(p))
            if files != sorted(want):
                res.report("tsv-file-set", {"schema": fn, "merged": m},
                           f"section files written {files} != the fixed set of the model {sorted(want)}")
    finally:
        shutil.rmtree(d, ignore_errors=True)


def check_tsv_cells_and_locations(res, rng, stats):
    """Ties of Model/TsvFiles.v (cells, save locations) to the real pandas / path handling."""
    exe = C.build_driver("c05")
    d = C.scratch_dir("hedverif-c05c-")
    try:
        texts = [None] + list(K.CELL_SPECIAL) + ['"n/a"', "n/a.", " n/a", "n/a (see parent)", "NA NA", "a\\nb", "\\N", "'NA'"]
        texts += [(K.g_desc(rng) or "d").replace("\n", " ").replace("\t", " ").replace("\r", " ") for _ in range(40)]
        got = K.impl_tsv_cells(texts, d)
        mo = [K.un_desc(x) for x in C.run_driver(exe, [C.to_sx(["cell", K.sx_desc(t)]) for t in texts])]
        for t, g, m in zip(texts, got, mo):
            want = t if t else None
            if g != want:
                res.report("tsv-cell-texts", {"cell": t}, f"a TSV cell written as {t!r} is read back as {g!r}")
            elif g != m:
                res.violation("correspondence", {"kind": "cell", "cell": t}, f"cell impl={g!r} model={m!r}", no_input=True)
        stats["tsv_cells"] = len(texts)
        names = list(K.LOC_NAMES) + list(K.LOC_NAMES_UPPER) + [K.g_name(rng) + rng.choice(["", ".", ".1", ".tsv", ".x.y"]) for _ in range(6)]
        lines, cases = [], []
        for nm in names:
            parent = rng.choice([[], ["p"], ["dir.tsv"], ["a.b", "c"]])
            cases.append((parent, nm))
            lines.append(C.to_sx(["tsvloc", [K.sx_s(x) for x in parent], K.sx_s(nm)]))
        for (parent, nm), m in zip(cases, C.run_driver(exe, lines)):
            written, wanted = K.impl_tsv_location(parent, nm, d)
            mw = sorted(os.path.join(*[K.un_s(c) for c in f[0]], K.un_s(f[1])) for f in m[0])
            mr = sorted(os.path.join(*[K.un_s(c) for c in f[0]], K.un_s(f[1])) for f in m[1])
            if written != wanted:
                upper = nm.lower().endswith(".tsv") and not nm.endswith(".tsv")
                res.report("tsv-location-files", {"location": "/".join(parent + [nm])},
                           f"the writer creates {written[:2]}.. but the reader looks for {wanted[:2]}..",
                           fid="C05-F8" if (upper and not K.FIXED8) else None)
            if written != mw or wanted != mr:
                res.violation("correspondence", {"kind": "tsvloc", "location": "/".join(parent + [nm])},
                              f"writer impl={written[:2]} model={mw[:2]}; reader impl={wanted[:2]} model={mr[:2]}", no_input=True)
        stats["tsv_locations"] = len(names)
    finally:
        shutil.rmtree(d, ignore_errors=True)


def replay(payload):
    case = payload.get("case") or {}
    res = C.Result(PROP)
    res.known_ids = {}
    if "e2e" in case:
        from harness import c05_e2e as E
        o = E.run_any(case["e2e"])
        print("outcome:", o["outcome"])
        for f in o["failures"]:
            print("FAILS:", f)
        return 1 if [f for f in o["failures"]] else 0
    print("codec/correspondence case (no implementation-side failing input):", str(case)[:1000])
    print(payload.get("detail", "")[:1000])
    kind = case.get("kind")
    if kind in ("tline", "eline") and "line" in case:
        print("impl:", K.impl_read_line(case["line"], kind == "tline"))
    if "line" in case and "schema" in case:
        print("impl:", K.impl_read_line(case["line"], True))
    return 1
