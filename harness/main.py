"""./check <Cxx> [--tier quick|thorough] [--replay file]"""
import argparse
import importlib
import json
import os
import sys
import time
import traceback

from harness import common as C


def main():
    ap = argparse.ArgumentParser()
    ap.add_argument("prop")
    ap.add_argument("--tier", default=os.environ.get("VERIF_TIER", "quick"))
    ap.add_argument("--replay", default=None)
    a = ap.parse_args()
    prop = a.prop.upper()
    tier = a.tier if a.tier in ("quick", "thorough") else "quick"
    seed = int(os.environ.get("VERIF_SEED", "0") or 0)
    mod = importlib.import_module(f"harness.{prop.lower()}")
    if a.replay:
        payload = json.load(open(a.replay))
        rc = mod.replay(payload)
        sys.exit(rc)

    t0 = time.time()
    repo_before = C.sh(f"git -C {C.REPO} status --porcelain", timeout=60)[1]
    res = C.Result(prop)
    kf = C.known_findings()
    res.known_ids = {f["id"]: f for f in kf.get("findings", []) if f.get("property") == prop}

    # 1. translators (fail closed: an unrecognised source shape is a broken tie)
    tie_broken = []
    if hasattr(mod, "translate"):
        try:
            mod.translate()
        except Exception as e:  # noqa
            tie_broken.append(f"translator: {type(e).__name__}: {e}")

    # 2. proofs: full .vo build of what the property depends on, then re-check Props file
    build_ok, build_log, build_dt = C.coq_make(getattr(mod, "COQ_TARGETS", [f"Props/{prop}.vo"]))
    rep = {"ok": False, "theorems": [], "log": "", "declared": []}
    if build_ok:
        rep = C.props_report(prop)
    aud = C.audit()
    bad_ax = []
    for th in rep["theorems"]:
        for ax in th["assumptions"]:
            if ax not in C.ALLOWED_AXIOMS and ax.split(".")[-1] not in C.ALLOWED_AXIOMS:
                bad_ax.append(f"{th['name']}: {ax}")
    chk = None
    if tier == "thorough" and build_ok and rep["ok"] and os.environ.get("VERIF_NO_COQCHK") != "1":
        chk = C.coqchk(prop)
    chk_bad = bool(chk and chk["status"] == "failed")
    proof_ok = build_ok and rep["ok"] and not aud and not bad_ax and not tie_broken and not chk_bad
    proof_msg = ""
    if not proof_ok:
        if tie_broken:
            proof_msg = "; ".join(tie_broken)
        elif not build_ok:
            proof_msg = "coq build failed: " + build_log[-1500:]
        elif not rep["ok"]:
            proof_msg = "Props file no longer checks: " + rep["log"][-1500:]
        elif aud:
            proof_msg = "audit: " + ", ".join(aud)
        elif chk_bad:
            proof_msg = "coqchk rejected the compiled theories: " + chk["log"][-1500:]
        else:
            proof_msg = "unexpected axioms: " + ", ".join(bad_ax)

    # 3. correspondence + implementation-side search (module specific)
    model_ok = build_ok
    stats = {}
    try:
        stats = mod.run(tier, seed, res, model_ok=model_ok, proof_ok=proof_ok) or {}
    except Exception as e:  # machinery failure is reported, never swallowed
        tb = traceback.format_exc()
        res.violation("harness-error", None, tb[-3000:], no_input=True)

    # the check itself must leave the tree under test untouched
    repo_after = C.sh(f"git -C {C.REPO} status --porcelain", timeout=60)[1]
    if repo_after != repo_before:
        res.violation("harness-error", None, f"check modified the tree under test: before={repo_before!r} after={repo_after!r}",
                      no_input=True)

    # 4. a broken proof / tie with no concrete failing input found
    if not proof_ok and not any(not v["no_input"] for v in res.violations):
        res.violation("proof-obligation", {"theorem_or_tie": proof_msg[:3000]}, proof_msg[:3000], no_input=True)

    # 5. report
    rc = 0
    for fid, n in sorted(res.known.items()):
        what = res.known_ids.get(fid, {}).get("what", fid)
        print(f"KNOWN-FINDING: property={prop} {fid}: {what} (hit {n}x)")
    if res.violations:
        rc = 1
        with_input = [v for v in res.violations if not v["no_input"]]
        show = (with_input or res.violations)[:5]
        for v in show:
            path = C.write_replay(prop, {"property": prop, "clause": v["clause"], "case": v["case"],
                                         "detail": v["detail"], "tier": tier, "seed": seed,
                                         "proof_ok": proof_ok, "proof_msg": proof_msg[:2000]})
            tail = " no-failing-input-found" if v["no_input"] else ""
            print(f"VIOLATION property={prop} replay={path}{tail}")
            print(f"  clause={v['clause']} detail={str(v['detail'])[:300]}")

    n_obl = len(rep.get("declared", []))
    n_dis = n_obl if (build_ok and rep["ok"]) else 0
    cov = {
        "obligations": max(n_obl, 1),
        "discharged": n_dis,
        "checker_cmd": f"make -j{C.JOBS} {' '.join(getattr(mod, 'COQ_TARGETS', []))} && coqc -R . HV Props/{prop}.v  (cwd /verif/coq)",
        "trusted_base": getattr(mod, "TRUSTED", []) + [
            "Coq 8.16.1 kernel incl. vm_compute (no native_compute)",
            "extraction: ExtrOcamlBasic only, numbers stay inductive; ocaml/common.ml glue",
            "harness generators, canonicalisation and implementation-side oracle (testing)"],
        "theorems": rep["theorems"],
        "theorems_declared": rep.get("declared", []),
        "audit": aud,
        "coqchk": ({"status": chk["status"], "axioms": chk["axioms"], "wall_s": chk["wall_s"]} if chk else "thorough tier only"),
        "proof_ok": proof_ok,
        "known_findings_hit": res.known,
    }
    cov.update(stats)
    C.write_evidence(prop, tier, seed, cov, getattr(mod, "ASSUMPTIONS", []), time.time() - t0,
                     len(res.violations))
    print(f"{prop} {tier}: proof_ok={proof_ok} obligations={n_obl} discharged={n_dis} "
          f"evaluations={cov.get('evaluations')} violations={len(res.violations)} "
          f"known={sum(res.known.values())} wall={time.time() - t0:.1f}s")
    sys.exit(rc)


if __name__ == "__main__":
    main()
